"""C08 — validity masks follow the data: generators, implementation runner, Gallina encoding, oracle.

Case kinds
  expr    a tree of public Field operations over 2-3 operand fields with random masks; observed:
          the result's mask (values, shape, dtype), np.shares_memory with every operand's mask and the
          "invert the result's mask in place, re-read the operands' masks" probe
  mapdata one cell-mapping operation applied to a field whose VALUES are the cell ids, so the result's
          value array is the index map the implementation applied to the data; the mask must follow it
  setter  Field(..., valid=v) and field.valid = v for None / constants / arrays of every dtype and
          broadcastable shape / callables / strings
  norm    valid="norm" around the 1e-8 threshold (exact regime on single-component vectors, band otherwise)
  vtkenc  the "valid" cell array of to_vtk()
"""
import itertools
import math
import os
import random
import tempfile
from fractions import Fraction as F

import numpy as np

from harness import gallina as g
from harness.util import import_df, js, attempt

df = import_df()

POS_TAG = "C08-pos-returns-self"
ID0 = 100          # cell ids start here so that a padding constant is never mistaken for an id

UN_CTOR = dict(neg="UNeg", abs="UAbs", comp="UComp", norm="UNorm", orient="UOrient", real="UReal",
               imag="UImag", conj="UConj", phase="UPhase", cabs="UCAbs", diff="UDiff", scalar="UScalar",
               dotc="UDotC", crossc="UCrossC", anglec="UAngleC", lshiftc="ULshiftC", ufunc1="UUfunc1",
               curl="UCurl")
BIN_CTOR = dict(add="BAdd", sub="BSub", mul="BMul", div="BDiv", pow="BPow", dot="BDot", cross="BCross",
                angle="BAngle", lshift="BLshift", ufunc2="BUfunc2")
PMODE = dict(constant="PConstant", edge="PEdge", wrap="PWrap", symmetric="PSymmetric", reflect="PReflect")


# ------------------------------------------------------------------ building operands
def dims_of(nd):
    return ["x", "y", "z"][:nd] if nd <= 3 else [f"x{a}" for a in range(nd)]


DTYPES = {"float64": np.float64, "float32": np.float32, "int32": np.int32, "int64": np.int64, "uint8": np.uint8,
          "int8": np.int8, "complex": np.complex128}
SETDT = {"bool": bool, "int": np.int64, "float": float, "uint8": np.uint8, "int8": np.int8, "float32": np.float32,
         "complex": complex}
FLAGS = []           # oracle clauses raised inside an operation wrapper (outputs of one call sharing a mask, ...)
ARG_CHANGED = []     # descriptions of caller-supplied containers that an operation modified


def build_mesh(c):
    n = c["n"]
    cell = [F(x) for x in c["cell"]]
    p1 = [F(x) for x in c["p1"]]
    p2 = [a + k * h for a, k, h in zip(p1, n, cell)]
    if c.get("intcorners") and all(v.denominator == 1 for v in p1 + p2):
        p1 = [int(v) for v in p1]                 # integer-typed corners (the cell may be fractional)
        p2 = [int(v) for v in p2]
        if c["intcorners"] == "array":
            p1, p2 = np.array(p1, dtype=np.int64), np.array(p2, dtype=np.int64)
    else:
        p1 = [float(v) for v in p1]
        p2 = [float(v) for v in p2]
    cellf = [float(x) for x in cell]
    kw = {}
    if c.get("sub"):
        lo, sh = c["sub"]
        q0 = [float(F(x)) for x in c["p1"]]
        q1 = [a + o * h for a, o, h in zip(q0, lo, cellf)]
        q2 = [a + (o + s_) * h for a, o, s_, h in zip(q0, lo, sh, cellf)]
        kw["subregions"] = {"blk": df.Region(p1=q1, p2=q2, dims=c.get("dims"))}
    if c.get("bc"):
        kw["bc"] = c["bc"]
    rkw = {}
    if c.get("dims"):
        rkw["dims"] = c["dims"]
    if c.get("units"):
        rkw["units"] = c["units"]
    return df.Mesh(region=df.Region(p1=p1, p2=p2, **rkw), n=n, **kw)


def build_leaf(mesh, n, lf):
    nv = lf["nvdim"]
    vals = np.array([float(F(x)) for x in lf["vals"]], dtype=float).reshape(*n, nv)
    dt = lf.get("dtype")
    if lf.get("cplx") or dt == "complex":
        vals = vals + 1j * np.roll(vals, 1, axis=0) * 0.5
    elif dt in ("uint8",):
        vals = np.abs(vals).astype(DTYPES[dt])
    elif dt:
        vals = vals.astype(DTYPES[dt])
    mask = np.array(lf["mask"], dtype=bool).reshape(*n)
    kw = {}
    if lf.get("vdims"):
        kw["vdims"] = list(lf["vdims"])
    if lf.get("vmap"):
        kw["vdim_mapping"] = {k: v for k, v in lf["vmap"]}          # insertion order as given (may differ from vdims)
    if "unit" in lf:
        kw["unit"] = lf["unit"]
    return df.Field(mesh, nvdim=nv, value=vals, valid=mask, dtype=vals.dtype, **kw)


def build_leaves(c):
    """operands of an expr case; with own_mesh every operand gets its own (equal) mesh object"""
    n = c["n"]
    if c.get("own_mesh"):
        return [build_leaf(build_mesh(c), n, lf) for lf in c["leaves"]]
    mesh = build_mesh(c)
    return [build_leaf(mesh, n, lf) for lf in c["leaves"]]


def snap_mesh(m):
    return dict(pmin=[F(float(x)) for x in m.region.pmin], pmax=[F(float(x)) for x in m.region.pmax],
                n=[int(k) for k in m.n], bc=m.bc, dims=tuple(m.region.dims), units=tuple(m.region.units),
                sub={k: ([F(float(x)) for x in r.pmin], [F(float(x)) for x in r.pmax]) for k, r in m.subregions.items()})


def snap_field(f):
    """everything an operation must leave alone on an operand"""
    return dict(values=f.array.tobytes(), dtype=str(f.array.dtype), shape=f.array.shape, valid=f.valid.tobytes(),
                vdtype=str(f.valid.dtype), vshape=f.valid.shape,
                vdims=None if f.vdims is None else list(f.vdims), vmap=list(f.vdim_mapping.items()), unit=f.unit,
                nvdim=int(f.nvdim), mesh=snap_mesh(f.mesh), ids=(id(f.mesh), id(f.valid), id(f.array)))


def wrap_int(v, ty):
    return {None: int, "i32": np.int32, "i64": np.int64, "u8": np.uint8, "u16": np.uint16, "i8": np.int8}[ty](v)


def wrap_seq(vals, cont):
    if cont == "list":
        return list(vals)
    if cont == "array":
        return np.array(vals)
    return tuple(vals)


def checked(desc, containers, fn):
    """run fn(); every caller-supplied container must be unchanged afterwards"""
    import copy
    before = [copy.deepcopy(x) for x in containers]
    out = fn()
    for a, b in zip(containers, before):
        same = (type(a) is type(b) and np.array_equal(np.asarray(a, dtype=object), np.asarray(b, dtype=object))
                if not isinstance(a, dict) else
                (list(a.keys()) == list(b.keys()) and
                 all(type(a[k]) is type(b[k]) and np.array_equal(a[k], b[k]) for k in a)))
        if not same:
            ARG_CHANGED.append(desc)
    return out


def id_field(mesh):
    n = tuple(int(k) for k in mesh.n)
    ids = (np.arange(math.prod(n), dtype=float) + ID0).reshape(*n, 1)
    return df.Field(mesh, nvdim=1, value=ids)


# ------------------------------------------------------------------ applying operations
def centre(field, ax, k):
    idx = [0] * field.mesh.region.ndim
    idx[ax] = k
    return float(field.mesh.index2point(tuple(idx))[ax])


def pick_output(r, i):
    """multi-output ufunc (np.divmod, np.modf, np.frexp): every output is a field with its own mask and all of
    them carry the same validity; returns output i"""
    if not isinstance(r, tuple) or not all(isinstance(o, df.Field) for o in r):
        raise TypeError("not a tuple of fields")
    for a in range(len(r)):
        for b in range(a + 1, len(r)):
            if np.shares_memory(r[a].valid, r[b].valid):
                FLAGS.append("outputs-share-mask")
            if not np.array_equal(r[a].valid, r[b].valid):
                FLAGS.append("outputs-differ-in-validity")
    return r[i]


def apply_un(x, name, p):
    dims = x.mesh.region.dims
    if name == "neg":
        return -x
    if name == "abs":
        return abs(x)
    if name == "comp":
        return getattr(x, x.vdims[p["c"]])
    if name == "norm":
        return x.norm
    if name == "orient":
        return x.orientation
    if name == "real":
        return x.real
    if name == "imag":
        return x.imag
    if name == "conj":
        return x.conjugate
    if name == "phase":
        return x.phase
    if name == "cabs":
        return x.abs
    if name == "diff":
        return x.diff(dims[p["ax"]], order=p["order"], restrict2valid=p["restrict"])
    if name == "scalar":
        v = p["v"]
        k = p["form"]
        if k == "tuple":
            other = tuple(float(v + j) for j in range(x.nvdim))
        elif k == "array":
            other = np.full(x.array.shape, float(v))
        elif k == "list":
            other = [float(v + j) for j in range(x.nvdim)]
        elif k == "complex":
            other = complex(v, 1)
        elif k == "int":
            other = int(v)
        else:
            other = float(v)
        o = p["op"]
        if isinstance(other, (list, np.ndarray)):
            return checked("scalar-operand", [other], lambda: {
                "add": lambda: x + other, "radd": lambda: x.__radd__(other), "sub": lambda: x - other,
                "rsub": lambda: x.__rsub__(other), "mul": lambda: x * other, "rmul": lambda: x.__rmul__(other),
                "div": lambda: x / other, "rdiv": lambda: x.__rtruediv__(other), "pow": lambda: x ** other}[o]())
        return {"add": lambda: x + other, "radd": lambda: other + x if k != "array" else x.__radd__(other),
                "sub": lambda: x - other, "rsub": lambda: other - x if k != "array" else x.__rsub__(other),
                "mul": lambda: x * other, "rmul": lambda: other * x if k != "array" else x.__rmul__(other),
                "div": lambda: x / other, "rdiv": lambda: other / x if k != "array" else x.__rtruediv__(other),
                "pow": lambda: x ** other}[o]()
    if name == "dotc":
        c = tuple(float(j + 1) for j in range(x.nvdim))
        return x.dot(c) if p["form"] == 0 else (x @ c if p["form"] == 1 else x.dot(np.array(c)))
    if name == "crossc":
        c = (1.0, -2.0, 0.5)
        return x.cross(c) if p["form"] == 0 else (x & c if p["form"] == 1 else c & x)
    if name == "anglec":
        c = tuple(float(j + 1) for j in range(x.nvdim))
        return x.angle(c)
    if name == "lshiftc":
        return {0: lambda: x << 1.5, 1: lambda: x << (1.0, 2.0), 2: lambda: 3 << x,
                3: lambda: (1.0, 2.0) << x, 4: lambda: x << np.array([4.0])}[p["form"]]()
    if name == "ufunc1":
        return {"sin": lambda: np.sin(x), "negative": lambda: np.negative(x), "absolute": lambda: np.abs(x),
                "square": lambda: np.square(x), "mul2": lambda: np.multiply(x, 2), "radd": lambda: np.add(2.0, x),
                "positive": lambda: np.positive(x), "exp": lambda: np.exp(x), "sign": lambda: np.sign(x),
                "arr": lambda: np.subtract(x, np.ones(x.array.shape)),
                # several outputs, constants on either side, ufunc methods along the component axis
                "modf0": lambda: pick_output(np.modf(x), 0), "modf1": lambda: pick_output(np.modf(x), 1),
                "frexp0": lambda: pick_output(np.frexp(x), 0), "frexp1": lambda: pick_output(np.frexp(x), 1),
                "divmodc0": lambda: pick_output(np.divmod(x, 2), 0), "divmodc1": lambda: pick_output(np.divmod(x, 2), 1),
                "rdivmodc1": lambda: pick_output(np.divmod(7, x), 1),
                "reduce_comp": lambda: np.add.reduce(x, axis=-1, keepdims=True),
                "accum_comp": lambda: np.add.accumulate(x, axis=-1),
                "where": lambda: np.negative(x, where=np.ones(x.array.shape, dtype=bool)),
                }[p["f"]]()
    if name == "grad":
        return x.grad
    if name == "div":
        return x.div
    if name == "curl":
        return x.curl
    if name == "laplace":
        return x.laplace
    raise KeyError(name)


def apply_bin(x, y, name, p):
    if name == "add":
        return x + y
    if name == "sub":
        return x - y
    if name == "mul":
        return x * y
    if name == "div":
        return x / y
    if name == "pow":
        return x ** y
    if name == "dot":
        return x.dot(y) if p.get("form", 0) == 0 else x @ y
    if name == "cross":
        return x.cross(y) if p.get("form", 0) == 0 else x & y
    if name == "angle":
        return x.angle(y)
    if name == "lshift":
        return x << y
    if name == "ufunc2" and p["f"] in ("divmod0", "divmod1"):
        return pick_output(np.divmod(x, y), int(p["f"][-1]))
    if name == "ufunc2" and p["f"] == "add_where":
        return np.add(x, y, where=np.ones(np.broadcast_shapes(x.array.shape, y.array.shape), dtype=bool))
    if name == "ufunc2" and p["f"] == "add_out":
        nv = max(int(x.nvdim), int(y.nvdim))
        dt = np.result_type(x.array.dtype, y.array.dtype, np.float64)
        o = df.Field(x.mesh, nvdim=nv, value=np.zeros((*x.mesh.n, nv), dtype=dt), dtype=dt)
        return np.add(x, y, out=o)      # the returned field is checked here; the out field in the 'ufout' cases
    if name == "ufunc2":
        return {"add": np.add, "multiply": np.multiply, "maximum": np.maximum, "hypot": np.hypot,
                "subtract": np.subtract, "arctan2": np.arctan2}[p["f"]](x, y)
    raise KeyError(name)


def coord(v, ty):
    if ty == "f32":
        return np.float32(v)
    if ty == "f64":
        return np.float64(v)
    if ty == "int" and float(v).is_integer():
        return int(v)
    return float(v)


def apply_map(x, name, p):
    dims = x.mesh.region.dims
    ty = p.get("ty")
    cont = p.get("cont")
    if name == "plane":
        if p.get("default"):
            return x.sel(dims[p["ax"]])
        return x.sel(**{dims[p["ax"]]: coord(centre(x, p["ax"], p["k"]), p.get("cty"))})
    if name == "range":
        rng_ = [coord(centre(x, p["ax"], p["lo"]), p.get("cty")), coord(centre(x, p["ax"], p["hi"]), p.get("cty"))]
        arg = wrap_seq(rng_, cont)
        return checked("sel-range", [arg], lambda: x.sel(**{dims[p["ax"]]: arg}))
    if name == "block":
        if p.get("name"):
            return x[p["name"]]
        pmin = x.mesh.region.pmin
        cell = x.mesh.cell
        ins = 0.25 if p.get("inset") else 0.0     # region strictly inside the block: immune to rounded corners
        q1 = [float(a + (o + ins) * h) for a, o, h in zip(pmin, p["offs"], cell)]
        q2 = [float(a + (o + s_ - ins) * h) for a, o, s_, h in zip(pmin, p["offs"], p["sh"], cell)]
        q1, q2 = wrap_seq(q1, cont), wrap_seq(q2, cont)
        reg = df.Region(p1=q1, p2=q2, dims=dims)
        before = (reg.pmin.copy(), reg.pmax.copy())
        out = x[reg]
        if not (np.array_equal(reg.pmin, before[0]) and np.array_equal(reg.pmax, before[1])):
            ARG_CHANGED.append("getitem-region")
        return out
    if name in ("pad", "pad2"):
        kw = {}
        if p["mode"] == "constant" and p.get("cv") is not None:
            kw["constant_values"] = p["cv"] if ty is None else wrap_int(p["cv"], ty)
        width = {dims[p["ax"]]: wrap_seq([wrap_int(p["before"], ty), wrap_int(p["after"], ty)], cont)}
        if name == "pad2":
            width[dims[p["ax2"]]] = wrap_seq([wrap_int(p["before2"], ty), wrap_int(p["after2"], ty)], cont)
        return checked("pad-arguments", [width, kw], lambda: x.pad(width, mode=p["mode"], **kw))
    if name == "rot90":
        return x.rotate90(dims[p["a"]], dims[p["b"]], k=p["k"], inplace=bool(p.get("inplace")))
    if name == "resample":
        arg = wrap_seq([wrap_int(v, ty) for v in p["sh"]], cont)
        return checked("resample-n", [arg], lambda: x.resample(arg))
    if name in ("hdf5", "vtk"):
        with tempfile.TemporaryDirectory() as d:
            ext = {"hdf5": ".h5", "vtk": ".vtk"}[name]
            fn = os.path.join(d, "f" + ext)
            if name == "vtk":
                x.to_file(fn, representation=p.get("rep", "bin"))
            else:
                x.to_file(fn)
            return df.Field.from_file(fn)
    raise KeyError(name)


# ------------------------------------------------------------------ evaluation with the property-level expectation
def expected_map(x, exp_x, name, p):
    """expected mask of map(x): transform the cell ids with the library's own operation on the DATA and
    read the operand's expected mask through that index map ('exactly as they transform the data')"""
    idf = id_field(x.mesh)
    pp = dict(p)
    pp["inplace"] = False
    r = apply_map(idf, name, pp)
    ids = np.rint(np.real(r.array[..., 0])).astype(int)
    flat = exp_x.reshape(-1)
    out = np.empty(ids.shape, dtype=bool)
    inside = ids >= ID0
    out[inside] = flat[ids[inside] - ID0]
    out[~inside] = bool(p.get("cv") or 0)      # constant padding: the mask is padded with the same constant
    return out, ids


class Ctx:
    """evaluation context: the operands, plus every intermediate result whose mask was written in place before
    it was used further (it is an operand of the later operations in its own right)"""

    def __init__(self, leaves):
        self.leaves = leaves
        self.extra = []          # (field, mask read back right after the write)
        self.idx = {}            # path of the poke node -> operand number


def ev(t, ctx, path=()):
    """returns (field, expected mask)"""
    tag = t[0]
    if tag == "leaf":
        f = ctx.leaves[t[1]]
        return f, f.valid.copy()
    if tag == "pos":
        x, e = ev(t[1], ctx, path + (1,))
        return +x, e
    if tag == "poke":
        x, e = ev(t[2], ctx, path + (2,))
        e = e.copy()
        for i in t[1]:
            ii = np.unravel_index(i % x.valid.size, x.valid.shape)
            x.valid[ii] = not x.valid[ii]          # in-place write into the result's mask between operations
            e[ii] = not e[ii]
        ctx.idx[path] = len(ctx.leaves) + len(ctx.extra)
        ctx.extra.append((x, np.array(x.valid, dtype=bool).copy()))
        return x, e
    if tag == "un":
        x, e = ev(t[3], ctx, path + (3,))
        return apply_un(x, t[1], t[2]), e
    if tag == "bin":
        x, e1 = ev(t[3], ctx, path + (3,))
        y, e2 = ev(t[4], ctx, path + (4,))
        r = apply_bin(x, y, t[1], t[2])
        return r, np.logical_and(e1, e2)
    if tag == "map":
        x, e = ev(t[3], ctx, path + (3,))
        r = apply_map(x, t[1], t[2])
        exp, _ = expected_map(x, e, t[1], t[2])
        return r, exp
    raise KeyError(tag)


def has_poke(t):
    return t[0] == "poke" or any(has_poke(s_) for s_ in t if isinstance(s_, list) and s_ and isinstance(s_[0], str))


def flip_cells(arr, idxs, value=None):
    for i in idxs:
        ii = np.unravel_index(i % arr.size, arr.shape)
        arr[ii] = (not arr[ii]) if value is None else value


def apply_pre(leaves, steps, tree=None):
    """'used, then changed in place': returns the violated oracle clauses seen while replaying the steps"""
    bad = []
    for st in steps:
        k = st[0]
        if k == "use":
            for f in leaves:
                nd = f.mesh.region.ndim
                with np.errstate(all="ignore"):
                    _ = (f.norm.array.sum(), f.valid.sum(), tuple(f.mesh.cell), f.mesh.dV,
                         f.mesh.index2point((0,) * nd), f.mesh.point2index(f.mesh.index2point((0,) * nd)),
                         list(itertools.islice(iter(f.mesh), 2)), list(itertools.islice(f.mesh.indices, 2)),
                         f.mesh.region.edges, f.mesh.region.centre, abs(f).array.sum(), f.mean())
            if tree is not None:
                try:
                    with np.errstate(all="ignore"):
                        ev(tree, Ctx(leaves))          # the operation under test itself, on the earlier state
                except Exception:  # noqa: BLE001 - may not apply to the earlier state
                    pass
        elif k == "valid_write":
            f = leaves[st[1]]
            arr_before = f.array.tobytes()
            flip_cells(f.valid, st[2], st[3])
            if f.array.tobytes() != arr_before:
                bad.append("mask-write-changed-values")
        elif k == "valid_set":
            f = leaves[st[1]]
            arr_before = f.array.tobytes()
            what = st[2]
            if isinstance(what, list):
                a, b = what
                what = np.array([((i * a + b) % 5) < 3 for i in range(f.valid.size)]).reshape(f.valid.shape)
            f.valid = what
            if f.array.tobytes() != arr_before:
                bad.append("setter-changed-values")
            if f.valid.dtype != np.bool_ or f.valid.shape != tuple(int(v) for v in f.mesh.n):
                bad.append("not-boolean")
            if isinstance(what, str):
                # values are 0, integers or of size 1e-12: far from the 1e-8 threshold (on the CURRENT values)
                length = np.sqrt((np.abs(f.array.astype(complex)) ** 2).sum(axis=-1))
                if not np.array_equal(f.valid, length > 1e-8):
                    bad.append("norm-not-from-current-values")
            elif isinstance(what, np.ndarray) and not np.array_equal(f.valid, what):
                bad.append("array-not-applied")
        elif k == "array_write":
            f = leaves[st[1]]
            v_before = f.valid.tobytes()
            if st[2] == "scale2":
                f.array *= 2
            else:
                for i in st[3]:
                    f.array[np.unravel_index(i % f.valid.size, f.valid.shape)] = 0
            if f.valid.tobytes() != v_before:
                bad.append("value-write-changed-mask")
        elif k == "rot_inplace":
            for f in leaves:
                prev = f.valid.copy()
                dims = f.mesh.region.dims
                r = f.rotate90(dims[st[1]], dims[st[2]], k=st[3], inplace=True)
                if r is not f:
                    bad.append("inplace-returned-new-object")
                if not np.array_equal(f.valid, np.rot90(prev, k=st[3], axes=(st[1], st[2]))):
                    bad.append("validity-does-not-follow-data")
        elif k in ("mesh_translate", "mesh_scale"):
            seen = set()
            for f in leaves:
                if id(f.mesh) in seen:
                    continue
                seen.add(id(f.mesh))
                v_before = f.valid.tobytes()
                if k == "mesh_translate":
                    f.mesh.translate([float(F(x)) for x in st[1]], inplace=True)
                else:
                    fac = [float(F(x)) for x in st[1]]
                    f.mesh.scale(fac[0] if len(fac) == 1 else fac, inplace=True)
                if f.valid.tobytes() != v_before:
                    bad.append("mesh-move-changed-mask")
    return bad


def strip_pos(t):
    while t[0] == "pos":
        t = t[1]
    return t


def depth(t):
    if t[0] == "leaf":
        return 0
    if t[0] == "poke":
        return depth(t[2])
    return 1 + max(depth(s) for s in t if isinstance(s, list) and s and isinstance(s[0], str))


# ------------------------------------------------------------------ Gallina printing
def map_coq(name, p):
    if name == "plane":
        return f"(MPlane {g.nat(p['ax'])} {g.nat(p['k'])})"
    if name == "range":
        return f"(MRange {g.nat(p['ax'])} {g.nat(p['lo'])} {g.nat(p['hi'])})"
    if name == "block":
        return f"(MBlock {g.nl(p['offs'])} {g.nl(p['sh'])})"
    if name == "pad":
        return (f"(MPad {PMODE[p['mode']]} {g.nat(p['ax'])} {g.nat(p['before'])} {g.nat(p['after'])} "
                f"{g.b(bool(p.get('cv') or 0))})")
    if name == "rot90":
        return f"(MRot90 {g.b(bool(p.get('inplace')))} {g.nat(p['a'])} {g.nat(p['b'])} {g.z(p['k'])})"
    if name == "resample":
        return f"(MResample {g.nl(p['sh'])})"
    return {"hdf5": "MHdf5", "vtk": "MVtk"}[name]


def un_coq(name, p):
    if name == "grad":
        return f"(UGrad {g.nat(p['nd'])})"
    if name == "div":
        return f"(UDiv {g.nat(p['nd'])})"
    if name == "laplace":
        return f"(ULaplace {g.nat(p['nd'])} {g.nat(p['nv'])})"
    return UN_CTOR[name]


def expr_coq(t, idx=None, path=()):
    tag = t[0]
    if tag == "leaf":
        return f"(Leaf {g.nat(t[1])})"
    if tag == "pos":
        return f"(Pos {expr_coq(t[1], idx, path + (1,))})"
    if tag == "poke":
        return f"(Leaf {g.nat(idx[path])})"
    if tag == "un":
        return f"(Un {un_coq(t[1], t[2])} {expr_coq(t[3], idx, path + (3,))})"
    if tag == "bin":
        return f"(Bin {BIN_CTOR[t[1]]} {expr_coq(t[3], idx, path + (3,))} {expr_coq(t[4], idx, path + (4,))})"
    sub = expr_coq(t[3], idx, path + (3,))
    if t[1] == "pad2":
        p = t[2]
        inner = dict(mode=p["mode"], ax=p["ax2"], before=p["before2"], after=p["after2"], cv=p.get("cv"))
        outer = dict(mode=p["mode"], ax=p["ax"], before=p["before"], after=p["after"], cv=p.get("cv"))
        if p.get("swap"):
            inner, outer = outer, inner
        return f"(Map {map_coq('pad', outer)} (Map {map_coq('pad', inner)} {sub}))"
    return f"(Map {map_coq(t[1], t[2])} {sub})"


def scal_coq(x):
    if isinstance(x, complex):
        return "(SI 1%Z)" if x != 0 else "(SI 0%Z)"          # truthiness of a complex number: non-zero
    if isinstance(x, (bool, np.bool_)):
        return f"(SB {g.b(x)})"
    if isinstance(x, (int, np.integer)):
        return f"(SI {g.z(x)})"
    x = float(x)
    if math.isnan(x):
        return "SNaN"
    if math.isinf(x):
        return "(SF (1 # 1))"
    return f"(SF {g.q(F(x))})"


def onat(x):
    return "None" if x is None else f"(Some {g.nat(x)})"


# ------------------------------------------------------------------ generators
def rand_mask(rng, ncell):
    pm = rng.choice([0.0, 0.15, 0.3, 0.5, 0.8, 1.0]) if rng.random() < 0.9 else 0.5
    return [rng.random() >= pm for _ in range(ncell)]


def base_case(rng, tier, nd=None, nmax=None):
    nd = nd or rng.choice([1, 2, 2, 3, 3, 3, 4])
    nmax = nmax or (4 if nd <= 3 else 3)
    n = [rng.randint(1, nmax) for _ in range(nd)]
    cell = [F(rng.choice([1, 2, 4, 1]), rng.choice([1, 2, 4])) for _ in range(nd)]
    if rng.random() < 0.5:
        cell = [cell[0]] * nd
    p1 = [F(rng.randint(-8, 8), 2) for _ in range(nd)]
    return dict(n=n, cell=[g.qs(x) for x in cell], p1=[g.qs(x) for x in p1])


def zero_heavy_leaf(rng, n, nv):
    """explicit validity, VALID cells holding the zero vector or a vector shorter than the 1e-8 threshold:
    validity follows the data only through valid='norm', never through an operation"""
    ncell = math.prod(n)
    lf = rand_leaf(rng, n, nv)
    vals = [F(x) for x in lf["vals"]]
    mask = [rng.random() < 0.75 for _ in range(ncell)]
    kinds = [rng.choice(["zero", "tiny", "tiny1", "normal"]) for _ in range(ncell)]
    kinds[rng.randrange(ncell)] = "zero"
    for cell, kd in enumerate(kinds):
        if kd == "zero":
            vals[cell * nv:(cell + 1) * nv] = [F(0)] * nv
            mask[cell] = True if rng.random() < 0.8 else mask[cell]
        elif kd == "tiny":
            vals[cell * nv:(cell + 1) * nv] = [F(rng.choice([-2, -1, 1, 3]), 2 ** 40) for _ in range(nv)]
            mask[cell] = True if rng.random() < 0.8 else mask[cell]
        elif kd == "tiny1":
            v = [F(0)] * nv
            v[rng.randrange(nv)] = F(rng.choice([1e-8, 9e-9, 1e-9, -1e-8]))
            vals[cell * nv:(cell + 1) * nv] = v
            mask[cell] = True
    lf["vals"] = [g.qs(v) for v in vals]
    lf["mask"] = mask
    return lf


def rand_leaf(rng, n, nv, cplx=False):
    ncell = math.prod(n)
    vals = [F(rng.choice([-3, -2, -1, 1, 2, 3, 4, 0])) for _ in range(ncell * nv)]
    pz = rng.choice([0.0, 0.15, 0.3])
    for cell in range(ncell):
        u = rng.random()
        if u < pz:
            vals[cell * nv:(cell + 1) * nv] = [F(0)] * nv                    # the zero vector (valid or not)
        elif u < 1.5 * pz:
            # shorter than the absolute 1e-8 threshold of "norm" / orientation, but not zero
            vals[cell * nv:(cell + 1) * nv] = [F(rng.choice([-2, -1, 0, 1, 3]), 2 ** 40) for _ in range(nv)]
    return dict(nvdim=nv, vals=[g.qs(v) for v in vals], mask=rand_mask(rng, ncell), cplx=cplx)


def dyadic_ratio(n, n2):
    """n / n2 is a dyadic rational: the resampled cell size stays exactly representable"""
    q = n2 // math.gcd(n, n2)
    return q & (q - 1) == 0


def no_ties(n, n2):
    return all(((2 * j + 1) * n) % (2 * n2) != 0 for j in range(n2))


def rand_map(rng, x, allow_io=True, in_tree=True, rotated=False):
    """a random cell-mapping operation applicable to field x: (name, params)"""
    n = [int(k) for k in x.mesh.n]
    nd = len(n)
    kinds = ["range", "block", "pad", "pad", "resample"]
    if nd >= 2:
        kinds += ["plane", "rot90", "rot90"]
        if in_tree:
            kinds += ["pad2"]
    if allow_io:
        kinds += ["hdf5"]
        if nd == 3:
            kinds += ["vtk"]
    if "blk" in x.mesh.subregions and not rotated:
        kinds += ["blockname"]
    k = rng.choice(kinds)
    ax = rng.randrange(nd)
    if k == "plane":
        if n[ax] % 2 == 1 and rng.random() < 0.3:
            return "plane", dict(ax=ax, k=n[ax] // 2, default=True)
        return "plane", dict(ax=ax, k=rng.randrange(n[ax]))
    if k == "range":
        lo = rng.randrange(n[ax])
        return "range", dict(ax=ax, lo=lo, hi=rng.randint(lo, n[ax] - 1))
    if k == "block":
        offs = [rng.randrange(m) for m in n]
        sh = [rng.randint(1, m - o) for m, o in zip(n, offs)]
        return "block", dict(offs=offs, sh=sh, inset=rotated or rng.random() < 0.5)
    if k == "blockname":
        reg = x.mesh.subregions["blk"]
        sub = x.mesh["blk"]
        offs = [int(v) for v in x.mesh.point2index(sub.index2point((0,) * nd))]
        return "block", dict(offs=offs, sh=[int(v) for v in sub.n], name="blk")
    if k == "pad":
        mode = rng.choice(["constant", "constant", "edge", "wrap", "symmetric", "reflect"])
        p = dict(mode=mode, ax=ax, before=rng.randint(0, 3), after=rng.randint(0, 3))
        if rng.random() < 0.15:
            p["before"] = rng.randint(3, 2 * n[ax] + 3)
        if mode == "constant":
            p["cv"] = rng.choice([None, None, 0, 1, 5])
        return "pad", p
    if k == "pad2":
        a, b = rng.sample(range(nd), 2)
        mode = rng.choice(["constant", "edge", "wrap", "symmetric", "reflect"])
        p = dict(mode=mode, ax=a, before=rng.randint(0, 3), after=rng.randint(0, 3), ax2=b,
                 before2=rng.randint(0, 3), after2=rng.randint(0, 2 * n[b] + 2), swap=rng.random() < 0.5)
        if mode == "constant":
            p["cv"] = rng.choice([None, 0, 1, 5])
        return "pad2", p
    if k == "rot90":
        a, b = rng.sample(range(nd), 2)
        p = dict(a=a, b=b, k=rng.choice([-5, -3, -2, -1, 0, 1, 1, 2, 3, 3, 4, 6, 7]))
        if not in_tree and rng.random() < 0.3:
            p["inplace"] = True
        return "rot90", p
    if k == "resample":
        for _ in range(20):
            sh = [rng.randint(1, 5) for _ in n]
            if not in_tree or all(no_ties(a, b) and dyadic_ratio(a, b) for a, b in zip(n, sh)):
                return "resample", dict(sh=sh)
        return "resample", dict(sh=list(n))
    if k == "vtk":
        return "vtk", dict(rep=rng.choice(["bin", "txt", "xml"]))
    return "hdf5", {}


def rand_un(rng, x):
    nd = int(x.mesh.region.ndim)
    nv = int(x.nvdim)
    cplx = np.iscomplexobj(x.array)
    kinds = ["neg", "abs", "norm", "real", "imag", "conj", "phase", "cabs", "scalar", "scalar", "ufunc1",
             "ufunc1", "lshiftc", "diff", "diff"]
    if nv > 1:
        kinds += ["comp", "orient", "dotc", "anglec"]
    if nv == 3:
        kinds += ["crossc"]
    if not cplx:
        if nv == 1:
            kinds += ["grad", "laplace"]
        if nv == nd:
            kinds += ["div", "laplace"]
        if nv == 3 and nd == 3:
            kinds += ["curl"]
    k = rng.choice(kinds)
    if k == "comp":
        return k, dict(c=rng.randrange(nv))
    if k == "diff":
        return k, dict(ax=rng.randrange(nd), order=rng.choice([1, 2]), restrict=rng.random() < 0.7)
    if k == "scalar":
        form = rng.choice(["float", "int", "tuple", "array", "list", "complex", "float"])
        ops = ["add", "radd", "sub", "rsub", "mul", "rmul", "div", "rdiv", "pow"]
        if form in ("tuple", "list"):
            ops = ["add", "sub", "mul", "div", "radd", "rmul"]
        return k, dict(form=form, op=rng.choice(ops), v=rng.choice([1, 2, 3, -2]))
    if k == "ufunc1":
        return k, dict(f=rng.choice(["sin", "negative", "absolute", "square", "mul2", "radd", "positive", "exp",
                                     "sign", "arr", "modf0", "modf1", "frexp0", "frexp1", "divmodc0", "divmodc1",
                                     "rdivmodc1", "reduce_comp", "accum_comp", "where"]))
    if k == "lshiftc":
        return k, dict(form=rng.randrange(5))
    if k in ("dotc", "crossc"):
        return k, dict(form=rng.randrange(3))
    if k in ("grad", "div"):
        return k, dict(nd=nd)
    if k == "laplace":
        return k, dict(nd=nd, nv=nv)
    return k, {}


def rand_bin(rng, x, y):
    kinds = ["lshift", "ufunc2"]
    if x.nvdim == y.nvdim or x.nvdim == 1 or y.nvdim == 1:
        kinds += ["add", "sub", "mul", "div", "pow", "ufunc2", "add", "mul"]
    if x.nvdim == y.nvdim:
        kinds += ["dot", "angle", "dot"]
        if x.nvdim == 3:
            kinds += ["cross", "cross"]
    k = rng.choice(kinds)
    if k == "ufunc2":
        return k, dict(f=rng.choice(["add", "multiply", "maximum", "hypot", "subtract", "arctan2", "divmod0", "divmod1",
                                     "divmod1", "add_out", "add_where"]))
    if k in ("dot", "cross"):
        return k, dict(form=rng.randrange(2))
    return k, {}


def rand_pre(rng, c, leaves):
    """'used, then changed in place' steps applicable to these operands"""
    n = c["n"]
    nd = len(n)
    steps = [["use"]]
    kinds = ["valid_write", "valid_write", "valid_set", "valid_set", "array_write", "array_write",
             "mesh_translate", "mesh_scale"]
    if c.get("own_mesh") and nd >= 2 and all(f.nvdim in (1, nd) for f in leaves):
        kinds += ["rot_inplace", "rot_inplace", "rot_inplace"]
    for _ in range(rng.randint(1, 4)):
        k = rng.choice(kinds)
        leaf = rng.randrange(len(leaves))
        idxs = [rng.randrange(64) for _ in range(rng.randint(1, 4))]
        if k == "valid_write":
            steps.append([k, leaf, idxs, rng.choice([None, True, False])])
        elif k == "valid_set":
            steps.append([k, leaf, rng.choice(["norm", "norm", True, False, None, [rng.randint(1, 4), rng.randint(0, 4)]])])
        elif k == "array_write":
            steps.append([k, leaf, rng.choice(["scale2", "zero", "zero"]), idxs])
            if rng.random() < 0.6:
                steps.append(["valid_set", leaf, "norm"])        # a cached norm would show here
        elif k == "rot_inplace":
            a, b = rng.sample(range(nd), 2)
            steps.append([k, a, b, rng.choice([1, 1, 3, -1, 2, 5])])
        elif k == "mesh_translate":
            steps.append([k, [g.qs(F(rng.randint(-6, 6), 2)) for _ in range(nd)]])
        else:
            fac = rng.choice([[2], [F(1, 2)], [-1], [-2], [rng.choice([1, 2, F(1, 2)]) for _ in range(nd)]])
            steps.append([k, [g.qs(F(x)) for x in fac]])
    return steps


def decorate_map(rng, name, p):
    """argument representations: numpy scalars of several widths, list / tuple / ndarray, float32 / int coordinates"""
    if name in ("pad", "pad2", "resample") and rng.random() < 0.5:
        p["ty"] = rng.choice(["i32", "i64", "u8", "u16", "i8"])
    if name in ("pad", "pad2", "resample", "range", "block") and rng.random() < 0.6:
        p["cont"] = rng.choice(["list", "array", "tuple"])
    if name in ("plane", "range") and rng.random() < 0.5:
        p["cty"] = rng.choice(["f32", "f64", "int"])
    return name, p


def gen_expr_case(rng, tier, force=None):
    c = base_case(rng, tier)
    n = c["n"]
    nd = len(n)
    if rng.random() < 0.3:
        lo = [rng.randrange(m) for m in n]
        c["sub"] = [lo, [rng.randint(1, m - o) for m, o in zip(n, lo)]]
    if rng.random() < 0.2:
        c["dims"] = rng.sample(["V", "n", "r", "v", "t", "q"], nd)        # unusual but legal names
    elif rng.random() < 0.25 and nd <= 3:
        c["bc"] = "".join(rng.sample(dims_of(nd), rng.randint(1, nd)))
    if rng.random() < 0.15:
        c["units"] = [rng.choice(["m", "", "s", "nm"]) for _ in range(nd)]
    if rng.random() < 0.25:
        c["intcorners"] = rng.choice(["list", "array"])
    nv = rng.choice([1, 2, 3, 3, nd, nd, 4])
    dt = rng.choice([None, None, None, None, "float32", "int32", "int64", "uint8", "complex", "int8"])
    mk = zero_heavy_leaf if rng.random() < 0.25 else rand_leaf
    c["leaves"] = [mk(rng, n, nv), mk(rng, n, nv), mk(rng, n, 1)]
    for lf in c["leaves"]:
        if dt:
            lf["dtype"] = dt
        if rng.random() < 0.2:
            lf["unit"] = rng.choice(["", "A/m", "T"])
    if nv > 1 and rng.random() < 0.25:
        labels = ["a", "ab", "abc", "abcd"][:nv]                             # prefixes of one another
        for lf in c["leaves"][:2]:
            lf["vdims"] = labels
            if nv == nd:
                dims = c.get("dims") or dims_of(nd)
                pairs = list(zip(labels, dims))
                rng.shuffle(pairs)                                              # insertion order != vdims order
                lf["vmap"] = [list(pr) for pr in pairs]
    state = force is None and rng.random() < 0.35
    if state and rng.random() < 0.6:
        c["own_mesh"] = True
    leaves = build_leaves(c)
    if state:
        c["pre"] = rand_pre(rng, c, leaves)
        try:
            with np.errstate(all="ignore"):
                apply_pre(leaves, c["pre"])
        except Exception:  # noqa: BLE001 - a step that does not apply: start again without the history
            c.pop("pre")
            c.pop("own_mesh", None)
            leaves = build_leaves(c)
    pool = [(["leaf", k], f) for k, f in enumerate(leaves)]
    maxdepth = 3 if tier == "quick" else 5
    steps = rng.randint(1, 4 if tier == "quick" else 7)
    last = None
    for s_ in range(steps):
        cat = rng.choice(["un", "un", "un", "bin", "bin", "bin", "map", "map", "map", "pos"]) if force is None or s_ else force
        try:
            with np.errstate(all="ignore"):
                if cat == "pos":
                    t, x = rng.choice(pool[-3:])
                    new = (["pos", t], +x)
                elif cat == "un":
                    t, x = rng.choice(pool[-4:])
                    name, p = rand_un(rng, x)
                    new = (["un", name, p, t], apply_un(x, name, p))
                elif cat == "map":
                    t, x = rng.choice(pool[-4:])
                    rotated = "rot" in str(t) or "rot_inplace" in str(c.get("pre"))
                    name, p = decorate_map(rng, *rand_map(rng, x, rotated=rotated))
                    new = (["map", name, p, t], apply_map(x, name, p))
                else:
                    t, x = rng.choice(pool[-4:])
                    cands = [(t2, y) for t2, y in pool if y.mesh == x.mesh]
                    t2, y = rng.choice(cands)
                    name, p = rand_bin(rng, x, y)
                    new = (["bin", name, p, t, t2], apply_bin(x, y, name, p))
        except Exception:  # noqa: BLE001 - not applicable to these operands (labels, dimensions): skip
            continue
        if not isinstance(new[1], df.Field) or depth(new[0]) > maxdepth:
            continue
        if cat != "pos" and s_ < steps - 1 and rng.random() < 0.15:
            # write into this result's mask in place before it is used further
            new = (["poke", [rng.randrange(64) for _ in range(rng.randint(1, 3))], new[0]], new[1])
        pool.append(new)
        last = new
    if last is None:
        last = (["un", "neg", {}, ["leaf", 0]], None)
    c["tree"] = last[0] if last[0][0] != "poke" else last[0][2]
    if rng.random() < 0.5:
        # in-place writes into the operands' masks between two runs of the same operations
        c["mid"] = [[rng.randrange(3), [rng.randrange(64) for _ in range(rng.randint(1, 4))]]
                    for _ in range(rng.randint(1, 3))]
    c["kind"] = "expr"
    return c


def gen_single_op_cases(rng, tier):
    """every public operation once per call, directly on operands (the survey list of DESIGN C08 F)"""
    out = []
    un_all = [("neg", {}), ("abs", {}), ("comp", dict(c=0)), ("comp", dict(c=2)), ("norm", {}), ("orient", {}),
              ("real", {}), ("imag", {}), ("conj", {}), ("phase", {}), ("cabs", {}),
              ("diff", dict(ax=0, order=1, restrict=True)), ("diff", dict(ax=1, order=2, restrict=False)),
              ("diff", dict(ax=2, order=2, restrict=True)),
              ("dotc", dict(form=0)), ("dotc", dict(form=1)), ("dotc", dict(form=2)),
              ("crossc", dict(form=0)), ("crossc", dict(form=1)), ("crossc", dict(form=2)),
              ("anglec", {}), ("div", dict(nd=3)), ("curl", {}), ("laplace", dict(nd=3, nv=3))]
    un_all += [("lshiftc", dict(form=k)) for k in range(5)]
    un_all += [("scalar", dict(form=fm, op=o, v=2)) for fm in ("float", "int", "array", "complex")
               for o in ("add", "radd", "sub", "rsub", "mul", "rmul", "div", "rdiv", "pow")]
    un_all += [("scalar", dict(form=fm, op=o, v=2)) for fm in ("tuple", "list")
               for o in ("add", "radd", "sub", "mul", "rmul", "div")]
    un_all += [("ufunc1", dict(f=f)) for f in ("sin", "negative", "absolute", "square", "mul2", "radd", "positive",
                                                "exp", "sign", "arr")]
    un_all += [("ufunc1", dict(f=f)) for f in ("reduce_comp", "accum_comp", "where")]
    maybe = [("ufunc1", dict(f=f)) for f in ("modf0", "modf1", "frexp0", "frexp1", "divmodc0", "divmodc1", "rdivmodc1")]
    bin_all = [(k, {}) for k in ("add", "sub", "mul", "div", "pow", "angle", "lshift")]
    bin_all += [("dot", dict(form=0)), ("dot", dict(form=1)), ("cross", dict(form=0)), ("cross", dict(form=1))]
    bin_all += [("ufunc2", dict(f=f)) for f in ("add", "multiply", "maximum", "hypot", "subtract", "arctan2", "divmod0",
                                                "divmod1", "add_out", "add_where")]

    def fresh(nv=3, nd=3, bc=None):
        c = base_case(rng, tier, nd=nd)
        c["n"] = [rng.randint(2, 4) for _ in range(nd)]
        n = c["n"]
        lo = [rng.randrange(m) for m in n]
        c["sub"] = [lo, [rng.randint(1, m - o) for m, o in zip(n, lo)]]
        if bc:
            c["bc"] = bc
        c["leaves"] = [rand_leaf(rng, n, nv), rand_leaf(rng, n, nv), rand_leaf(rng, n, 1)]
        c["kind"] = "expr"
        return c
    for name, p in un_all:
        c = fresh(bc=rng.choice([None, "x", "xyz"]) if name == "diff" else None)
        c["tree"] = ["un", name, p, ["leaf", 0]]
        out.append(c)
    for name, p in un_all + [("grad", dict(nd=3)), ("laplace", dict(nd=3, nv=1))]:
        # the same operations on explicitly valid zero / sub-threshold vectors
        c = fresh()
        n = c["n"]
        scalar_op = name in ("grad",) or (name == "laplace" and p.get("nv") == 1)
        c["leaves"] = [zero_heavy_leaf(rng, n, 3), zero_heavy_leaf(rng, n, 3), zero_heavy_leaf(rng, n, 1)]
        c["tree"] = ["un", name, p, ["leaf", 2 if scalar_op else 0]]
        out.append(c)
    for name in ("angle", "div", "dot", "cross", "mul", "lshift"):
        c = fresh()
        n = c["n"]
        c["leaves"] = [zero_heavy_leaf(rng, n, 3), zero_heavy_leaf(rng, n, 3), zero_heavy_leaf(rng, n, 1)]
        c["tree"] = ["bin", name, {}, ["leaf", 0], ["leaf", 1]]
        out.append(c)
    for name, p in maybe:
        # refused by the library today (NotImplementedError); if accepted, the operand's validity, own masks
        c = fresh()
        c["tree"] = ["un", name, p, ["leaf", 0]]
        c["may_reject"] = True
        out.append(c)
    for name, p in [("grad", dict(nd=3)), ("laplace", dict(nd=3, nv=1)), ("grad", dict(nd=2)),
                    ("scalar", dict(form="float", op="pow", v=2))]:
        c = fresh(nd=p.get("nd", 3))
        c["tree"] = ["un", name, p, ["leaf", 2]]
        out.append(c)
    for name, p in bin_all:
        c = fresh()
        c["tree"] = ["bin", name, p, ["leaf", 0], ["leaf", 1]]
        out.append(c)
        if name in ("add", "sub", "mul", "div", "pow", "lshift", "ufunc2"):
            c = fresh()
            c["tree"] = ["bin", name, p, ["leaf", 0], ["leaf", 2]]       # vector (op) scalar
            out.append(c)
            c = fresh()
            c["tree"] = ["bin", name, p, ["leaf", 2], ["leaf", 1]]       # scalar (op) vector
            out.append(c)
    for rep in range(2):
        c = fresh()
        c["tree"] = ["pos", ["leaf", rep]]
        out.append(c)
        c = fresh()
        c["tree"] = ["pos", ["pos", ["leaf", 2]]]
        out.append(c)
        c = fresh()
        c["tree"] = ["un", "neg", {}, ["pos", ["leaf", 0]]]
        out.append(c)
    # same operand on both sides
    for name in ("add", "mul", "dot", "cross", "lshift", "angle"):
        c = fresh()
        c["tree"] = ["bin", name, {}, ["leaf", 0], ["leaf", 0]]
        out.append(c)
    # every mapping operation directly on an operand
    for _ in range(3 if tier == "quick" else 10):
        c = fresh()
        mesh = build_mesh(c)
        x = build_leaf(mesh, c["n"], c["leaves"][0])
        for k in range(14):
            name, p = rand_map(rng, x)
            c2 = dict(c)
            c2["tree"] = ["map", name, p, ["leaf", rng.choice([0, 2])]]
            out.append(c2)
    # fields on different meshes: every binary form must be rejected
    for name, p in bin_all:
        c = fresh()
        ax = rng.randrange(3)
        n_ax = c["n"][ax]
        mp = rng.choice([("range", dict(ax=ax, lo=0, hi=n_ax - 2)), ("pad", dict(mode="edge", ax=ax, before=1, after=0)),
                         ("resample", dict(sh=[k + 1 for k in c["n"]]))])
        sides = [["leaf", 0], ["map", mp[0], mp[1], ["leaf", 1]]]
        if rng.random() < 0.5:
            sides.reverse()
        c["tree"] = ["bin", name, p, sides[0], sides[1]]
        c["expect_reject"] = True
        out.append(c)
    return out


def gen_geo_case(rng, tier):
    """binary operation between fields whose meshes have the same n; shifted regions must be rejected"""
    c = base_case(rng, tier, nd=rng.choice([1, 2, 3]))
    n = c["n"] = [rng.randint(2, 4) for _ in c["n"]]
    nv = rng.choice([1, 3])
    c["leaves"] = [rand_leaf(rng, n, nv), rand_leaf(rng, n, nv), rand_leaf(rng, n, 1)]
    ax = rng.randrange(len(n))
    mode = rng.choice(["edge", "wrap", "constant", "symmetric"])

    def moved(leaf, shift):
        # pad one side, cut the same number of cells: same n; shift = displacement in cells (0 = same mesh)
        b = rng.randint(0, 2)
        a = b + shift
        if a < 0:
            b, a = b - a, 0
        # pad b before / a after, keep cells a .. a + n - 1  ->  origin moves by a - b
        return ["map", "range", dict(ax=ax, lo=a, hi=a + n[ax] - 1),
                ["map", "pad", dict(mode=mode, ax=ax, before=b, after=a, cv=None), ["leaf", leaf]]]
    shift = rng.choice([0, 0, 1, -1, 2])
    e1 = ["leaf", 0] if rng.random() < 0.6 else moved(0, 0)
    e2 = moved(rng.choice([1, 2]), shift)
    if rng.random() < 0.5:
        e1, e2 = e2, e1
    names = ["add", "sub", "mul", "div", "pow", "lshift", "ufunc2"]
    name = rng.choice(names)
    p = dict(f=rng.choice(["add", "multiply", "maximum"])) if name == "ufunc2" else {}
    c["tree"] = ["bin", name, p, e1, e2]
    c["geo"] = True
    c["expect_reject"] = shift != 0
    c["kind"] = "expr"
    return c


def gen_mapdata(rng, tier):
    c = base_case(rng, tier, nmax=5 if tier == "thorough" else 4)
    n = c["n"]
    if rng.random() < 0.4:
        lo = [rng.randrange(m) for m in n]
        c["sub"] = [lo, [rng.randint(1, m - o) for m, o in zip(n, lo)]]
    c["mask"] = rand_mask(rng, math.prod(n))
    mesh = build_mesh(c)
    x = id_field(mesh)
    name, p = rand_map(rng, x, allow_io=rng.random() < 0.25, in_tree=False)
    c["map"] = [name, p]
    c["kind"] = "mapdata"
    return c


def gen_setter(rng, tier):
    c = base_case(rng, tier, nmax=3)
    n = c["n"]
    nd = len(n)
    ncell = math.prod(n)
    kind = rng.choice(["none", "const", "const", "boolarr", "intarr", "floatarr", "list", "trail1", "bcast", "bcast",
                       "badshape", "callable", "callable", "str", "zerod", "field", "objbool", "nparr", "nparr", "npconst"])
    c["how"] = rng.choice(["ctor", "assign"])
    c["nvdim"] = rng.choice([1, 3])

    def cells(kind_, k):
        if kind_ == "bool":
            return [rng.random() < 0.6 for _ in range(k)]
        if kind_ == "int":
            return [rng.choice([0, 0, 1, 2, -1, 7, 2 ** 40, 256]) for _ in range(k)]
        if kind_ == "uint8":
            return [rng.choice([0, 0, 1, 2, 255, 128]) for _ in range(k)]
        if kind_ == "int8":
            return [rng.choice([0, 0, 1, -1, -128, 127]) for _ in range(k)]
        if kind_ == "float32":
            return [rng.choice([0.0, -0.0, 0.5, 1e-30, 1e-300, -2.5, 2.0 ** 100]) for _ in range(k)]
        if kind_ == "complex":
            return [rng.choice([[0, 0], [0, 0], [0, 1], [1, 0], [-2, 0.5], [0, -1e-300]]) for _ in range(k)]
        return [rng.choice([0.0, -0.0, 0.5, 1.0, -2.5, float("nan"), 1e-300, float("inf"), 2.0 ** -200, 2.0 ** 300])
                for _ in range(k)]
    if kind == "none":
        c["v"] = ["none"]
    elif kind == "const":
        c["v"] = ["const", rng.choice([True, False, 0, 1, 2, -3, 0.0, 0.5, float("nan")])]
    elif kind in ("boolarr", "intarr", "floatarr", "list", "objbool"):
        dt = {"boolarr": "bool", "intarr": "int", "floatarr": "float", "objbool": "bool"}.get(kind, rng.choice(["bool", "int", "float"]))
        c["v"] = ["array", list(n), dt, cells(dt, ncell), kind == "list"]
    elif kind == "nparr":
        dt = rng.choice(["uint8", "int8", "float32", "complex"])
        sh = rng.choice([list(n), list(n) + [1]])
        c["v"] = ["array", sh, dt, cells(dt, ncell), False]
    elif kind == "npconst":
        c["v"] = ["const", rng.choice([0, 1, 2]), rng.choice(["bool_", "int32", "uint8", "int64", "float32", "float64"])]
    elif kind == "trail1":
        dt = rng.choice(["bool", "int", "float"])
        c["v"] = ["array", list(n) + [1], dt, cells(dt, ncell), rng.random() < 0.3]
    elif kind == "bcast":
        # right-aligned against n + [1]
        tgt = list(n) + [1]
        keep = rng.randint(1, len(tgt))
        sh = tgt[len(tgt) - keep:]
        sh = [1 if (rng.random() < 0.4) else s for s in sh]
        sh[-1] = 1
        dt = rng.choice(["bool", "int", "float"])
        c["v"] = ["array", sh, dt, cells(dt, math.prod(sh)), rng.random() < 0.3]
    elif kind == "badshape":
        sh = list(n)
        a = rng.randrange(nd)
        sh[a] += rng.choice([1, 2])
        if rng.random() < 0.5:
            sh = sh + [1]
        if rng.random() < 0.3:
            sh = list(n) + [2]
        dt = rng.choice(["bool", "int"])
        c["v"] = ["array", sh, dt, cells(dt, math.prod(sh)), False]
    elif kind == "callable":
        dt = rng.choice(["bool", "int", "float"])
        c["v"] = ["callable", dt, cells(dt, ncell)]
    elif kind == "str":
        c["v"] = ["str", rng.choice(["abc", "Norm", "", "true"])]
    elif kind == "zerod":
        c["v"] = ["array", [], "bool", [True], False]
    elif kind == "field":
        c["v"] = ["field", cells("bool", ncell)]
    c["vals"] = [rng.choice([-2, 0, 1, 3]) for _ in range(ncell * c["nvdim"])]
    c["kind"] = "setter"
    return c


def gen_norm(rng, tier, exact):
    c = base_case(rng, tier, nmax=3)
    n = c["n"]
    ncell = math.prod(n)
    nv = rng.choice([1, 2, 3, 4])
    t = 1e-8
    dt = rng.choice([None, None, None, "int32", "int64", "uint8", "float32"])
    vals = []
    for _ in range(ncell):
        v = [0.0] * nv
        if dt in ("int32", "int64", "uint8"):
            # integer-typed fields: squares beyond the integer range must not wrap to zero or negative
            pool = {"int32": [0, 0, 1, -3, 46341, 65536, 2 ** 31 - 1, -2 ** 31 + 1],
                    "int64": [0, 0, 1, -7, 3037000500, 2 ** 32, 2 ** 62],
                    "uint8": [0, 0, 1, 16, 200, 255]}[dt]
            if exact:
                v[rng.randrange(nv)] = float(rng.choice(pool))
            else:
                v = [float(rng.choice(pool)) for _ in range(nv)]
        elif dt == "float32":
            # exactly representable in binary32, far from the threshold (the norm is computed in binary32)
            pool = [0.0, 0.0, 1.0, -0.5, 2.0 ** -20, 2.0 ** -40, -2.0 ** -70, 2.0 ** 100, 2.0 ** -100, 3.0]
            v[rng.randrange(nv)] = rng.choice(pool)
        elif exact:
            x = rng.choice([0.0, t, float(np.nextafter(t, 1)), float(np.nextafter(t, 0)), -t, -float(np.nextafter(t, 1)),
                            t * 2, t / 2, 1.0, -3.0, 1e-7, 9.5e-9, 1e-9, 1e-300, 5e-324, -1e-8, 1.0000001e-8,
                            2.0 ** -200, -2.0 ** -537, 2.0 ** 300, 2.0 ** 600, -2.0 ** 1000, 2.0 ** -27, 2.0 ** -26])
            v[rng.randrange(nv)] = x
        else:
            scale = rng.choice([0.0, t * (1 - 1e-6), t * (1 + 1e-6), t * 0.99, t * 1.01, t * 0.5, t * 3, 1.0, 1e-12, 1e6, 1e-7,
                                2.0 ** -200, 2.0 ** 300])
            d = [rng.choice([-2, -1, 1, 2, 3, 0]) for _ in range(nv)]
            nn = math.sqrt(sum(x * x for x in d))
            v = [scale * x / nn for x in d] if nn else [0.0] * nv
        vals += v
    if dt == "float32":
        exact = False
    c.update(nvdim=nv, vals=[g.qs(F(x)) for x in vals], exact=exact, how=rng.choice(["ctor", "assign", "rewrite", "rewrite"]),
             kind="norm", dtype=dt)
    return c


def gen_ufout(rng, tier):
    """numpy ufunc with out=<field>: the caller's output field"""
    c = base_case(rng, tier, nmax=3)
    n = c["n"]
    nv = rng.choice([1, 2, 3])
    c["leaves"] = [rand_leaf(rng, n, nv), rand_leaf(rng, n, rng.choice([nv, 1])), rand_leaf(rng, n, nv)]
    c["uf"] = rng.choice(["add", "multiply", "subtract", "negative", "divmod", "divmod", "maximum"])
    if rng.random() < 0.25:
        c["other_mesh"] = rng.choice(["shift", "n"])
    c["tuple_out"] = rng.random() < 0.4
    if rng.random() < 0.4:
        for lf in c["leaves"]:
            lf["vdims"] = ["a", "ab", "abc"][:nv] if lf["nvdim"] == nv and nv > 1 else None
    c["kind"] = "ufout"
    return c


def gen_vtkenc(rng, tier):
    c = base_case(rng, tier, nd=3)
    c["mask"] = rand_mask(rng, math.prod(c["n"]))
    c["nvdim"] = rng.choice([1, 3])
    c["kind"] = "vtkenc"
    return c


def core_cases():
    """seed-independent DIRECTED CORE: identical in every run, tier and seed.  One small group per mechanism a
    seeded change (rounds a-e, /verif/seeded/C08-*) or a hardening round pointed at, plus the survey list of every
    public operation.  Built from a fixed Random(424242) and hand-written masks."""
    rng = random.Random(424242)
    out = []
    single = gen_single_op_cases(rng, "quick")
    for c in single:
        if not c.get("expect_reject"):
            c["mid"] = [[k, [rng.randrange(64) for _ in range(rng.randint(1, 3))]] for k in range(3)]
    out += single

    def mesh3(n=(3, 2, 2), cell=(1, 1, 1), p1=(0, 0, 0)):
        return dict(n=list(n), cell=[g.qs(F(x)) for x in cell], p1=[g.qs(F(x)) for x in p1], kind="expr")

    def leaf(n, nv, mask, vals=None, **kw):
        ncell = math.prod(n)
        if vals is None:
            vals = [((3 * i + 1) % 7) - 3 or 2 for i in range(ncell * nv)]          # never zero
        d = dict(nvdim=nv, vals=[g.qs(F(v)) for v in vals], mask=list(mask), cplx=False)
        d.update(kw)
        return d

    def asym(ncell, k=0):
        return [((i * 5 + k) % 7) not in (0, 3, 4) for i in range(ncell)]              # no symmetry under turns

    def expr(n, leaves, tree, **kw):
        c = mesh3(n) if len(n) == 3 else dict(n=list(n), cell=[g.qs(F(1))] * len(n), p1=[g.qs(F(0))] * len(n), kind="expr")
        c["leaves"] = leaves
        c["tree"] = tree
        c.update(kw)
        return c
    n = [3, 2, 2]
    nc = 12
    some = asym(nc)
    other = asym(nc, 2)
    allv = [True] * nc

    # b1: diff with restrict2valid=False on a field with invalid cells (all axes, both orders, periodic too)
    for ax in range(3):
        for order in (1, 2):
            out.append(expr(n, [leaf(n, 3, some), leaf(n, 3, other), leaf(n, 1, other)],
                            ["un", "diff", dict(ax=ax, order=order, restrict=False), ["leaf", 0 if order == 1 else 2]],
                            bc="x" if ax == 0 and order == 2 else None))
    # b2: scalar field with invalid cells (op) all-valid vector field, and the commuted spelling
    for name in ("add", "sub", "mul", "div", "pow"):
        out.append(expr(n, [leaf(n, 3, allv), leaf(n, 3, allv), leaf(n, 1, some)], ["bin", name, {}, ["leaf", 2], ["leaf", 0]]))
        out.append(expr(n, [leaf(n, 3, allv), leaf(n, 3, allv), leaf(n, 1, some)], ["bin", name, {}, ["leaf", 0], ["leaf", 2]]))
    # c1: quarter turns with the axes in descending order, odd and even k, copy and in place
    for (a, b) in ((1, 0), (2, 0), (2, 1), (0, 1), (0, 2)):
        for k in (1, 3, -1, 2):
            out.append(expr(n, [leaf(n, 3, some), leaf(n, 3, other), leaf(n, 1, other)],
                            ["map", "rot90", dict(a=a, b=b, k=k), ["leaf", 2 if k == 3 else 0]]))
        md = mesh3(n)
        md.update(kind="mapdata", mask=some, map=["rot90", dict(a=a, b=b, k=1, inplace=(a + b) % 2 == 1)])
        out.append(md)
    # c2: multi-output ufunc on two fields with different masks, both outputs; scalar second operand
    for f_ in ("divmod0", "divmod1"):
        out.append(expr(n, [leaf(n, 3, some), leaf(n, 3, other), leaf(n, 1, allv)], ["bin", "ufunc2", dict(f=f_), ["leaf", 0], ["leaf", 1]]))
        out.append(expr(n, [leaf(n, 3, allv), leaf(n, 3, other), leaf(n, 1, some)], ["bin", "ufunc2", dict(f=f_), ["leaf", 0], ["leaf", 2]]))
    # c3 / d2: explicit validity, valid cells holding zero and sub-threshold vectors: unary results keep the
    # operand's validity; an all-valid field with zero cells survives the HDF5 (and VTK) round trip
    zvals = []
    for i in range(nc):
        zvals += {0: [0, 0, 0], 1: [F(1, 2 ** 40), F(-3, 2 ** 40), 0], 2: [F(9e-9), 0, 0]}.get(i % 4, [i, -1, 2])
    for name, p in (("orient", {}), ("norm", {}), ("abs", {}), ("neg", {}), ("comp", dict(c=1)), ("anglec", {}),
                    ("ufunc1", dict(f="sign"))):
        out.append(expr(n, [leaf(n, 3, allv, zvals), leaf(n, 3, other), leaf(n, 1, other)], ["un", name, p, ["leaf", 0]]))
        out.append(expr(n, [leaf(n, 3, some, zvals), leaf(n, 3, other), leaf(n, 1, other)], ["un", name, p, ["leaf", 0]]))
    for mp in (("hdf5", {}), ("vtk", dict(rep="bin")), ("vtk", dict(rep="xml"))):
        out.append(expr(n, [leaf(n, 3, allv, zvals), leaf(n, 3, other), leaf(n, 1, allv, [0] * nc)], ["map", mp[0], mp[1], ["leaf", 0]]))
        out.append(expr(n, [leaf(n, 3, allv, zvals), leaf(n, 3, other), leaf(n, 1, allv, [0] * nc)], ["map", mp[0], mp[1], ["leaf", 2]]))
        out.append(expr(n, [leaf(n, 3, some, zvals), leaf(n, 3, other), leaf(n, 1, some)], ["map", mp[0], mp[1], ["leaf", 0]]))
    # d1: resampling ratios that put new centres exactly on old faces, validity differing between the tied cells
    for (a, b) in ((10, 5), (12, 2), (4, 6), (6, 3), (2, 1), (8, 4), (4, 2), (6, 9)):
        for pat in (0, 1):
            md = dict(n=[a], cell=[g.qs(F(1))], p1=[g.qs(F(0))], kind="mapdata",
                      mask=[(i + pat) % 2 == 0 for i in range(a)], map=["resample", dict(sh=[b])])
            out.append(md)
            md = dict(n=[2, a], cell=[g.qs(F(1)), g.qs(F(1, 2))], p1=[g.qs(F(0)), g.qs(F(-1))], kind="mapdata",
                      mask=[(i // a + i + pat) % 2 == 0 for i in range(2 * a)], map=["resample", dict(sh=[2, b])])
            out.append(md)
    # d3 / e1: results that must not be (or share memory with) the operand: real / imag / conjugate and every
    # pass-through on real, integer and complex data; in-place write into the result afterwards (probe in observe)
    for dt in (None, "int32", "float32", "complex"):
        for name, p in (("real", {}), ("conj", {}), ("imag", {}), ("neg", {}), ("abs", {}), ("comp", dict(c=0)), ("norm", {}),
                        ("scalar", dict(form="float", op="mul", v=2)), ("diff", dict(ax=0, order=1, restrict=True)),
                        ("ufunc1", dict(f="positive")), ("cabs", {}), ("phase", {})):
            lv = [leaf(n, 3, some), leaf(n, 3, other), leaf(n, 1, other)]
            if dt:
                for l_ in lv:
                    l_["dtype"] = dt
            out.append(expr(n, lv, ["un", name, p, ["leaf", 0]]))
        for mp in (("range", dict(ax=0, lo=0, hi=2)), ("range", dict(ax=1, lo=1, hi=1)), ("plane", dict(ax=2, k=1)),
                   ("block", dict(offs=[0, 0, 0], sh=[3, 2, 2])), ("block", dict(offs=[1, 0, 1], sh=[2, 2, 1]))):
            lv = [leaf(n, 3, some), leaf(n, 3, other), leaf(n, 1, other)]
            if dt:
                for l_ in lv:
                    l_["dtype"] = dt
            out.append(expr(n, lv, ["map", mp[0], dict(mp[1]), ["leaf", 0]]))
    # e1: the caller's Boolean array of the mesh shape is copied by the setter
    for how in ("ctor", "assign"):
        for nv in (1, 3):
            out.append(dict(n=[2, 3], cell=[g.qs(F(1))] * 2, p1=[g.qs(F(0))] * 2, kind="setter", how=how, nvdim=nv,
                            v=["array", [2, 3], "bool", [True, False, True, True, False, True], False],
                            vals=[1, 0, -2, 3, 1, 1] * nv))
    # e2: VTK round trip with 1, 2, 3 and 4 components in every representation, some invalid cells
    for nv in (1, 2, 3, 4):
        for rep in ("bin", "txt", "xml"):
            out.append(expr(n, [leaf(n, nv, some), leaf(n, nv, other), leaf(n, 1, other)], ["map", "vtk", dict(rep=rep), ["leaf", 0]]))
    # e3: dot / @ / angle between fields with different masks, then the left operand again
    for name, p in (("dot", dict(form=0)), ("dot", dict(form=1)), ("angle", {}), ("cross", dict(form=0))):
        out.append(expr(n, [leaf(n, 3, allv), leaf(n, 3, other), leaf(n, 1, other)], ["bin", name, p, ["leaf", 0], ["leaf", 1]]))
        out.append(expr(n, [leaf(n, 3, some), leaf(n, 3, other), leaf(n, 1, other)],
                        ["bin", "add", {}, ["un", "norm", {}, ["leaf", 0]], ["bin", name, p, ["leaf", 0], ["leaf", 1]]]
                        if name != "cross" else ["bin", name, p, ["leaf", 0], ["leaf", 1]],
                        mid=[[1, [0, 5]], [0, [2]]]))
    # a3: numpy.pad options reach the mask as they reach the data
    for cv in (1, 5, 0, None):
        for ax in (0, 2):
            out.append(expr(n, [leaf(n, 3, some), leaf(n, 3, other), leaf(n, 1, other)],
                            ["map", "pad", dict(mode="constant", ax=ax, before=1, after=2, cv=cv), ["leaf", 0]]))
    out.append(expr(n, [leaf(n, 3, some), leaf(n, 3, other), leaf(n, 1, other)],
                    ["map", "pad2", dict(mode="constant", ax=0, before=1, after=1, ax2=1, before2=2, after2=0, cv=1), ["leaf", 2]]))
    # a1: 'norm' looks at the vector length, not at the components
    for nv, vec in ((3, [8e-9, 8e-9, 8e-9]), (2, [7e-9, 8e-9]), (3, [5e-9, 5e-9, 5e-9]), (4, [6e-9, 6e-9, 6e-9, 6e-9]),
                    (2, [9e-9, 9e-9]), (3, [1e-9, 1e-9, 1e-9])):
        for how in ("ctor", "assign", "rewrite"):
            vals = []
            for i in range(4):
                vals += [(-x if (i + j) % 2 else x) for j, x in enumerate(vec)] if i != 2 else [0.0] * nv
            out.append(dict(n=[4], cell=[g.qs(F(1))], p1=[g.qs(F(0))], kind="norm", nvdim=nv, vals=[g.qs(F(x)) for x in vals],
                            exact=False, how=how, dtype=None))
    # out= spellings (repaired finding C08-ufunc-out-validity)
    for uf in ("add", "negative", "divmod"):
        for om in (None, "shift"):
            c = dict(n=[2, 2], cell=[g.qs(F(1))] * 2, p1=[g.qs(F(0))] * 2, kind="ufout", uf=uf, tuple_out=uf == "add" and om is None,
                     leaves=[leaf([2, 2], 2, [True, False, True, True]), leaf([2, 2], 2, [True, True, False, True]),
                             leaf([2, 2], 2, [False, True, True, True])])
            if om:
                c["other_mesh"] = om
            out.append(c)
    for c in out:
        for k in [k for k, v in c.items() if v is None and k in ("bc",)]:
            c.pop(k)
        c["core"] = True
    return out


def generate(rng, tier):
    quick = tier == "quick"
    cases = core_cases()
    if os.environ.get("VERIF_C08_CORE_ONLY"):
        return cases
    for _ in range(380 if quick else 3600):
        cases.append(gen_expr_case(rng, tier))
    for cat in ("map", "bin", "un"):
        for _ in range(30 if quick else 300):
            cases.append(gen_expr_case(rng, tier, force=cat))
    for _ in range(40 if quick else 400):
        cases.append(gen_geo_case(rng, tier))
    for _ in range(220 if quick else 2500):
        cases.append(gen_mapdata(rng, tier))
    for _ in range(200 if quick else 1500):
        cases.append(gen_setter(rng, tier))
    for _ in range(40 if quick else 300):
        cases.append(gen_norm(rng, tier, True))
        cases.append(gen_norm(rng, tier, False))
    for _ in range(15 if quick else 100):
        cases.append(gen_vtkenc(rng, tier))
    for _ in range(25 if quick else 200):
        cases.append(gen_ufout(rng, tier))
    return cases


# ------------------------------------------------------------------ runners
def env_coq(ctx, masks, extra_masks):
    items = [f"({g.nl(m.shape)}, {g.bl(m.reshape(-1).tolist())})" for m in list(masks) + list(extra_masks)]
    return "[" + "; ".join(items) + "]"


def observe(c, tree, leaves, rec):
    """one run of the operation tree on the operands as they are now.
    returns dict(coq=..., res2=...) or dict(coq=..., rejected=True)"""
    del ARG_CHANGED[:]
    del FLAGS[:]
    snaps = [snap_field(f) for f in leaves]
    masks0 = [np.array(f.valid, dtype=bool).copy() for f in leaves]
    ctx = Ctx(leaves)
    with np.errstate(all="ignore"):
        st, r = attempt(lambda: ev(tree, ctx))
    if st != "ok" or not isinstance(r[0], df.Field):
        err = r if st != "ok" else "not-a-field"
        if not c.get("expect_reject") and not c.get("may_reject"):
            rec["oracle"].append("operation-raised")
        if [snap_field(f) for f in leaves] != snaps:
            rec["oracle"].append("operand-changed")
        coq = None
        if not has_poke(tree) and not c.get("may_reject"):
            coq = f"CExpr {env_coq(ctx, masks0, [])} {expr_coq(tree)} None [] []"
        return dict(coq=coq, rejected=True, obs=dict(err=err))
    res, exp = r
    if c.get("expect_reject"):
        rec["oracle"].append("different-meshes-accepted")
    # the same call again: equal result, operands and caller-supplied containers untouched
    ctx2 = Ctx(leaves)
    with np.errstate(all="ignore"):
        st2, r2 = attempt(lambda: ev(tree, ctx2))
    res2 = r2[0] if st2 == "ok" else None
    is_operand = strip_pos(tree)[0] in ("leaf", "poke")
    if res2 is None or res2.array.tobytes() != res.array.tobytes() or res2.valid.tobytes() != res.valid.tobytes() \
            or res2.valid.shape != res.valid.shape or res2.vdims != res.vdims or res2.unit != res.unit \
            or list(res2.vdim_mapping.items()) != list(res.vdim_mapping.items()) or res2.mesh != res.mesh:
        rec["oracle"].append("repeated-call-differs")
    if [snap_field(f) for f in leaves] != snaps:
        rec["oracle"].append("operand-changed")
    if ARG_CHANGED:
        rec["oracle"].append("caller-argument-changed")
    rec["oracle"] += sorted(set(FLAGS))
    valid = res.valid
    extras = [x for x, _ in ctx.extra]
    extra_masks = [m for _, m in ctx.extra]
    operands = list(leaves) + extras
    before = masks0 + extra_masks
    shares = [bool(np.shares_memory(valid, f.valid)) for f in operands]
    isbool = valid.dtype == np.bool_
    shape_ok = tuple(valid.shape) == tuple(int(k) for k in res.mesh.n)
    mask = np.array(valid, dtype=bool).copy()
    keep2 = None if res2 is None else np.array(res2.valid, dtype=bool).copy()
    # probe: invert the result's mask in place, re-read the operands' (and the repeated call's result)
    try:
        res.valid[...] = np.logical_not(res.valid)
    except Exception:  # noqa: BLE001
        rec["oracle"].append("result-mask-not-writable")
    touched = [not np.array_equal(f.valid, m) for f, m in zip(operands, before)]
    if res2 is not None and not is_operand and not np.array_equal(res2.valid, keep2):
        rec["oracle"].append("results-share-mask")
    if any(f.array.tobytes() != sn["values"] for f, sn in zip(leaves, snaps)):
        rec["oracle"].append("operand-values-changed")
    if not isbool:
        rec["oracle"].append("not-boolean")
    if not shape_ok:
        rec["oracle"].append("not-mesh-shape")
    if isbool and shape_ok and (mask.shape != exp.shape or not np.array_equal(mask, exp)):
        rec["oracle"].append("validity-does-not-follow-data")
    if any(shares) or any(touched):
        rec["oracle"].append("own")
        if is_operand:
            rec["tags"].append(POS_TAG)
    obs = dict(shape=list(mask.shape), mask=mask.reshape(-1).tolist(), dtype=str(valid.dtype), shares=shares,
               touched=touched)
    coq = (f"CExpr {env_coq(ctx, masks0, extra_masks)} {expr_coq(tree, ctx.idx)} "
           f"(Some ({g.nl(mask.shape)}, {g.bl(obs['mask'])})) {g.bl(shares)} {g.bl(touched)}")
    return dict(coq=coq, rejected=False, obs=obs, res2=res2, is_operand=is_operand)


def run_expr(c):
    rec = dict(kind="expr", case=c, oracle=[], tags=[])
    n = c["n"]
    leaves = build_leaves(c)
    tree = c["tree"]
    if c.get("pre"):
        with np.errstate(all="ignore"):
            rec["oracle"] += apply_pre(leaves, c["pre"], tree)
    opname = tree[1] if tree[0] in ("un", "bin", "map") else tree[0]
    o1 = observe(c, tree, leaves, rec)
    geo = None
    if c.get("geo"):
        env = "[" + "; ".join(f"({g.nl(n)}, {g.bl(lf['mask'])})" for lf in c["leaves"]) + "]"
        geo = f"CBinGeo {env} {g.nat(len(n))} {BIN_CTOR[tree[1]]} {expr_coq(tree[3])} {expr_coq(tree[4])}"
    if o1["rejected"]:
        rec["oracle"] = sorted(set(rec["oracle"]))
        rec.update(obs=o1["obs"], key=f"expr/rej/{opname}/{bool(c.get('pre'))}", size=len(str(tree)),
                   coq=(geo + " None") if geo else o1["coq"])
        return rec
    coq = o1["coq"]
    obs = o1["obs"]
    if geo:
        coq = f"{geo} (Some ({g.nl(obs['shape'])}, {g.bl(obs['mask'])}))"
    elif c.get("mid"):
        # in-place writes into the operands' masks, then the same operations again
        res2 = o1["res2"]
        keep = None if res2 is None else np.array(res2.valid, dtype=bool).copy()
        for leaf, idxs in c["mid"]:
            flip_cells(leaves[leaf].valid, idxs)
        if res2 is not None and not o1["is_operand"] and not np.array_equal(res2.valid, keep):
            rec["oracle"].append("own")          # an earlier result changed when an operand's mask was written
        o2 = observe(c, tree, leaves, rec)
        if o2["rejected"]:
            rec["oracle"].append("operation-raised")
        elif o2["coq"] and coq:
            coq = f"CBoth ({coq}) ({o2['coq']})"
            obs = dict(first=obs, second=o2["obs"])
    rec["oracle"] = sorted(set(rec["oracle"]))
    if POS_TAG in rec["tags"]:
        rec["tags"] = [POS_TAG]
    sig = str(tree) + str(c.get("pre")) + str(c.get("mid"))
    rec.update(obs=obs, coq=coq, key=f"expr/{tuple(n)}/{hash(sig)}/{hash(tuple(c['leaves'][0]['mask']))}",
               size=len(sig) + math.prod(n), nontrivial=not all(all(lf["mask"]) for lf in c["leaves"]))
    return rec


def run_mapdata(c):
    rec = dict(kind="mapdata", case=c, oracle=[], tags=[])
    n = c["n"]
    mesh = build_mesh(c)
    name, p = c["map"]
    x = id_field(mesh)
    x.valid = np.array(c["mask"], dtype=bool).reshape(*n)
    src_mask = x.valid.copy()
    st, r = attempt(lambda: apply_map(x, name, p))
    if st != "ok" or not isinstance(r, df.Field):
        rec["oracle"].append("operation-raised")
        rec.update(obs=dict(err=str(r)), coq=None, key=f"mapdata/rej/{name}", size=1)
        return rec
    ids = np.rint(r.array[..., 0]).astype(int)
    mask = np.array(r.valid, dtype=bool)
    inside = ids >= ID0
    exp = np.empty(ids.shape, dtype=bool)
    exp[inside] = src_mask.reshape(-1)[ids[inside] - ID0]
    exp[~inside] = bool(p.get("cv") or 0)
    if r.valid.dtype != np.bool_:
        rec["oracle"].append("not-boolean")
    if tuple(r.valid.shape) != tuple(int(k) for k in r.mesh.n):
        rec["oracle"].append("not-mesh-shape")
    elif not np.array_equal(mask, exp):
        rec["oracle"].append("validity-does-not-follow-data")
    if p.get("inplace"):
        if r is not x:
            rec["oracle"].append("inplace-returned-new-object")
    elif np.shares_memory(r.valid, x.valid):
        rec["oracle"].append("own")
    obs = dict(shape=list(mask.shape), ids=[int(v) for v in ids.reshape(-1)], mask=mask.reshape(-1).tolist())
    ties = name == "resample" and not all(no_ties(a, b) for a, b in zip(n, p["sh"]))
    coq = None
    if not ties:
        oids = [int(v) - ID0 if v >= ID0 else None for v in ids.reshape(-1)]
        coq = (f"CMapData {g.nl(n)} {map_coq(name, p)} {g.bl(c['mask'])} {g.nl(mask.shape)} "
               f"{g.lst(oids, onat)} {g.bl(obs['mask'])}")
    rec.update(obs=obs, coq=coq, key=f"mapdata/{tuple(n)}/{name}/{sorted(p.items())}/{hash(tuple(c['mask']))}",
               size=math.prod(n), nontrivial=not all(c["mask"]))
    return rec


def decode_vinput(c, mesh, rng_vals=None):
    """returns (python value to pass, coq vinput, user array or None)"""
    v = c["v"]
    n = c["n"]
    if v[0] == "none":
        return None, "VNone", None
    if v[0] == "const":
        if len(v) > 2:
            val = getattr(np, v[2])(v[1])
            return val, f"(VScalar {scal_coq(val.item())})", None
        return v[1], f"(VScalar {scal_coq(v[1])})", None
    if v[0] == "str":
        return v[1], "VStr", None
    if v[0] == "array":
        _, sh, dt, cells, aslist = v
        if dt == "complex":
            cells = [complex(a, b) for a, b in cells]
        arr = np.array(cells, dtype=SETDT[dt]).reshape(sh)
        coq = f"(VArray {g.nl(sh)} {g.lst([scal_coq(x) for x in arr.reshape(-1).tolist()])})"
        if aslist:
            return arr.tolist(), coq, None
        return arr, coq, arr
    if v[0] == "callable":
        _, dt, cells = v
        table = {}
        for idx, pt in zip(mesh.indices, mesh):
            table[tuple(np.atleast_1d(pt).tolist())] = cells[int(np.ravel_multi_index(tuple(idx), n))]
        conv = {"bool": bool, "int": int, "float": float}[dt]

        def fun(point):
            return conv(table[tuple(np.atleast_1d(point).tolist())])
        return fun, f"(VCallable {g.lst([scal_coq(conv(x)) for x in cells])})", None
    if v[0] == "field":
        arr = np.array(v[1], dtype=bool).reshape(*n, 1)
        fld = df.Field(mesh, nvdim=1, value=arr, dtype=bool)
        return fld, f"(VArray {g.nl(list(n) + [1])} {g.lst([scal_coq(bool(x)) for x in v[1]])})", None
    raise KeyError(v[0])


def run_setter(c):
    rec = dict(kind="setter", case=c, oracle=[], tags=[])
    n = c["n"]
    mesh = build_mesh(c)
    nv = c["nvdim"]
    vals = np.array(c["vals"], dtype=float).reshape(*n, nv)
    pyv, coqv, user = decode_vinput(c, mesh)
    user_before = None if user is None else user.copy()
    if c["how"] == "ctor":
        before = vals.copy()
        st, f = attempt(lambda: df.Field(mesh, nvdim=nv, value=vals, valid=pyv))
        after = f.array if st == "ok" else before
    else:
        f0 = df.Field(mesh, nvdim=nv, value=vals)
        before = f0.array.copy()

        def assign():
            f0.valid = pyv
            return f0
        st, f = attempt(assign)
        after = f0.array
    vals_same = before.tobytes() == after.tobytes()
    if not vals_same:
        rec["oracle"].append("setter-changed-values")
    if st != "ok":
        rec.update(obs=dict(err=f), key=f"setter/rej/{c['v'][0]}", size=1,
                   coq=f"CSetter {g.nl(n)} {coqv} None false {g.b(vals_same)} false")
        if isinstance(pyv, np.bool_):
            # a Boolean constant is a constant whatever its representation (repaired in /repo; clause armed)
            rec["oracle"].append("numpy-bool-constant-rejected")
        return rec
    valid = f.valid
    isbool = valid.dtype == np.bool_
    shape_ok = tuple(valid.shape) == tuple(n)
    if not isbool:
        rec["oracle"].append("not-boolean")
    if not shape_ok:
        rec["oracle"].append("not-mesh-shape")
    own = True
    if user is not None:
        if np.shares_memory(valid, user):
            own = False
        saved = np.array(valid, dtype=bool).copy()
        user[...] = np.logical_not(user.astype(bool)).astype(user.dtype)     # caller changes its array afterwards
        if not np.array_equal(np.array(f.valid, dtype=bool), saved):
            own = False
        user[...] = user_before
    if isinstance(pyv, df.Field) and np.shares_memory(valid, pyv.array):
        own = False
    if not own:
        rec["oracle"].append("own")
    mask = np.array(valid, dtype=bool)
    # property-level expectation where the text fixes it: constants and arrays of the mesh shape
    v = c["v"]
    if shape_ok:
        if v[0] == "none" and not mask.all():
            rec["oracle"].append("none-not-all-true")
        if v[0] == "const" and not np.array_equal(mask, np.full(n, bool(v[1]) if v[1] == v[1] else True)):
            rec["oracle"].append("constant-not-applied")
        if v[0] == "array" and list(v[1]) == list(n):
            raw = [complex(a, b) for a, b in v[3]] if v[2] == "complex" else v[3]
            want = np.array(raw, dtype=SETDT[v[2]]).reshape(n).astype(bool)
            if not np.array_equal(mask, want):
                rec["oracle"].append("array-not-applied")
        if v[0] == "callable":
            want = np.array([bool({"bool": bool, "int": int, "float": float}[v[1]](x)) for x in v[2]]).reshape(n)
            if not np.array_equal(mask, want):
                rec["oracle"].append("callable-not-applied")
    obs = dict(shape=list(mask.shape), mask=mask.reshape(-1).tolist(), dtype=str(valid.dtype), own=own)
    coq = (f"CSetter {g.nl(n)} {coqv} (Some ({g.nl(mask.shape)}, {g.bl(obs['mask'])})) {g.b(isbool)} "
           f"{g.b(vals_same)} {g.b(own)}")
    rec.update(obs=obs, coq=coq, key=f"setter/{tuple(n)}/{c['how']}/{str(v)[:200]}", size=math.prod(n))
    return rec


def run_norm(c):
    rec = dict(kind="norm", case=c, oracle=[], tags=[])
    n = c["n"]
    nv = c["nvdim"]
    mesh = build_mesh(c)
    dt = DTYPES[c.get("dtype") or "float64"]
    if c.get("dtype") in ("int32", "int64", "uint8"):
        vals = np.array([int(F(x)) for x in c["vals"]], dtype=dt).reshape(*n, nv)
    else:
        vals = np.array([float(F(x)) for x in c["vals"]], dtype=float).astype(dt).reshape(*n, nv)
    before = vals.copy()
    if c["how"] == "ctor":
        f = df.Field(mesh, nvdim=nv, value=vals, valid="norm", dtype=dt)
    elif c["how"] == "assign":
        f = df.Field(mesh, nvdim=nv, value=vals, valid=False, dtype=dt)
        f.valid = "norm"
    else:
        # used, then changed in place: other values first (norm and validity read), then the values under
        # test written into the array in place, then valid = "norm" again
        f = df.Field(mesh, nvdim=nv, value=np.ones_like(vals), valid="norm", dtype=dt)
        _ = (f.norm.array.sum(), f.valid.sum(), f.orientation.array.sum() if nv > 1 else 0)
        f.array[...] = vals
        f.valid = "norm"
    if f.array.dtype != vals.dtype:
        rec["oracle"].append("dtype-changed")
    if f.array.tobytes() != before.tobytes():
        rec["oracle"].append("setter-changed-values")
    valid = f.valid
    if valid.dtype != np.bool_:
        rec["oracle"].append("not-boolean")
    if tuple(valid.shape) != tuple(n):
        rec["oracle"].append("not-mesh-shape")
    mask = np.array(valid, dtype=bool).reshape(-1)
    # 'norm' marks exactly the non-zero cells, lengths up to 1e-8 count as zero (band of 1e-6 relative)
    for k, row in enumerate(vals.reshape(-1, nv)):
        n2 = sum(F(x) ** 2 for x in row.tolist())
        t = F(1, 10 ** 8)
        if n2 > (t * (1 + F(1, 10 ** 7))) ** 2 and not mask[k]:
            rec["oracle"].append("nonzero-cell-marked-invalid")
        if n2 < (t * (1 - F(1, 10 ** 7))) ** 2 and mask[k]:
            rec["oracle"].append("zero-cell-marked-valid")
    rec["oracle"] = sorted(set(rec["oracle"]))
    obs = dict(mask=mask.tolist())
    coq = f"CNorm {g.b(c['exact'])} {g.nl(n)} {g.nat(nv)} {g.ql(c['vals'])} {g.bl(obs['mask'])}"
    rec.update(obs=obs, coq=coq, key=f"norm/{c['exact']}/{tuple(n)}/{nv}/{hash(tuple(c['vals']))}", size=math.prod(n))
    return rec


def run_vtkenc(c):
    from vtkmodules.util import numpy_support as vns
    rec = dict(kind="vtkenc", case=c, oracle=[], tags=[])
    n = c["n"]
    mesh = build_mesh(c)
    mask = np.array(c["mask"], dtype=bool).reshape(*n)
    f = df.Field(mesh, nvdim=c["nvdim"], value=[1.0] * c["nvdim"] if c["nvdim"] > 1 else 1.0, valid=mask)
    grid = f.to_vtk()
    arr = vns.vtk_to_numpy(grid.GetCellData().GetArray("valid"))
    ints = [int(v) for v in arr.reshape(-1)]
    # x runs fastest in the VTK cell order
    want = [int(mask[i, j, k]) for k in range(n[2]) for j in range(n[1]) for i in range(n[0])]
    if ints != want:
        rec["oracle"].append("vtk-valid-array-not-the-mask")
    rec.update(obs=dict(ints=ints), coq=f"CVtkEnc {g.nl(n)} {g.bl(c['mask'])} {g.zl(ints)}",
               key=f"vtkenc/{tuple(n)}/{hash(tuple(c['mask']))}", size=math.prod(n))
    return rec


def run_ufout(c):
    """np.<ufunc>(f1, f2, out=o): the output field the caller hands over receives the data AND the cell-wise AND
    of the operands' validity (own copy), keeps its labels and unit, and is the return value (numpy's
    convention); an out field on another mesh is refused.  Modelled like the plain ufunc."""
    rec = dict(kind="ufout", case=c, oracle=[], tags=[], coq=None)
    n = c["n"]
    f1, f2, o = build_leaves(c)
    o.unit = "T"
    uf = c["uf"]
    other_mesh = bool(c.get("other_mesh"))
    if other_mesh:
        c2 = dict(c)
        if c["other_mesh"] == "shift":
            c2["p1"] = [g.qs(F(x) + 1) for x in c["p1"]]
        else:
            c2["n"] = [k + 1 for k in n]
            c2["leaves"] = [rand_fill(lf, math.prod(c2["n"])) for lf in c["leaves"]]
        o = build_leaves(c2)[2]
    o2 = df.Field(o.mesh, nvdim=o.nvdim, value=o.array.copy(), valid=o.valid.copy(), unit="A/m")
    snaps = [snap_field(f1), snap_field(f2)]
    lab = [(x.vdims, list(x.vdim_mapping.items()), x.unit, x.mesh) for x in (o, o2)]
    o_before = (o.array.copy(), o.valid.copy())
    m1, m2 = f1.valid.copy(), f2.valid.copy()
    want = m1 if uf == "negative" else np.logical_and(m1, m2)
    outs = [o, o2] if uf == "divmod" else [o]
    with np.errstate(all="ignore"):
        if uf == "negative":
            st, r = attempt(lambda: np.negative(f1, out=o))
        elif uf == "divmod":
            st, r = attempt(lambda: np.divmod(f1, f2, out=(o, o2)))
        elif c.get("tuple_out"):
            st, r = attempt(lambda: getattr(np, uf)(f1, f2, out=(o,)))
        else:
            st, r = attempt(lambda: getattr(np, uf)(f1, f2, out=o))
    if [snap_field(f1), snap_field(f2)] != snaps:
        rec["oracle"].append("operand-changed")
    if [(x.vdims, list(x.vdim_mapping.items()), x.unit, x.mesh) for x in (o, o2)] != lab \
            or any(x.mesh is not l_[3] for x, l_ in zip((o, o2), lab)):
        rec["oracle"].append("out-field-labels-changed")
    written = o.array.tobytes() != o_before[0].tobytes() or o.valid.tobytes() != o_before[1].tobytes()
    env = f"[({g.nl(m1.shape)}, {g.bl(m1.reshape(-1).tolist())}); ({g.nl(m2.shape)}, {g.bl(m2.reshape(-1).tolist())})]"
    expr = "(Un UUfunc1 (Leaf 0%nat))" if uf == "negative" else "(Bin BUfunc2 (Leaf 0%nat) (Leaf 1%nat))"
    if other_mesh:
        if st == "ok":
            rec["oracle"].append("out-of-other-mesh-accepted")
        elif written:
            rec["oracle"].append("refused-but-out-field-written")
        rec.update(obs=dict(status="ok" if st == "ok" else r, written=written), size=math.prod(n),
                   key=f"ufout/other/{uf}/{tuple(n)}")
        return rec
    if st != "ok":
        rec["oracle"].append("out-form-refused")           # supported since /repo 92e4ddb1
        rec.update(obs=dict(status=r, written=written), size=math.prod(n), key=f"ufout/rej/{uf}/{tuple(n)}",
                   coq=f"CExpr {env} {expr} None [] []")
        return rec
    rs = list(r) if isinstance(r, tuple) else [r]
    if len(rs) != len(outs) or any(a is not b for a, b in zip(rs, outs)):
        rec["oracle"].append("out-result-is-not-out")
    if any(x.valid.dtype != np.bool_ or x.valid.shape != want.shape or not np.array_equal(x.valid, want) for x in outs):
        rec["oracle"].append("out-field-validity-not-updated")
    if len(outs) == 2 and np.shares_memory(o.valid, o2.valid):
        rec["oracle"].append("outputs-share-mask")
    shares = [bool(np.shares_memory(o.valid, f.valid)) for f in (f1, f2)]
    mask = np.array(o.valid, dtype=bool).copy()
    keep2 = np.array(o2.valid, dtype=bool).copy()
    o.valid[...] = np.logical_not(o.valid)
    touched = [not np.array_equal(f1.valid, m1), not np.array_equal(f2.valid, m2)]
    if any(shares) or any(touched) or (len(outs) == 2 and not np.array_equal(o2.valid, keep2)):
        rec["oracle"].append("own")
    rec["oracle"] = sorted(set(rec["oracle"]))
    coq = None
    if mask.shape == want.shape:
        coq = (f"CExpr {env} {expr} (Some ({g.nl(mask.shape)}, {g.bl(mask.reshape(-1).tolist())})) "
               f"{g.bl(shares)} {g.bl(touched)}")
    rec.update(obs=dict(status="ok", out_valid=mask.reshape(-1).tolist(), want=want.reshape(-1).tolist(), shares=shares,
                        touched=touched), coq=coq,
               key=f"ufout/{uf}/{tuple(n)}/{hash(tuple(c['leaves'][0]['mask']))}", size=math.prod(n))
    return rec


def rand_fill(lf, ncell):
    """the same operand description on another number of cells"""
    nv = lf["nvdim"]
    out = dict(lf)
    out["vals"] = [lf["vals"][i % len(lf["vals"])] for i in range(ncell * nv)]
    out["mask"] = [lf["mask"][i % len(lf["mask"])] for i in range(ncell)]
    return out


def run_case(c):
    k = c["kind"]
    if k == "ufout":
        return run_ufout(c)
    if k == "expr":
        return run_expr(c)
    if k == "mapdata":
        return run_mapdata(c)
    if k == "setter":
        return run_setter(c)
    if k == "norm":
        return run_norm(c)
    return run_vtkenc(c)


def stats(records):
    out = {"rejected": 0, "masked": 0, "ops": {}, "with_history": 0, "with_mid_writes": 0, "with_poke": 0}
    for r in records:
        c = r["case"]
        if "err" in (r.get("obs") or {}):
            out["rejected"] += 1
        if c["kind"] == "expr":
            out["with_history"] += int(bool(c.get("pre")))
            out["with_mid_writes"] += int(bool(c.get("mid")))
            out["with_poke"] += int(has_poke(c["tree"]))

            def walk(t):
                if t[0] in ("un", "bin", "map"):
                    out["ops"][t[0] + ":" + t[1]] = out["ops"].get(t[0] + ":" + t[1], 0) + 1
                if t[0] == "pos":
                    out["ops"]["pos"] = out["ops"].get("pos", 0) + 1
                for s in t:
                    if isinstance(s, list) and s and isinstance(s[0], str):
                        walk(s)
            walk(c["tree"])
        elif c["kind"] == "mapdata":
            k = "mapdata:" + c["map"][0]
            out["ops"][k] = out["ops"].get(k, 0) + 1
    return out
