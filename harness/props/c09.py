"""C09 — OVF files round-trip fields and follow the OVF 1.0/2.0 format.

Contains an *independent* OVF reader/writer (pure Python `struct`, written from the OVF
specification, never importing anything from the repository), the case generators, the
implementation runner, the Gallina encoding and the property oracle.

Case kinds
  round : field -> Field.to_file -> Field.from_file            (Coq: decode (encode f))
  write : field -> Field.to_file -> independent reader          (Coq: encode f)
  read  : bytes from the independent writer (OVF 1.0/2.0, txt/bin4/bin8) or from the
          implementation's writer, possibly damaged (truncated at a byte, check value bit
          flipped, data block short with footer intact, wrong byte order) -> Field.from_file
          (Coq: decode of the abstract file the independent reader sees in those bytes)
  sample: a sample file of the repository's test-suite, independent reader vs Field.from_file
"""
import glob
import json
import math
import random
import os
import re
import shutil
import struct
import tempfile
import warnings
from fractions import Fraction as F

import numpy as np

from harness import gallina as g
from harness.util import import_df, attempt, relayout, LAYOUTS

df = import_df()

REPO = os.environ.get("VERIF_REPO", "/repo")
TMP = tempfile.mkdtemp(prefix="c09_")
_counter = [0]

T_UNITWS = "C09-unit-whitespace"     # known finding: units with white space cannot be stored
# (repaired in /repo ec89bf87: a short binary block was accepted when block + trailer held the announced byte
#  count and only white space remained; the reader now requires the end-of-data marker after the block)
T_BRACES = "C09-label-braces"        # optional stream (VERIF_C09_BRACES=1): the reader strips { and }

# (the stale side-car defect - an older side-car read back as the subregions of a field saved without any -
#  is repaired in /repo; the `stale` scenarios are ordinary armed cases now)
# observation only (complex fields are outside C09's quantifier, OVF is a real format): bin4/bin8 store the
# real parts of a complex field and drop non-zero imaginary parts silently; txt writes rows the reader refuses

CHECK = {4: 1234567.0, 8: 123456789012345.0}
REPS = ["bin8", "bin4", "txt"]
F32_INF = F(2) ** 128


# =============================================================== independent OVF codec
class OvfError(Exception):
    pass


def _tokens(text):
    """OVF 2.0 list: whitespace separated, {..} groups words"""
    out, i, n = [], 0, len(text)
    while i < n:
        if text[i].isspace():
            i += 1
        elif text[i] == "{":
            j = text.find("}", i)
            if j < 0:
                j = n
            out.append(text[i:j + 1])     # the group keeps its braces, like the token of the format
            i = j + 1
        else:
            j = i
            while j < n and not text[j].isspace():
                j += 1
            out.append(text[i:j])
            i = j
    return out


def ovf_parse(b):
    """Decode OVF bytes into the abstract file (dict).  Tolerant of truncation: reports what is
    there.  Raises OvfError when not even the data line is complete."""
    pos = 0
    lines = []
    data_line = None
    while True:
        nl = b.find(b"\n", pos)
        if nl < 0:
            raise OvfError("no complete 'Begin: Data' line")
        line = b[pos:nl].decode("utf-8", errors="replace").rstrip("\r")
        pos = nl + 1
        if line.lower().startswith("# begin: data"):
            data_line = line
            break
        lines.append(line)
    if not lines:
        raise OvfError("empty header")
    first = lines[0]
    if "2.0" in first:
        v2 = True
    elif "1.0" in first:
        v2 = False
    else:
        raise OvfError("unknown version line")
    hdr = {}
    for line in lines[1:]:
        if not line.startswith("#") or line.startswith("##"):
            continue
        body = line[1:]
        if ":" not in body:
            continue
        k, v = body.split(":", 1)
        hdr[k.strip()] = v.strip()
    words = data_line.split()
    kind = words[3].lower()
    if kind == "text":
        rep, size = "txt", None
    elif kind == "binary" and len(words) >= 5 and words[4] in ("4", "8"):
        size = int(words[4])
        rep = "bin4" if size == 4 else "bin8"
    else:
        raise OvfError("unknown data kind")
    try:
        nodes = [int(hdr[f"{a}nodes"]) for a in "xyz"]
        lo = [float(hdr[f"{a}min"]) for a in "xyz"]
        hi = [float(hdr[f"{a}max"]) for a in "xyz"]
        step = [float(hdr[f"{a}stepsize"]) for a in "xyz"]
        base = [float(hdr[f"{a}base"]) for a in "xyz"] if all(f"{a}base" in hdr for a in "xyz") else None
        valuedim = int(hdr["valuedim"]) if "valuedim" in hdr else None
    except (KeyError, ValueError) as e:
        raise OvfError(f"header field: {e}")
    vd = valuedim if v2 else 3
    if vd is None:
        raise OvfError("valuedim missing")
    count = nodes[0] * nodes[1] * nodes[2] * vd
    out = dict(v2=v2, meshunit=hdr.get("meshunit"), base=base, nodes=nodes, step=step, min=lo, max=hi,
               valuedim=valuedim, labels=_tokens(hdr["valuelabels"]) if "valuelabels" in hdr else None,
               units=_tokens(hdr["valueunits"]) if "valueunits" in hdr else None,
               unit1=hdr.get("valueunit"), rep=rep, check=None, payload=[], tail_ok=True,
               count=count, data_start=pos, complete=False, vd=vd, cols=0)
    if rep == "txt":
        vals = []
        end_seen = False
        for raw in b[pos:].split(b"\n"):
            s = raw.decode("utf-8", errors="replace").strip()
            if s.lower().startswith("# end: data"):
                end_seen = True
                break
            if not s or s.startswith("#"):
                continue
            toks = s.split()
            if not vals:
                out["cols"] = len(toks)
            for tok in toks:
                vals.append(float(tok))
        out["payload"] = vals
        out["tail_ok"] = end_seen
        out["complete"] = len(vals) >= count
        return out
    fmt = ("<" if v2 else ">") + ("f" if size == 4 else "d")
    if len(b) - pos < size:
        return out
    out["check"] = struct.unpack(fmt, b[pos:pos + size])[0]
    pos += size
    avail = (len(b) - pos) // size
    k = min(avail, count)
    out["payload"] = list(struct.unpack(fmt[0] + str(k) + fmt[1], b[pos:pos + k * size])) if k else []
    out["complete"] = k >= count
    rest = b[pos + k * size:].lstrip().lower()
    marker = b"# end: data"
    out["tail_ok"] = rest.startswith(marker)        # the block must be followed by the end-of-data marker
    out["data_end"] = pos + count * size
    return out


def _num(x):
    return repr(float(x))


def ovf_write(spec):
    """Independent writer.  spec: version (1|2), rep, min/max/step (floats), nodes, meshunit,
    valuedim, labels (tokens or None), units (tokens or None), payload (floats, x fastest),
    style ('oommf'|'mumax')."""
    v2 = spec["version"] == 2
    rep = spec["rep"]
    L = []
    L.append("# OOMMF OVF 2.0" if v2 else "# OOMMF: rectangular mesh v1.0")
    L.append("# Segment count: 1")
    L.append("# Begin: Segment")
    L.append("# Begin: Header")
    L.append("# Title: independent writer")
    L.append("# Desc: written by the verification harness")
    L.append("# Desc: Stage simulation time: -1 s")
    geo = []
    geo.append("# meshtype: rectangular")
    geo.append(f"# meshunit: {spec['meshunit']}")
    for a, v in zip("xyz", spec["min"]):
        geo.append(f"# {a}min: {_num(v)}")
    for a, v in zip("xyz", spec["max"]):
        geo.append(f"# {a}max: {_num(v)}")
    val = []
    if v2:
        val.append(f"# valuedim: {spec['valuedim']}")
        if spec.get("labels") is not None:
            val.append("# valuelabels: " + " ".join(("{%s}" % t) if " " in t else t for t in spec["labels"]))
        if spec.get("units") is not None:
            val.append("# valueunits: " + " ".join(spec["units"]))
    else:
        val.append(f"# valueunit: {spec.get('unit1', 'A/m')}")
        val.append("# valuemultiplier: 1")
        val.append("# ValueRangeMinMag: 0")
        val.append("# ValueRangeMaxMag: 1")
    grid = []
    for a, v, s in zip("xyz", spec["min"], spec["step"]):
        grid.append(f"# {a}base: {_num(v + s / 2)}")
    for a, v in zip("xyz", spec["nodes"]):
        grid.append(f"# {a}nodes: {v}")
    for a, v in zip("xyz", spec["step"]):
        grid.append(f"# {a}stepsize: {_num(v)}")
    if spec.get("style") == "mumax":
        L += geo + val + grid
    else:
        L += geo + grid + val
    L.append("# End: Header")
    dname = {"txt": "Text", "bin4": "Binary 4", "bin8": "Binary 8"}[rep]
    if spec.get("lowercase"):
        L.append(f"# begin: data {dname.lower()}")
    else:
        L.append(f"# Begin: Data {dname}")
    eol_mode = spec.get("eol", "lf")
    counter = [0]

    def eol():
        counter[0] += 1
        if eol_mode == "crlf":
            return "\r\n"
        if eol_mode == "mixed":
            return "\r\n" if counter[0] % 2 else "\n"
        return "\n"

    def emit(lines):
        txt = ""
        for i, ln in enumerate(lines):
            if spec.get("trail") and i % 2 == 0 and i > 0:
                ln = ln + (" \t " if i % 4 == 0 else "  ")
            txt += ln + eol()
        return txt
    if spec.get("comments"):
        L2 = []
        for i, ln in enumerate(L):
            L2.append(ln)
            if i in (1, 4):
                L2.append("#")
            if i == 6:
                L2.append("## a comment: with a colon")
                L2.append("## xmin: 12345")
        L = L2
    out = emit(L).encode("utf-8")
    vd = spec["valuedim"] if v2 else 3
    pay = spec["payload"]
    if rep == "txt":
        rows = [pay[i:i + vd] for i in range(0, len(pay), vd)]
        trail = " " if spec.get("style") == "mumax" else ""
        out += "".join(" ".join(repr(float(x)) for x in r) + trail + eol() for r in rows).encode()
    else:
        size = 4 if rep == "bin4" else 8
        e = "<" if v2 else ">"
        if spec.get("swap_endian"):
            e = ">" if e == "<" else "<"
        c = "f" if size == 4 else "d"
        out += struct.pack(e + c, CHECK[size])
        out += struct.pack(e + str(len(pay)) + c, *pay)
        out += eol().encode()
    out += emit([f"# End: Data {dname}", "# End: Segment"]).encode()
    return out


# =============================================================== helpers
def fhex(x):
    return float(x).hex()


def unhex(s):
    return float.fromhex(s)


def bits(x):
    return struct.unpack("<Q", struct.pack("<d", float(x)))[0]


def f32(x):
    """float32 rounding (round to nearest even, overflow to inf) via struct-free numpy scalar"""
    with np.errstate(over="ignore"):
        return float(np.float32(x))


def qv(x, inf_ok=False):
    """exact rational of a float; +-inf only as the float32 overflow marker"""
    if math.isinf(x):
        if not inf_ok:
            raise ValueError("inf")
        return F32_INF if x > 0 else -F32_INF
    return F(x)


def newpath(ext="ovf"):
    _counter[0] += 1
    return os.path.join(TMP, f"c{_counter[0]}.{ext}")


def cleanup(path):
    for p in (path, path + ".subregions.json"):
        try:
            os.remove(p)
        except OSError:
            pass


def word_label(s):
    return re.fullmatch(r"\w+", s) is not None


# =============================================================== generators
MUNITS = ["m", "nm", "um", "s", "a.u."]
FUNITS = [None, None, "A/m", "T", "J/m3", "1", "rad", "", "µT", "V*s", "a:b", "kg*m^2:s"]
LABEL_POOLS = [
    ["a", "b", "c", "d", "e"], ["mx", "my", "mz", "mw", "mv"], ["x", "y", "z", "t", "u"],
    ["z", "y", "x", "w", "v"], ["u1", "u2", "u3", "u4", "u5"], ["Bx", "By", "Bz", "Bt", "Bu"],
    ["alpha", "beta", "gamma", "delta", "eps"], ["p", "q", "r", "s", "w"], ["α", "β", "γ", "δ", "ε"],
]
US_POOLS = [["m_x", "m_y", "m_z", "m_w", "m_v"], ["a_1", "b_2", "c_3", "d_4", "e_5"],
            ["x_", "y_", "z_", "w_", "v_"], ["_a", "_b", "_c", "_d", "_e"]]
NONWORD_POOLS = [["a-b", "c", "d", "e", "f"], ["m.x", "m.y", "m.z", "m.w", "m.v"], ["a+", "b+", "c+", "d+", "e+"]]
WS_UNITS = ["A / m", "kg m^2", "A\tm"]
BRACE_POOLS = [["{a}", "b", "c", "d", "e"], ["a}b", "c", "d", "e", "f"]]

F32_EDGES = [2.0 ** -149, 2.0 ** -150, 3 * 2.0 ** -150, 2.0 ** -151, 2.0 ** -126, 2.0 ** -126 * (1 - 2.0 ** -24),
             (2 - 2.0 ** -23) * 2.0 ** 127, (2 - 2.0 ** -24) * 2.0 ** 127, (2 - 2.0 ** -25) * 2.0 ** 127, 2.0 ** 128,
             1 + 2.0 ** -24, 1 + 2.0 ** -23 + 2.0 ** -24, 1 + 2.0 ** -24 + 2.0 ** -40, 16777217.0, 0.1, 1 / 3]
F64_EDGES = [5e-324, 2.2250738585072014e-308, 2.225073858507201e-308, 1.7976931348623157e308, -0.0, 0.0,
             1e-300, 1e300, 4.9e-320, -1.7976931348623157e308, 1.0, -1.0, 123456789012345.0, 1234567.0]


def rand_full(rng):
    while True:
        x = struct.unpack("<d", struct.pack("<Q", rng.getrandbits(64)))[0]
        if x == x and not math.isinf(x):
            return x


def gen_values(rng, count, cls):
    out = []
    for _ in range(count):
        if cls == "small":
            x = float(F(rng.randint(-4096, 4096), 2 ** rng.randint(0, 6)))
        elif cls == "full":
            x = rand_full(rng)
        elif cls == "edge":
            x = rng.choice(F32_EDGES + F64_EDGES) * rng.choice([1, 1, -1])
        elif cls == "decimal":
            x = round(rng.uniform(-10, 10), rng.randint(0, 6)) * 10.0 ** rng.randint(-30, 30)
        else:  # index-coded: value tells the cell and component
            x = float(len(out))
        out.append(x)
    return out


def gen_mesh(rng, exact, maxn):
    p1, p2, n = [], [], []
    if exact:
        for _ in range(3):
            k = rng.randint(1, maxn)
            cell = F(rng.choice([1, 3, 5, 7]), 2 ** rng.randint(0, 4))
            lo = F(rng.randint(-256, 256), 8)
            hi = lo + k * cell
            if rng.random() < 0.3:
                lo, hi = hi, lo
            p1.append(float(lo)); p2.append(float(hi)); n.append(k)
    else:
        s = rng.choice([1e-12, 1e-9, 1e-9, 1e-6, 1e-3, 1.0, 1e3, 1e6])
        for _ in range(3):
            k = rng.randint(1, maxn)
            off = rng.choice([0.0, 0.0, round(rng.uniform(-50, 50), 2), round(rng.uniform(-5000, 5000), 1)])
            ext = round(rng.uniform(0.5, 80), rng.choice([0, 1, 2]))
            lo, hi = off * s, (off + ext) * s
            if hi == lo:
                hi = (off + 1.0) * s
            if rng.random() < 0.3:
                lo, hi = hi, lo
            p1.append(lo); p2.append(hi); n.append(k)
    while n[0] * n[1] * n[2] > 40:
        a = max(range(3), key=lambda i: n[i])
        # shrink the longest axis, keeping the corners consistent (exact: cell stays dyadic)
        lo, hi = min(p1[a], p2[a]), max(p1[a], p2[a])
        cell = (F(hi) - F(lo)) / n[a]
        n[a] -= 1
        nh = float(F(lo) + n[a] * cell)
        if p1[a] < p2[a]:
            p2[a] = nh
        else:
            p1[a] = nh
    return p1, p2, n


def gen_subs(rng, p1, p2, n):
    lo = [min(a, b) for a, b in zip(p1, p2)]
    hi = [max(a, b) for a, b in zip(p1, p2)]
    subs = []
    for name in rng.sample(["r1", "r2", "left", "top", "bulk", "layer_a"], rng.randint(1, 3)):
        a_, b_ = [], []
        for d in range(3):
            i0 = rng.randint(0, n[d] - 1)
            i1 = rng.randint(i0 + 1, n[d])
            c = (F(hi[d]) - F(lo[d])) / n[d]
            a_.append(float(F(lo[d]) + i0 * c))
            b_.append(float(F(lo[d]) + i1 * c))
        subs.append([name, [fhex(x) for x in a_], [fhex(x) for x in b_]])
    return subs


def gen_field(rng, tier, exact=None, nv=None, labels="word", unit="std", vcls=None, subs=None, maxn=None):
    exact = rng.random() < 0.5 if exact is None else exact
    maxn = maxn or (4 if tier == "quick" else 6)
    p1, p2, n = gen_mesh(rng, exact, maxn)
    nv = nv or rng.choice([1, 1, 2, 3, 3, 3, 4, 5])
    vd = None
    if nv > 1:
        if labels == "word":
            pool = rng.choice(LABEL_POOLS)
            vd = rng.sample(pool, nv) if rng.random() < 0.5 else pool[:nv]
            if rng.random() < 0.15:
                vd = None  # default labels
        elif labels == "underscore":
            vd = rng.choice(US_POOLS)[:nv]
        elif labels == "nonword":
            vd = rng.choice(NONWORD_POOLS)[:nv]
        elif labels == "braces":
            vd = rng.choice(BRACE_POOLS)[:nv]
    u = rng.choice(FUNITS) if unit == "std" else rng.choice(WS_UNITS)
    vcls = vcls or rng.choice(["small", "full", "full", "edge", "decimal", "index"])
    vals = gen_values(rng, n[0] * n[1] * n[2] * nv, vcls)
    if subs is None:
        subs = rng.random() < 0.3
    sub_list = gen_subs(rng, p1, p2, n) if subs else []
    if sub_list and not exact:
        # Mesh.is_aligned uses an absolute tolerance (C14's subject): keep only what the mesh accepts
        try:
            df.Mesh(region=df.Region(p1=p1, p2=p2), n=n,
                    subregions={k: df.Region(p1=[unhex(x) for x in a], p2=[unhex(x) for x in b])
                                for k, a, b in sub_list})
        except ValueError:
            sub_list = []
    return dict(exact=exact, p1=[fhex(x) for x in p1], p2=[fhex(x) for x in p2], n=n,
                munit=rng.choice(MUNITS), subs=sub_list,
                nv=nv, vdims=vd, unit=u, vals=[fhex(x) for x in vals], vcls=vcls)


DIM_POOLS = [["x", "y", "z"], ["V", "n", "r"], ["v", "r", "n"], ["a", "ab", "abc"], ["z", "y", "x"]]
PREFIX_LABELS = ["m", "mx", "mxy", "mxyz", "mxyzw"]


def add_valid(rng, fc):
    """an explicit validity mask (invalid cells keep their non-zero values)"""
    cells = fc["n"][0] * fc["n"][1] * fc["n"][2]
    kind = rng.choice(["random", "random", "none-valid", "one-invalid"])
    mask = [int(rng.random() < 0.5) for _ in range(cells)] if kind == "random" else \
        ([0] * cells if kind == "none-valid" else [1] * cells)
    if kind == "one-invalid":
        mask[rng.randrange(cells)] = 0
    fc["valid"] = dict(mode=rng.choice(["array", "array", "callable", "setter", "intarray", "norm"]), mask=mask)
    return fc


def dress(rng, fc):
    """the same field request in other argument representations (types must not matter)"""
    p = [unhex(x) for x in fc["p1"] + fc["p2"]]
    ctypes = ["list", "list", "tuple", "ndarray"]
    if all(float(x).is_integer() and abs(x) < 2 ** 40 for x in p):
        ctypes += ["int", "int", "i64arr"]
    if all(f32(x) == x for x in p):
        ctypes += ["f32"]
    fc["ctype"] = rng.choice(ctypes)
    fc["ntype"] = rng.choice(list(NTYPES))
    fc["layout"] = rng.choice(LAYOUTS)
    if rng.random() < 0.6:
        add_valid(rng, fc)
    fc["wpath"] = rng.choice(["str", "Path"])
    fc["rpath"] = rng.choice(["str", "Path"])
    if rng.random() < 0.4:
        fc["dims"] = rng.choice(DIM_POOLS)
    return fc


def gen_field_intcorners(rng, tier):
    """integer-typed corners with fractional (half-integer ...) cells"""
    p1, p2, n = [], [], []
    for _ in range(3):
        k = rng.choice([1, 2, 2, 4])
        e = rng.choice([1, 3, 5, 7, 2, 6])          # edge; cell = e / k is a multiple of 1/4
        lo = rng.randint(-20, 20)
        hi = lo + e
        if rng.random() < 0.3:
            lo, hi = hi, lo
        p1.append(float(lo)); p2.append(float(hi)); n.append(k)
    nv = rng.choice([1, 2, 3])
    vals = gen_values(rng, n[0] * n[1] * n[2] * nv, "index")
    fc = dict(exact=True, p1=[fhex(x) for x in p1], p2=[fhex(x) for x in p2], n=n, munit="m", subs=[],
              nv=nv, vdims=(PREFIX_LABELS[:nv] if nv > 1 else None), unit=rng.choice([None, "", "T"]),
              vals=[fhex(x) for x in vals], vcls="index")
    dress(rng, fc)
    fc["ctype"] = rng.choice(["int", "i64arr", "int", "tuple"])
    return fc


def gen_field_pow2(rng, tier):
    """tiny and huge magnitudes: every absolute tolerance shows"""
    fc = gen_field(rng, tier, exact=True, subs=False, maxn=3)
    e = rng.choice([-200, -120, -60, 60, 150, 300])
    for k in ("p1", "p2"):
        fc[k] = [fhex(math.ldexp(unhex(x), e)) for x in fc[k]]
    fc["pow2"] = e
    return fc


def gen_field_dtype(rng, tier, dt):
    fc = gen_field(rng, tier, subs=False, maxn=3, nv=rng.choice([1, 2, 3]))
    cnt = len(fc["vals"])
    fc["dtype"] = dt
    if dt in ("int64", "int32", "uint8", "uint16"):
        info = np.iinfo(getattr(np, dt))
        pool = [0, 1, info.max, info.min, info.max - 1, 255, 2 ** 24 + 1, 2 ** 53 + 1, 2 ** 62 + 12345, -(2 ** 53) - 1, 3037000500]
        pool = [v for v in pool if info.min <= v <= info.max]
        iv = [rng.choice(pool) if rng.random() < 0.5 else rng.randint(max(info.min, -1000), min(info.max, 1000)) for _ in range(cnt)]
        fc["ivals"] = iv
        fc["vals"] = [fhex(float(v)) for v in iv]
    elif dt == "float32":
        fc["vals"] = [fhex(f32(unhex(x))) if not math.isinf(f32(unhex(x))) else fhex(1.5) for x in fc["vals"]]
    else:
        fc["imag"] = [fhex(0.0) if dt == "complex0" else fhex(float(rng.randint(1, 9))) for _ in range(cnt)]
    fc["vcls"] = dt
    return fc


def gen_state(rng, tier, i):
    scen = ["inplace", "meshrot", "repeat", "stems", "stale", "inplace"][i % 6]
    rep_ = REPS[(i // 6) % 3]
    if scen == "inplace":
        exact = rng.random() < 0.6
        want_rot = rng.random() < 0.4
        f = gen_field(rng, tier, exact=exact, subs=(exact and rng.random() < 0.5), maxn=3,
                      nv=(rng.choice([1, 3]) if want_rot else None), vcls=rng.choice(["index", "small", "full"]))
        if want_rot:
            f["vdims"] = None
        s_ = 1.0 if exact else max(abs(unhex(x)) for x in f["p1"] + f["p2"]) or 1.0
        ops = []
        for _ in range(rng.randint(1, 3)):
            k = rng.choice(["translate", "scale", "rtranslate", "rscale", "arraywrite", "setvalid"] + (["frot"] if want_rot else []))
            if k in ("rtranslate", "rscale") and f["subs"]:
                k = "translate"
            if k in ("translate", "rtranslate"):
                v = [float(F(rng.randint(-64, 64), 8)) if exact else round(rng.uniform(-2, 2), 2) * s_ for _ in range(3)]
                ops.append([k, [fhex(x) for x in v]])
            elif k == "scale":
                ops.append([k, [fhex(rng.choice([2.0, 0.5, -1.0, -2.0, 4.0, 0.25, 3.0])) for _ in range(3)]])
            elif k == "rscale":
                ops.append([k, fhex(rng.choice([2.0, 0.5, 4.0, 3.0]))])
            elif k == "frot":
                a1, a2 = rng.sample(["x", "y", "z"], 2)
                ops.append([k, a1, a2, rng.choice([1, 3, -1, 2])])
            elif k == "setvalid":
                ops.append([k, rng.getrandbits(30)])
            else:
                ops.append([k])
        if rng.random() < 0.5 and not want_rot:
            add_valid(rng, f)
        return dict(kind="state", scen=scen, field=f, ops=ops, rep=rep_)
    if scen == "meshrot":
        f = gen_field(rng, tier, exact=True, subs=rng.random() < 0.4, maxn=4, vcls="index")
        a1, a2 = rng.sample(["x", "y", "z"], 2)
        return dict(kind="state", scen=scen, field=f, rot=[a1, a2, rng.choice([1, 3, -1, 5])], rep=rep_)
    f1 = gen_field(rng, tier, exact=True, subs=True, maxn=3)
    f2 = gen_field(rng, tier, exact=True, subs=False, maxn=3, nv=f1["nv"])
    # same mesh, other content
    for k in ("p1", "p2", "n", "munit"):
        f2[k] = f1[k]
    f2["vals"] = [fhex(x) for x in gen_values(rng, len(f1["vals"]), rng.choice(["small", "full", "index"]))]
    if scen == "repeat":
        lo = [min(unhex(a), unhex(b)) for a, b in zip(f1["p1"], f1["p2"])]
        hi = [max(unhex(a), unhex(b)) for a, b in zip(f1["p1"], f1["p2"])]
        f2["subs"] = gen_subs(rng, lo, hi, f1["n"])
    if scen == "stems":
        f2["subs"] = [] if rng.random() < 0.5 else gen_subs(rng, [min(unhex(a), unhex(b)) for a, b in zip(f1["p1"], f1["p2"])],
                                                            [max(unhex(a), unhex(b)) for a, b in zip(f1["p1"], f1["p2"])], f1["n"])
    for f_ in (f1, f2):
        if rng.random() < 0.5:
            add_valid(rng, f_)
    variant = None
    if scen == "stale":
        variant = rng.choice(["over", "over", "over_other", "over_subs", "nosave", "fresh_none"])
        if variant == "over_other":
            f2 = gen_field(rng, tier, subs=False, maxn=3)
        elif variant == "over_subs":
            f2["subs"] = gen_subs(rng, [min(unhex(a), unhex(b)) for a, b in zip(f1["p1"], f1["p2"])],
                                  [max(unhex(a), unhex(b)) for a, b in zip(f1["p1"], f1["p2"])], f1["n"])
    return dict(kind="state", scen=scen, field=f1, field2=f2, rep=rep_, variant=variant,
                exts=rng.sample(["ovf", "omf", "ohf"], 2), wpath=rng.choice(["str", "Path"]))


# ---- large fields around the writer's chunk size (oracle only: far too large for a Coq literal)
def writer_chunksize():
    """the chunk size of the binary writer, read from the source at run time (fallback 100000)"""
    try:
        src = open(os.path.join(REPO, "discretisedfield", "io", "ovf.py")).read()
        m = re.search(r"^\s*chunksize\s*=\s*([0-9][0-9_]*)\s*$", src, re.M)
        if m:
            return int(m.group(1).replace("_", "")), "source"
    except OSError:
        pass
    return 100000, "fallback"


def factor3(rng, cells):
    def big_div(x, cap):
        for q in range(min(cap, x), 0, -1):
            if x % q == 0:
                return q
        return 1
    a_ = big_div(cells, rng.choice([100, 128, 64, 50]))
    b_ = big_div(cells // a_, rng.choice([100, 128, 10, 20]))
    n = [a_, b_, cells // a_ // b_]
    rng.shuffle(n)
    return n


def gen_big(rng, tier):
    C, src = writer_chunksize()
    grid = []
    for vd in (1, 2, 3, 4, 6, 7, 9):
        for k in (1, 2, 3):
            for delta in (-vd, -1, 0, 1, vd):
                target = k * C + delta
                total = (target // vd) * vd if delta <= 0 else -((-target) // vd) * vd   # multiple of vd at/below resp. at/above
                if total >= vd:
                    grid.append((vd, k, delta, total))
    # values counts at or just below a multiple of the chunk size, component counts that do not divide it
    must = [g_ for g_ in grid if g_[2] == 0 and g_[1] == 3 and C % g_[0] != 0]
    rest = [g_ for g_ in grid if g_ not in must]
    rng.shuffle(rest)
    pick = must + ([] if tier == "core" else rest[: (4 if tier == "quick" else 30 - len(must))])
    cases = []
    for i, (vd, k, delta, total) in enumerate(pick):
        extend = vd == 3 and i % 2 == 0
        cases.append(dict(kind="big", vd=vd, nv=1 if extend else vd, extend=extend, k=k, delta=delta, total=total,
                          n=factor3(rng, total // vd), rep=("bin8", "bin4")[i % 2], chunk=C, chunk_src=src))
    if cases:
        cases[-1]["rep"] = "txt"
    # the extended scalar at three chunks is always there
    cases.append(dict(kind="big", vd=3, nv=1, extend=True, k=3, delta=0, total=(3 * C // 3) * 3,
                      n=factor3(rng, 3 * C // 3), rep="bin8", chunk=C, chunk_src=src))
    return cases


def gen_foreign(rng, tier, version=None, rep=None, maxn=None):
    version = version or rng.choice([1, 2])
    rep = rep or rng.choice(REPS)
    exact = rng.random() < 0.5
    p1, p2, n = gen_mesh(rng, exact, maxn or (4 if tier == "quick" else 6))
    lo = [min(a, b) for a, b in zip(p1, p2)]
    hi = [max(a, b) for a, b in zip(p1, p2)]
    step = [(h - l) / k for l, h, k in zip(lo, hi, n)]
    vd = 3 if version == 1 else rng.choice([1, 2, 3, 3, 3, 4])
    style = rng.choice(["oommf", "mumax"])
    labels = None
    units = None
    if version == 2:
        c = rng.random()
        if c < 0.25:
            labels = [f"Magnetization_{a}" for a in "xyzwv"[:vd]]
        elif c < 0.45:
            labels = [f"m_{a}" for a in "xyzwv"[:vd]]
        elif c < 0.6:
            labels = [f"Total field_{a}" for a in "xyzwv"[:vd]]
        elif c < 0.7:
            labels = ["Total energy density", "Exchange energy", "Zeeman", "Demag e", "DMI"][:vd]
        elif c < 0.8:
            labels = ["m_x"] * vd       # not unique after conversion -> defaults
        elif c < 0.9:
            labels = ["a", "b", "c", "d", "e"][:vd]
        c = rng.random()
        if c < 0.5:
            units = [rng.choice(["A/m", "T", "1", "J/m3"])] * vd
        elif c < 0.6 and vd > 1:
            units = ["A/m", "T", "1", "J", "K"][:vd]
        elif c < 0.7:
            units = []
    cls = rng.choice(["small", "full", "edge", "decimal", "index"])
    pay = gen_values(rng, n[0] * n[1] * n[2] * vd, cls)
    if rep == "bin4":
        pay = [f32(x) for x in pay]
        pay = [0.0 if math.isinf(x) else x for x in pay]
    return dict(version=version, rep=rep, min=[fhex(x) for x in lo], max=[fhex(x) for x in hi],
                step=[fhex(x) for x in step], nodes=n, meshunit=rng.choice(MUNITS), valuedim=vd,
                labels=labels, units=units, payload=[fhex(x) for x in pay], style=style,
                lowercase=rng.random() < 0.15, unit1="A/m",
                eol=rng.choice(["lf", "lf", "crlf", "mixed"]), trail=rng.random() < 0.3, comments=rng.random() < 0.3)


# =============================================================== directed core
def foreign_fixed(r, version, rep_, vd, **over):
    while True:
        sp_ = gen_foreign(r, "quick", version=version, rep=rep_, maxn=2)
        if sp_["valuedim"] == vd or version == 1:
            break
    sp_.update(lowercase=False, eol="lf", trail=False, comments=False)
    sp_.update(over)
    return sp_


def fixed_field(r, n, nv, **over):
    """hand-made anisotropic mesh away from the origin, index-coded non-zero values"""
    p1 = [1.5, -2.0, 0.25]
    cell = [1.0, 0.5, 0.25]
    p2 = [a + k * c for a, k, c in zip(p1, n, cell)]
    cnt = n[0] * n[1] * n[2] * nv
    fc = dict(exact=True, p1=[fhex(x) for x in p1], p2=[fhex(x) for x in p2], n=list(n), munit="nm", subs=[],
              nv=nv, vdims=(["a", "b", "c", "d"][:nv] if nv > 1 else None), unit="A/m",
              vals=[fhex(float(i + 1)) for i in range(cnt)], vcls="index")
    fc.update(over)
    return fc


def box(fc, i0, i1):
    """subregion covering cells i0..i1 (exclusive) per axis"""
    lo = [unhex(x) for x in fc["p1"]]
    cell = [(unhex(b) - unhex(a)) / k for a, b, k in zip(fc["p1"], fc["p2"], fc["n"])]
    return [[fhex(l + i * c) for l, i, c in zip(lo, i0, cell)], [fhex(l + i * c) for l, i, c in zip(lo, i1, cell)]]


def directed_core():
    """Seed-, tier- and run-independent cases: one small group per mechanism that a seeded change
    (/verif/seeded/C09-*) or a repaired defect touched.  Never trimmed."""
    r = random.Random(424242)
    core = []

    def both(fc, reps=REPS, extend=False):
        for rp in reps:
            core.append(dict(kind="round", field=dict(fc), rep=rp, extend=extend))
            core.append(dict(kind="write", field=dict(fc), rep=rp, extend=extend))
    # a1  check value: low-order bits flipped
    for rp, bits_ in (("bin8", [0, 1, 2, 3, 4, 8, 16, 24, 40, 63]), ("bin4", [0, 1, 2, 8, 31])):
        for ver in (1, 2):
            sp_ = foreign_fixed(r, ver, rp, 3)
            for b_ in bits_:
                core.append(dict(kind="read", src="foreign", spec=sp_, fault=dict(type="flip", bit=b_)))
    # a2  header of a mesh away from the origin (xbase, stepsize, min/max)
    both(fixed_field(r, (2, 3, 1), 1))
    both(fixed_field(r, (1, 2, 4), 3))
    # a3  same stem, different extensions; c2  order of overlapping subregions
    f1 = fixed_field(r, (2, 2, 2), 1)
    f1["subs"] = [["zeta", *box(f1, (0, 0, 0), (2, 1, 2))], ["alpha", *box(f1, (0, 0, 0), (1, 2, 2))], ["mid", *box(f1, (1, 1, 0), (2, 2, 1))]]
    f2 = fixed_field(r, (2, 2, 2), 1, unit="T")
    f3 = dict(f2, subs=[["other", *box(f2, (0, 0, 1), (2, 2, 2))]])
    for exts in (["ovf", "omf"], ["omf", "ohf"], ["ovf", "ohf"]):
        for fb in (f2, f3):
            core.append(dict(kind="state", scen="stems", field=f1, field2=fb, rep="bin8", variant=None, exts=exts, wpath="str"))
    both(f1, reps=["bin8", "txt"])
    # stale side-car (repaired): every variant
    for var, fb in (("over", f2), ("over_subs", f3), ("nosave", f2), ("fresh_none", f2), ("over_other", fixed_field(r, (3, 1, 2), 2))):
        core.append(dict(kind="state", scen="stale", field=f1, field2=fb, rep="bin4", variant=var, exts=["ovf", "omf"], wpath="Path"))
    core.append(dict(kind="state", scen="repeat", field=f1, field2=f3, rep="txt", variant=None, exts=["ovf", "omf"], wpath="str"))
    # b1  float32 overflow and rounding edges in bin4
    edge = [1e39, -1e300, 3.4028235677973366e38, (2 - 2.0 ** -24) * 2.0 ** 127, -(2 - 2.0 ** -25) * 2.0 ** 127, 2.0 ** -150,
            3 * 2.0 ** -150, 1 + 2.0 ** -24]
    both(fixed_field(r, (2, 2, 2), 1, vals=[fhex(x) for x in edge], vcls="edge"), reps=["bin4", "bin8"])
    # b2  short data blocks / cuts inside the data block (own and foreign files)
    for rp in ("bin8", "bin4"):
        sp_ = foreign_fixed(r, 2, rp, 2)
        fi = fixed_field(r, (2, 1, 2), 2)
        for k_ in (1, 2, 3):
            core.append(dict(kind="read", src="foreign", spec=sp_, fault=dict(type="short", k=k_)))
            core.append(dict(kind="read", src="impl", field=fi, rep=rp, fault=dict(type="short", k=k_)))
        for fr in (0.0, 0.3, 0.6, 0.9, 1.0):
            core.append(dict(kind="read", src="impl", field=fi, rep=rp, fault=dict(type="trunc_data", frac=fr)))
        core.append(dict(kind="read", src="impl", field=fi, rep=rp, fault=None))
    # b3 / label rules: underscores, non-word characters, prefixes of one another
    both(fixed_field(r, (2, 1, 1), 3, vdims=["m_x_1", "m_y_2", "a_b_c"]))
    both(fixed_field(r, (1, 1, 2), 4, vdims=["m", "mx", "m-x", "x_"]), reps=["bin8"])
    # c1  value counts at multiples of the writer's chunk size
    core.extend(gen_big(r, "core"))
    # c3  non-ASCII units and labels (own and foreign files)
    both(fixed_field(r, (2, 1, 1), 2, vdims=["α", "β"], unit="µT", munit="µm"))
    for rp in REPS:
        core.append(dict(kind="read", src="foreign", spec=foreign_fixed(r, 2, rp, 2, meshunit="µm", units=["µT", "µT"], labels=["B_α", "B_β"]), fault=None))
    # d1  explicit validity masks over non-zero data
    for nv in (1, 3):
        for mode in ("array", "callable", "setter"):
            fv = fixed_field(r, (2, 2, 1), nv)
            fv["valid"] = dict(mode=mode, mask=[1, 0, 0, 1])
            both(fv, reps=["bin8"] if mode != "array" else REPS)
    # d2  extended scalar on an anisotropic mesh;  e3  extend_scalar on vector fields keeps labels
    both(fixed_field(r, (2, 3, 4), 1), extend=True)
    both(fixed_field(r, (2, 1, 2), 3, vdims=["p", "q", "r"]), extend=True)
    both(fixed_field(r, (1, 2, 1), 2, vdims=["p", "q"]), extend=True, reps=["bin8", "txt"])
    # d3  the unit '1' and other units that look like markers
    for u in ("1", "0", "none", "NONE"):
        both(fixed_field(r, (1, 1, 2), 2, unit=u), reps=["bin8"])
    for rp in REPS:
        core.append(dict(kind="read", src="foreign", spec=foreign_fixed(r, 2, rp, 3, units=["1", "1", "1"], labels=["m_x", "m_y", "m_z"]), fault=None))
    # e1  nothing of an earlier file may survive: file with labels/units, then files without
    for rp in REPS:
        core.append(dict(kind="read", src="foreign", spec=foreign_fixed(r, 2, rp, 3, labels=["Magnetization_p", "Magnetization_q", "Magnetization_r"], units=["A/m"] * 3, meshunit="um"), fault=None))
        core.append(dict(kind="read", src="foreign", spec=foreign_fixed(r, 1, rp, 3, meshunit="m"), fault=None))
        core.append(dict(kind="read", src="foreign", spec=foreign_fixed(r, 2, rp, 3, labels=None, units=None, meshunit="m"), fault=None))
    # short block whose missing bytes are exactly made up by the trailer (CR LF trailer = 42 bytes)
    for rp, k_ in (("bin8", 5), ("bin4", 10)):
        while True:
            sp_ = foreign_fixed(r, 2, rp, 3, eol="crlf")
            if len(sp_["payload"]) >= 12:
                break
        core.append(dict(kind="read", src="foreign", spec=sp_, fault=dict(type="short", k=k_)))
    # e2  everything the format allows a foreign writer: CR LF / mixed line ends, trailing blanks, comment lines
    for rp in REPS:
        for ver in (1, 2):
            for fmt in (dict(eol="crlf"), dict(eol="mixed", trail=True), dict(eol="crlf", trail=True, comments=True, style="mumax"),
                        dict(eol="lf", comments=True, trail=True)):
                core.append(dict(kind="read", src="foreign", fault=None,
                                 spec=foreign_fixed(r, ver, rp, 3, meshunit="nm", units=["A/m"] * 3,
                                                    labels=["Total field_x", "Total field_y", "Total field_z"], **fmt)))
    return core


def generate(rng, tier):
    quick = tier == "quick"
    cases = directed_core()          # identical in every run, tier and seed
    ncore = len(cases)
    nround = 150 if quick else 1200
    for i in range(nround):
        f = gen_field(rng, tier)
        cases.append(dict(kind="round", field=f, rep=REPS[i % 3], extend=(f["nv"] == 1 and rng.random() < 0.4)))
    for i in range(nround // 2):
        f = gen_field(rng, tier)
        cases.append(dict(kind="write", field=f, rep=REPS[i % 3], extend=(f["nv"] == 1 and rng.random() < 0.4)))
    # argument representations: the same requests with corners / n / paths of other types
    for c in cases[ncore:]:
        if rng.random() < 0.5:
            dress(rng, c["field"])
    for i in range(10 if quick else 60):
        cases.append(dict(kind="round", field=gen_field_intcorners(rng, tier), rep=REPS[i % 3], extend=False))
        cases.append(dict(kind="write", field=gen_field_intcorners(rng, tier), rep=REPS[(i + 1) % 3], extend=False))
    for i in range(9 if quick else 45):
        cases.append(dict(kind="round", field=gen_field_pow2(rng, tier), rep=REPS[i % 3], extend=False))
        cases.append(dict(kind="write", field=gen_field_pow2(rng, tier), rep=REPS[(i + 2) % 3], extend=False))
    for i, dt in enumerate(["int64", "int32", "uint8", "uint16", "float32", "complex0"] * (2 if quick else 8) + ["complex"] * 2):
        cases.append(dict(kind="round", field=gen_field_dtype(rng, tier, dt), rep=REPS[i % 3], extend=False))
    for i in range(3 if quick else 9):      # mesh units differ per axis: cannot be stored, must be refused
        f = gen_field(rng, tier, maxn=2, subs=False)
        f["munits"] = rng.choice([["m", "nm", "m"], ["m", "m", "s"], ["a", "b", "c"]])
        cases.append(dict(kind="round", field=f, rep=REPS[i % 3], extend=False))
    # state left by earlier calls, repeated calls, neighbours in the directory
    for i in range(30 if quick else 180):
        cases.append(gen_state(rng, tier, i))
    cases += gen_big(rng, tier)
    # axis-order probes: index-coded values on meshes with three different n
    for i in range(12 if quick else 60):
        f = gen_field(rng, tier, vcls="index", exact=True)
        cases.append(dict(kind="round", field=f, rep=REPS[i % 3], extend=False))
    # labels with underscores / non-word characters, extend_scalar on vector fields (repaired in
    # /repo: ordinary cases now); units with white space (known finding, small stream)
    for i in range(6 if quick else 30):
        f = gen_field(rng, tier, nv=rng.choice([2, 3, 4]), labels="underscore")
        cases.append(dict(kind="round", field=f, rep=REPS[i % 3], extend=False))
    for i in range(3 if quick else 15):
        f = gen_field(rng, tier, nv=rng.choice([2, 3]), labels="nonword", maxn=2)
        cases.append(dict(kind="round", field=f, rep=REPS[i % 3], extend=False))
    for i in range(6 if quick else 30):
        f = gen_field(rng, tier, nv=rng.choice([2, 3, 4]), maxn=3)
        cases.append(dict(kind="round", field=f, rep=REPS[i % 3], extend=True))
    for i in range(3 if quick else 6):
        f = gen_field(rng, tier, unit="ws", maxn=2)
        cases.append(dict(kind="round", field=f, rep=REPS[i % 3], extend=False))
    if os.environ.get("VERIF_C09_BRACES", "1") != "0":
        for i in range(3):
            f = gen_field(rng, tier, nv=2, labels="braces", maxn=2)
            cases.append(dict(kind="round", field=f, rep=REPS[i % 3], extend=False))
    # malformed writer input
    for i in range(4 if quick else 20):
        f = gen_field(rng, tier, maxn=2)
        cases.append(dict(kind="round", field=f, rep=rng.choice(["bin5", "text", "BIN8", ""]), extend=False))
    # foreign files
    nfor = 120 if quick else 900
    for i in range(nfor):
        spec = gen_foreign(rng, tier, version=1 + i % 2, rep=REPS[(i // 2) % 3])
        cases.append(dict(kind="read", src="foreign", spec=spec, fault=None))
    # faults: enumeration over small binary files
    nfiles = 2 if quick else 8
    for i in range(nfiles):
        for rep in ("bin4", "bin8"):
            version = 1 + (i % 2)
            spec = gen_foreign(rng, tier, version=version, rep=rep, maxn=2)
            size = 4 if rep == "bin4" else 8
            blob = ovf_write({**spec_floats(spec)})
            info = ovf_parse(blob)
            start = info["data_start"]
            # every byte from the start of the data line region to the end of the file
            lo_t = max(0, start - 30)
            for t in range(lo_t, len(blob)):
                cases.append(dict(kind="read", src="foreign", spec=spec, fault=dict(type="trunc", at=t)))
            for t in sorted({0, 1, 17, start // 2, start - 31} & set(range(0, lo_t))):
                cases.append(dict(kind="read", src="foreign", spec=spec, fault=dict(type="trunc", at=t)))
            for bit in range(size * 8):
                cases.append(dict(kind="read", src="foreign", spec=spec, fault=dict(type="flip", bit=bit)))
            total = len(spec["payload"])
            for k in range(1, min(total, 8) + 1):
                cases.append(dict(kind="read", src="foreign", spec=spec, fault=dict(type="short", k=k)))
            cases.append(dict(kind="read", src="foreign", spec=spec, fault=dict(type="endian")))
            cases.append(dict(kind="read", src="foreign", spec=spec, fault=dict(type="long", k=1)))
    # faults on files written by the implementation itself
    for i in range(3 if quick else 12):
        f = gen_field(rng, tier, maxn=2, nv=rng.choice([1, 2, 3]), subs=False)
        rep = ("bin8", "bin4")[i % 2]
        size = 4 if rep == "bin4" else 8
        total = f["n"][0] * f["n"][1] * f["n"][2] * f["nv"]
        for k in range(1, min(total, 6) + 1):
            cases.append(dict(kind="read", src="impl", field=f, rep=rep, fault=dict(type="short", k=k)))
        for bit in rng.sample(range(size * 8), 8):
            cases.append(dict(kind="read", src="impl", field=f, rep=rep, fault=dict(type="flip", bit=bit)))
        for frac in (0.0, 0.3, 0.6, 0.9, 1.0):
            cases.append(dict(kind="read", src="impl", field=f, rep=rep, fault=dict(type="trunc_data", frac=frac)))
        cases.append(dict(kind="read", src="impl", field=f, rep=rep, fault=None))
    # sample files shipped with the repository's tests
    for p in sorted(glob.glob(os.path.join(REPO, "discretisedfield", "tests", "test_sample", "*.o[mveh]f"))):
        cases.append(dict(kind="sample", file=os.path.basename(p)))
    return cases


def spec_floats(spec):
    s = dict(spec)
    for k in ("min", "max", "step", "payload"):
        s[k] = [unhex(x) for x in spec[k]]
    return s


# =============================================================== implementation side
NTYPES = {"int": int, "int8": np.int8, "uint8": np.uint8, "int16": np.int16, "uint16": np.uint16,
          "int32": np.int32, "uint32": np.uint32, "int64": np.int64, "uint64": np.uint64}


def as_seq(xs, how):
    """the same numbers in another argument representation"""
    if how == "tuple":
        return tuple(xs)
    if how == "ndarray":
        return np.array(xs, dtype=np.float64)
    if how == "f32":          # only used when every number is a float32
        return np.array(xs, dtype=np.float32)
    if how == "int":          # only used when every number is an integer
        return [int(x) for x in xs]
    if how == "i64arr":
        return np.array([int(x) for x in xs], dtype=np.int64)
    return list(xs)


def field_array(fc):
    dt = fc.get("dtype")
    shape = (*fc["n"], fc["nv"])
    if dt in ("int64", "int32", "uint8", "uint16"):
        return np.array(fc["ivals"], dtype=getattr(np, dt)).reshape(shape)
    if dt == "float32":
        return np.array([unhex(x) for x in fc["vals"]], dtype=np.float32).reshape(shape)
    if dt in ("complex0", "complex"):
        re_ = np.array([unhex(x) for x in fc["vals"]], dtype=np.float64)
        im_ = np.array([unhex(x) for x in fc["imag"]], dtype=np.float64)
        z = np.empty(len(re_), dtype=np.complex128)
        z.real = re_          # keeps the sign of zeros
        z.imag = im_
        return z.reshape(shape)
    return np.array([unhex(x) for x in fc["vals"]], dtype=np.float64).reshape(shape)


def make_mesh(fc):
    p1 = as_seq([unhex(x) for x in fc["p1"]], fc.get("ctype", "list"))
    p2 = as_seq([unhex(x) for x in fc["p2"]], fc.get("ctype", "list"))
    kw = {}
    if fc.get("dims"):
        kw["dims"] = fc["dims"]
    region = df.Region(p1=p1, p2=p2, units=fc.get("munits") or [fc["munit"]] * 3, **kw)
    subs = {name: df.Region(p1=[unhex(x) for x in a], p2=[unhex(x) for x in b], **kw) for name, a, b in fc["subs"]}
    nt = NTYPES[fc.get("ntype", "int")]
    n = [nt(k) for k in fc["n"]]
    if fc.get("ctype") == "ndarray":
        n = np.array(fc["n"], dtype=nt if nt is not int else np.int64)
    elif fc.get("ctype") == "tuple":
        n = tuple(n)
    return df.Mesh(region=region, n=n, subregions=subs)


def make_field(fc, mesh=None):
    mesh = make_mesh(fc) if mesh is None else mesh
    arr = relayout(field_array(fc), fc.get("layout"))      # same values, other strides / flags
    kw = {}
    # explicit validity: the file stores the values of EVERY cell, valid or not
    vs = fc.get("valid")
    mask = None
    if vs:
        mask = np.array(vs["mask"], dtype=bool).reshape(*fc["n"])
        if vs["mode"] == "array":
            kw["valid"] = mask
        elif vs["mode"] == "intarray":
            kw["valid"] = mask.astype(np.int64)
        elif vs["mode"] == "callable":
            kw["valid"] = lambda p, _m=mask, _mesh=mesh: bool(_m[tuple(_mesh.point2index(p))])
        elif vs["mode"] == "norm":
            kw["valid"] = "norm"
    if fc.get("dtype"):
        kw["dtype"] = arr.dtype
    fld = df.Field(mesh, nvdim=fc["nv"], value=arr, vdims=fc["vdims"], unit=fc["unit"], **kw)
    if vs and vs["mode"] == "setter":
        fld.valid = mask                                    # validity assigned after construction
    return fld


def patharg(path, how):
    import pathlib
    return pathlib.Path(path) if how == "Path" else str(path)


def snapshot(fld):
    """everything a write/read must leave alone"""
    m = fld.mesh
    return dict(arr=fld.array.tobytes(), dtype=str(fld.array.dtype), shape=tuple(fld.array.shape),
                vdims=None if fld.vdims is None else list(fld.vdims), unit=fld.unit,
                mapping=dict(fld.vdim_mapping), valid=np.asarray(fld.valid).tobytes(),
                pmin=m.region.pmin.tobytes(), pmax=m.region.pmax.tobytes(), n=m.n.tobytes(),
                units=list(m.region.units), dims=list(m.region.dims),
                subs=[(k, r.pmin.tobytes(), r.pmax.tobytes()) for k, r in m.subregions.items()],
                ids=(id(fld.mesh), id(fld.mesh.region), id(fld.mesh.subregions)))


def observe_field(fld):
    m = fld.mesh
    return dict(pmin=[fhex(x) for x in m.region.pmin], pmax=[fhex(x) for x in m.region.pmax],
                n=[int(k) for k in m.n], munits=[str(u) for u in m.region.units],
                subs=[[k, [fhex(x) for x in r.pmin], [fhex(x) for x in r.pmax]] for k, r in m.subregions.items()],
                nv=int(fld.nvdim), vdims=None if fld.vdims is None else [str(c) for c in fld.vdims],
                unit=fld.unit, vals=[fhex(x) for x in np.asarray(fld.array, dtype=np.float64).reshape(-1).tolist()],
                dtype=str(fld.array.dtype))


def has_nonfinite(hexvals):
    return any(math.isnan(unhex(x)) or math.isinf(unhex(x)) for x in hexvals)


# ---- Gallina encoders
def gq(x):
    """rational as a Gallina Q term; dyadic rationals (every float) as fq mantissa exponent, which
    keeps the literals short (Coq parses long decimal literals in quadratic time)"""
    f = F(x)
    n, d = f.numerator, f.denominator
    if n == 0:
        return "0"
    if d & (d - 1) == 0:
        e = -(d.bit_length() - 1)
        if d == 1:
            tz = (n & -n).bit_length() - 1
            n >>= tz
            e = tz
        if -64 <= e <= 64 and abs(n) < 2 ** 60 and e <= 0:
            return g.q(f)
        ns = hex(n) if n >= 0 else "(" + hex(n) + ")"
        return f"(fq {ns} ({e}))"
    return g.q(f)


def g_q_hex(h, inf_ok=False):
    return gq(qv(unhex(h), inf_ok))


def g_qlist_hex(hs, inf_ok=False):
    return g.lst([g_q_hex(h, inf_ok) for h in hs])


def g_sidecar(subs):
    return g.lst([f"({g.s(name)}, ({g_qlist_hex(a)}, {g_qlist_hex(b)}))" for name, a, b in subs])


def g_optstr(x):
    return "None" if x is None else f"(Some {g.s(x)})"


def g_optstrs(x):
    return "None" if x is None else f"(Some {g.sl(x)})"


def g_rep(rep):
    return {"txt": "RTxt", "bin4": "RBin4", "bin8": "RBin8"}[rep]


def g_fin(fc):
    return (f"(mkFin {g_qlist_hex(fc['p1'])} {g_qlist_hex(fc['p2'])} {g.zl(fc['n'])} {g.sl(fc.get('munits') or [fc['munit']] * 3)} "
            f"{g_sidecar(fc['subs'])} {g.nat(fc['nv'])} {g_optstrs(fc['vdims'])} {g_optstr(fc['unit'])} "
            f"{g_qlist_hex(fc['vals'])})")


def g_fobs(o, inf_ok=False):
    return (f"(mkFobs {g_qlist_hex(o['pmin'])} {g_qlist_hex(o['pmax'])} {g.zl(o['n'])} {g.sl(o['munits'])} "
            f"{g_sidecar(o['subs'])} {g.nat(o['nv'])} {g_optstrs(o['vdims'])} {g_optstr(o['unit'])} "
            f"{g_qlist_hex(o['vals'], inf_ok)})")


def g_file(a, inf_ok=False):
    """abstract file (dict of the independent reader, floats) -> Gallina"""
    def ql(xs):
        return g.lst([gq(F(x)) for x in xs])
    chk = a["check"]
    if chk is None or math.isnan(chk) or math.isinf(chk):
        gchk = "None"
    else:
        gchk = f"(Some {gq(F(chk))})"
    return (f"(mkFile {g.b(a['v2'])} {g.s(a['meshunit'] or '')} {ql(a['base'] or [])} {g.zl(a['nodes'])} "
            f"{ql(a['step'])} {ql(a['min'])} {ql(a['max'])} "
            f"{'None' if a['valuedim'] is None else '(Some ' + g.z(a['valuedim']) + ')'} "
            f"{g_optstrs(a['labels'])} {g_optstrs(a['units'])} {g_rep(a['rep'])} {gchk} "
            f"{g.lst([gq(qv(x, inf_ok)) for x in a['payload']])} {g.nat(a['cols'])} {g.b(a['tail_ok'])})")


def strings_ok(*xs):
    for x in xs:
        if x is None:
            continue
        for s in (x if isinstance(x, (list, tuple)) else [x]):
            if s is not None and ('"' in s or any(ord(ch) < 32 for ch in s)):
                return False
    return True


# ---- oracle pieces
def same_bits(a, b):
    return bits(a) == bits(b)


def value_ok(rep, orig, got):
    """clause of the property for one value written in `rep` and read back"""
    if rep == "bin8":
        return same_bits(orig, got)
    if rep == "bin4":
        e = f32(orig)
        return same_bits(e, got) or (e == got == 0.0)
    if math.isinf(got) or math.isnan(got):
        return False
    return abs(F(orig) - F(got)) <= F(1, 10 ** 9) * abs(F(orig))


def expected_layout(fc, extend):
    """values of the field in OVF order (x fastest), rows of write_dim components"""
    n, nv = fc["n"], fc["nv"]
    v = [unhex(x) for x in fc["vals"]]
    out = []
    for k in range(n[2]):
        for j in range(n[1]):
            for i in range(n[0]):
                row = [v[((i * n[1] + j) * n[2] + k) * nv + c] for c in range(nv)]
                if extend and nv == 1:
                    row = row + [0.0, 0.0]
                out.extend(row)
    return out


def unit_norm(u):
    return None if u in (None, "") else u


def oracle_roundtrip(fc, rep, extend, o):
    """property text on (field, what came back)"""
    bad = []
    p1 = [unhex(x) for x in fc["p1"]]
    p2 = [unhex(x) for x in fc["p2"]]
    lo = [min(a, b) for a, b in zip(p1, p2)]
    hi = [max(a, b) for a, b in zip(p1, p2)]
    if [unhex(x) for x in o["pmin"]] != lo or [unhex(x) for x in o["pmax"]] != hi:
        bad.append("corners")
    if o["munits"] != (fc.get("munits") or [fc["munit"]] * 3):
        bad.append("meshunit")
    if o["n"] != fc["n"]:
        bad.append("cell-counts")
    nv = fc["nv"]
    ext = extend and nv == 1
    if o["nv"] != (3 if ext else nv):
        bad.append("component-count")
    if unit_norm(o["unit"]) != unit_norm(fc["unit"]):
        bad.append("unit")
    if o["nv"] == (3 if ext else nv) and o["n"] == fc["n"]:
        orig = [unhex(x) for x in fc["vals"]]
        got = [unhex(x) for x in o["vals"]]
        if ext:
            ok = all(value_ok(rep, a, got[3 * t]) and got[3 * t + 1] == 0 and got[3 * t + 2] == 0
                     for t, a in enumerate(orig))
        elif fc.get("dtype") == "float32" and rep == "txt":
            # the text holds the shortest decimal that identifies the float32: same value at that precision
            ok = len(orig) == len(got) and all(value_ok(rep, a, b) or f32(b) == a for a, b in zip(orig, got))
        else:
            ok = len(orig) == len(got) and all(value_ok(rep, a, b) for a, b in zip(orig, got))
        if not ok:
            bad.append("values-" + rep)
    if nv > 1:
        want = fc["vdims"]
        if want is None:
            want = ["x", "y", "z"][:nv] if nv <= 3 else [f"v{i}" for i in range(nv)]
        if o["vdims"] != want:
            bad.append("labels")
    got_subs = {k: ([unhex(x) for x in a], [unhex(x) for x in b]) for k, a, b in o["subs"]}
    want_subs = {k: ([min(unhex(x), unhex(y)) for x, y in zip(a, b)], [max(unhex(x), unhex(y)) for x, y in zip(a, b)])
                 for k, a, b in fc["subs"]}
    if got_subs != want_subs or len(o["subs"]) != len(fc["subs"]):
        bad.append("subregions")
    elif [k for k, _, _ in o["subs"]] != [k for k, _, _ in fc["subs"]]:
        bad.append("subregion-order")          # the order decides which of two overlapping subregions wins
    return bad


def oracle_written(fc, rep, extend, a, first_line):
    """the written file, as decoded by the independent reader"""
    bad = []
    if not first_line.startswith("# OOMMF OVF 2.0") or not a["v2"]:
        bad.append("file-version")
    p1 = [unhex(x) for x in fc["p1"]]
    p2 = [unhex(x) for x in fc["p2"]]
    lo = [min(x, y) for x, y in zip(p1, p2)]
    hi = [max(x, y) for x, y in zip(p1, p2)]
    if a["min"] != lo or a["max"] != hi or a["nodes"] != fc["n"] or a["meshunit"] != (fc.get("munits") or [fc["munit"]])[0]:
        bad.append("file-mesh")
    for d in range(3):
        sc = max(abs(lo[d]), abs(hi[d]), hi[d] - lo[d])
        step = (F(hi[d]) - F(lo[d])) / fc["n"][d]
        if abs(F(a["step"][d]) - step) > F(1, 10 ** 9) * F(sc):
            bad.append("file-stepsize")
        if a["base"] is None or abs(F(a["base"][d]) - (F(lo[d]) + step / 2)) > F(1, 10 ** 9) * F(sc):
            bad.append("file-base")
    nv = fc["nv"]
    ext = extend and nv == 1
    if a["valuedim"] != (3 if ext else nv):
        bad.append("file-valuedim")
    else:
        want = expected_layout(fc, extend)
        got = a["payload"]
        if len(want) != len(got) or not all(value_ok(rep, x, y) for x, y in zip(want, got)):
            bad.append("file-data")
    if a["rep"] != rep:
        bad.append("file-representation")
    if rep != "txt" and a["check"] != CHECK[4 if rep == "bin4" else 8]:
        bad.append("file-check-value")
    if not a["tail_ok"]:
        bad.append("file-footer")
    return sorted(set(bad))


def tags_for(fc, extend):
    tags = []
    if fc["unit"] and any(ch.isspace() for ch in fc["unit"]):
        tags.append(T_UNITWS)
    if fc["nv"] > 1 and fc["vdims"] and any("{" in c or "}" in c for c in fc["vdims"]):
        tags.append(T_BRACES)
    return tags


def coq_representable(fc):
    """inputs whose abstract form the model works on; a unit with (ASCII) white space is modelled
    too: `words` splits the written line into the tokens the reader sees"""
    if fc["unit"] and any(ch.isspace() and ch != " " for ch in fc["unit"]):
        return False
    if fc["vdims"] and any(any(ch.isspace() for ch in c) for c in fc["vdims"]):
        return False
    return strings_ok(fc["vdims"], fc["unit"], fc["munit"])


def rec(kind, case, obs, coq, oracle, key, size, tags=()):
    return dict(kind=kind, case=case, obs=obs, coq=coq or "", oracle=sorted(set(oracle)), key=key, size=int(size),
                tags=list(tags))


def shape_class(n, nv):
    return f"{'1' if min(n) == 1 else 'm'}{'d' if len(set(n)) == 3 else 's'}v{min(nv, 4)}"


def run_round(case):
    fc, rep, extend = case["field"], case["rep"], case["extend"]
    fld = make_field(fc)
    path = newpath()
    before = snapshot(fld)

    def go():
        fld.to_file(patharg(path, fc.get("wpath", "str")), representation=rep, extend_scalar=extend)
        return df.Field.from_file(patharg(path, fc.get("rpath", "str")))
    st, out = attempt(go)
    tags = tags_for(fc, extend)
    # fields whose mesh units differ per axis cannot be stored: rejection is the documented answer
    valid_rep = rep in REPS and len(set(fc.get("munits") or ["m"])) == 1
    untouched = snapshot(fld) == before
    cplx = fc.get("dtype") in ("complex0", "complex")
    oracle = []
    obs = None
    if st == "ok":
        obs = observe_field(out)
        if not valid_rep:
            oracle.append("invalid-write-accepted")
        else:
            if fc.get("dtype") == "complex":
                obs["imag_dropped"] = True          # recorded, not judged
            else:
                oracle += oracle_roundtrip(fc, rep, extend, obs)
    else:
        obs = dict(rejected=out)
        if valid_rep and not cplx:
            oracle.append("roundtrip-rejected")
    if not untouched:
        oracle.append("operand-modified")
    cleanup(path)
    coq = None
    if rep in REPS and not cplx and not (fc.get("dtype") == "float32" and rep == "txt") and coq_representable(fc) and not (obs and "vals" in obs and has_nonfinite(obs["vals"]) and rep != "bin4"):
        inf_ok = rep == "bin4"
        try:
            gobs = "None" if st != "ok" else f"(Some {g_fobs(obs, inf_ok)})"
            coq = f"CRound {g_fin(fc)} {g_rep(rep)} {g.b(extend)} {gobs}"
        except ValueError:
            coq = None
    key = f"round|{rep}|{fc['exact']}|{shape_class(fc['n'], fc['nv'])}|{fc['vcls']}|{extend}|{bool(fc['subs'])}|{fc['unit'] is None}|{st}"
    return rec("round", case, obs, coq, oracle, key, len(fc["vals"]) + 10 * len(tags), tags)


def run_write(case):
    fc, rep, extend = case["field"], case["rep"], case["extend"]
    fld = make_field(fc)
    path = newpath()
    st, out = attempt(lambda: fld.to_file(patharg(path, fc.get("wpath", "str")), representation=rep, extend_scalar=extend))
    tags = tags_for(fc, extend)
    oracle = []
    coq = None
    obs = None
    if st == "ok":
        blob = open(path, "rb").read()
        side = None
        if os.path.exists(path + ".subregions.json"):
            sj = json.load(open(path + ".subregions.json"))
            side = [[k, [fhex(x) for x in v["pmin"]], [fhex(x) for x in v["pmax"]]] for k, v in sj.items()]
        try:
            a = ovf_parse(blob)
        except OvfError as e:
            a = None
            oracle.append("file-not-ovf")
        if a is not None:
            first = blob.split(b"\n", 1)[0].decode("utf-8", errors="replace")
            oracle += oracle_written(fc, rep, extend, a, first)
            want_side = [[k, [fhex(min(unhex(x), unhex(y))) for x, y in zip(p, q)],
                          [fhex(max(unhex(x), unhex(y))) for x, y in zip(p, q)]] for k, p, q in fc["subs"]]
            if (side or []) != want_side:
                oracle.append("file-sidecar")
            obs = dict(version="2.0" if a["v2"] else "1.0", header={k: a[k] for k in
                       ("meshunit", "nodes", "valuedim", "labels", "units", "rep")},
                       base=[fhex(x) for x in a["base"] or []], step=[fhex(x) for x in a["step"]],
                       check=None if a["check"] is None else fhex(a["check"]), npayload=len(a["payload"]),
                       sidecar=side)
            if coq_representable(fc) and not (rep != "bin4" and any(math.isinf(x) or math.isnan(x) for x in a["payload"])) \
                    and a["base"] is not None and strings_ok(a["labels"], a["units"], a["meshunit"]):
                gside = "None" if side is None else f"(Some {g_sidecar(side)})"
                try:
                    coq = (f"CWrite {g.b(fc['exact'])} {g_fin(fc)} {g_rep(rep)} {g.b(extend)} "
                           f"(Some ({g_file(a, rep == 'bin4')}, {gside}))")
                except ValueError:
                    coq = None
    else:
        obs = dict(rejected=out)
        oracle.append("write-rejected")
        if coq_representable(fc):
            coq = f"CWrite {g.b(fc['exact'])} {g_fin(fc)} {g_rep(rep)} {g.b(extend)} None"
    cleanup(path)
    key = f"write|{rep}|{fc['exact']}|{shape_class(fc['n'], fc['nv'])}|{fc['vcls']}|{extend}|{bool(fc['subs'])}|{st}"
    return rec("write", case, obs, coq, oracle, key, len(fc["vals"]) + 10 * len(tags), tags)


def damage(blob, fault):
    """apply a fault to OVF bytes; returns (bytes, must_reject: True/False/None=either)"""
    if fault is None:
        return blob, False
    info = ovf_parse(blob)
    size = 4 if info["rep"] == "bin4" else 8
    ds = info["data_start"]
    de = info["data_end"]
    t = fault["type"]
    def cut(at):
        # damaged unless the complete block is still followed by the end-of-data marker; then the cut only
        # removed trailer text and either answer is admissible (accepted => the right content)
        if at < de:
            return True
        return None if blob[de:at].lstrip().lower().startswith(b"# end: data") else True
    if t == "trunc":
        at = fault["at"]
        return blob[:at], cut(at)
    if t == "trunc_data":
        at = ds + size + int(fault["frac"] * (de - ds - size))
        return blob[:at], cut(at)
    if t == "flip":
        bit = fault["bit"]
        bb = bytearray(blob)
        bb[ds + bit // 8] ^= 1 << (bit % 8)
        return bytes(bb), True
    if t == "short":   # k values missing, footer intact
        k = fault["k"]
        return blob[:de - k * size] + blob[de:], True
    if t == "long":    # extra value before the footer: count values are there, what follows is not the marker
        return blob[:de] + b"\x00" * size * fault["k"] + blob[de:], None
    raise ValueError(t)


def expected_vdims(labels, vd):
    """component labels a reader following the documented convention returns for a foreign file:
    the part after the first '_' (Magnetization_x -> x), words joined by '_', defaults when the file
    has no labels or they are not unique"""
    default = None if vd == 1 else (["x", "y", "z"][:vd] if vd <= 3 else [f"v{i}" for i in range(vd)])
    if labels is None:
        return default
    conv = []
    for t in labels:
        t = t.split("_", 1)[1] if "_" in t else t
        conv.append("_".join(t.replace("{", "").replace("}", "").split()))
    if len(set(conv)) != len(conv):
        return default
    return conv


def run_read(case):
    fault = case.get("fault")
    path = newpath()
    side = None
    if case["src"] == "foreign":
        spec = spec_floats(case["spec"])
        if fault and fault["type"] == "endian":
            blob, must_reject = ovf_write({**spec, "swap_endian": True}), True
        else:
            blob, must_reject = damage(ovf_write(spec), fault)
        content = dict(min=spec["min"], max=spec["max"], nodes=spec["nodes"], vd=3 if spec["version"] == 1 else spec["valuedim"],
                       payload=spec["payload"], rep=spec["rep"], meshunit=spec["meshunit"],
                       units=spec["units"] if spec["version"] == 2 else None,
                       labels=spec["labels"] if spec["version"] == 2 else None)
        label = f"v{spec['version']}|{spec['rep']}|{spec['style']}"
    else:
        fc, rep = case["field"], case["rep"]
        fld = make_field(fc)
        fld.to_file(path, representation=rep)
        blob0 = open(path, "rb").read()
        blob, must_reject = damage(blob0, fault)
        p1 = [unhex(x) for x in fc["p1"]]
        p2 = [unhex(x) for x in fc["p2"]]
        pay = expected_layout(fc, False)
        if rep == "bin4":
            pay = [f32(x) for x in pay]
        content = dict(min=[min(a, b) for a, b in zip(p1, p2)], max=[max(a, b) for a, b in zip(p1, p2)], nodes=fc["n"],
                       vd=fc["nv"], payload=pay, rep=rep, meshunit=fc["munit"],
                       units=[fc["unit"] if fc["unit"] else "None"] * fc["nv"])
        label = f"impl|{rep}"
    with open(path, "wb") as f:
        f.write(blob)
    st, out = attempt(lambda: df.Field.from_file(path))
    cleanup(path)
    oracle = []
    obs = observe_field(out) if st == "ok" else dict(rejected=out)
    if st == "ok":
        if must_reject is True:
            oracle.append("damaged-file-accepted")
        else:
            # accepted: the content must be the writer's
            got = [unhex(x) for x in obs["vals"]]
            n, vd = content["nodes"], content["vd"]
            if [unhex(x) for x in obs["pmin"]] != content["min"] or [unhex(x) for x in obs["pmax"]] != content["max"] \
                    or obs["n"] != n or obs["munits"] != [content["meshunit"]] * 3:
                oracle.append("foreign-mesh")
            if obs["nv"] != vd:
                oracle.append("foreign-component-count")
            else:
                want = []
                pay = content["payload"]
                for i in range(n[0]):
                    for j in range(n[1]):
                        for k in range(n[2]):
                            for c in range(vd):
                                want.append(pay[((k * n[1] + j) * n[0] + i) * vd + c])
                rep_ = "txt" if content["rep"] == "txt" else "bin8"   # bin4 payloads are already float32 values
                if len(want) != len(got) or not all(value_ok(rep_, a, b) for a, b in zip(want, got)):
                    oracle.append("foreign-data")
            u_ = content["units"]
            want_unit = u_[0] if (u_ and len(set(u_)) == 1 and u_[0] != "None") else None
            if obs["unit"] != want_unit:
                oracle.append("foreign-unit")
            if "labels" in content and obs["nv"] == vd and obs["vdims"] != expected_vdims(content["labels"], vd):
                oracle.append("foreign-labels")
    else:
        if must_reject is False:
            oracle.append("valid-file-rejected")
    # abstract file for the model
    coq = None
    try:
        a = ovf_parse(blob)
    except OvfError:
        a = None
    either = must_reject is None
    if a is not None and a["meshunit"] is not None and strings_ok(a["labels"], a["units"], a["meshunit"]) \
            and not (either and st != "ok") \
            and not any(math.isnan(x) or math.isinf(x) for x in a["payload"]):
        gobs = "None" if st != "ok" else None
        try:
            if gobs is None:
                gobs = f"(Some {g_fobs(obs)})"
            coq = f"CRead {g_file(a)} None {gobs}"
        except ValueError:
            coq = None
    tags = []
    ftype = "none" if not fault else fault["type"]
    region = ""
    if fault and fault["type"] == "trunc" and a is not None:
        region = "hdr" if fault["at"] < a["data_start"] else ("data" if must_reject else "footer")
    key = f"read|{label}|{ftype}|{region}|{st}|{case.get('spec', {}).get('valuedim', '')}"
    return rec("read" if not fault else "fault", case, obs if st != "ok" else dict(accepted=True, n=obs["n"], nv=obs["nv"],
               vdims=obs["vdims"], unit=obs["unit"]), coq, oracle, key, len(blob) // 8, tags)


def run_sample(case):
    path = os.path.join(REPO, "discretisedfield", "tests", "test_sample", case["file"])
    blob = open(path, "rb").read()
    oracle = []
    st, out = attempt(lambda: df.Field.from_file(path))
    try:
        a = ovf_parse(blob)
    except OvfError:
        a = None
    obs = dict(status=st)
    coq = None
    if a is None:
        return rec("sample", case, obs, None, [], f"sample|{case['file']}|unparsed", 1)
    if st != "ok":
        oracle.append("valid-file-rejected")
    else:
        o = observe_field(out)
        n, vd = a["nodes"], a["vd"]
        obs.update(n=o["n"], nv=o["nv"], vdims=o["vdims"], unit=o["unit"])
        if [unhex(x) for x in o["pmin"]] != [min(x, y) for x, y in zip(a["min"], a["max"])] or o["n"] != n:
            oracle.append("foreign-mesh")
        if o["nv"] != vd:
            oracle.append("foreign-component-count")
        else:
            got = np.array([unhex(x) for x in o["vals"]]).reshape(n[0], n[1], n[2], vd)
            want = np.array(a["payload"][:a["count"]]).reshape(n[2], n[1], n[0], vd).transpose(2, 1, 0, 3)
            if a["rep"] == "txt":
                ok = bool(np.all(np.abs(got - want) <= 1e-9 * np.abs(want)))
            else:
                ok = bool(np.array_equal(got.view(np.uint64), np.ascontiguousarray(want).view(np.uint64)))
            if not ok:
                oracle.append("foreign-data")
        if a["count"] <= 1500 and strings_ok(a["labels"], a["units"], a["meshunit"]) and a["meshunit"] is not None \
                and not any(math.isnan(x) or math.isinf(x) for x in a["payload"]):
            a2 = dict(a)
            a2["payload"] = a["payload"][:a["count"]] if a["rep"] == "txt" else a["payload"]
            coq = f"CRead {g_file(a2)} None (Some {g_fobs(o)})"
    return rec("sample", case, obs, coq, oracle, f"sample|{case['file']}", a["count"])


def post_state(fld, template):
    """the field as it reports itself now, in the case format"""
    m = fld.mesh
    return dict(exact=False, p1=[fhex(x) for x in m.region.pmin], p2=[fhex(x) for x in m.region.pmax],
                n=[int(k) for k in m.n], munit=str(m.region.units[0]),
                subs=[[k, [fhex(x) for x in r.pmin], [fhex(x) for x in r.pmax]] for k, r in m.subregions.items()],
                nv=int(fld.nvdim), vdims=None if fld.vdims is None else list(fld.vdims), unit=fld.unit,
                vals=[fhex(x) for x in np.asarray(fld.array, dtype=np.float64).reshape(-1).tolist()],
                vcls="state")


def use_mesh(mesh):
    _ = (mesh.cell, mesh.dV, len(mesh), mesh.index2point((0, 0, 0)), mesh.point2index(mesh.region.center))
    next(iter(mesh))


def write_read(fld, path, rep, wpath="str", rpath="str"):
    fld.to_file(patharg(path, wpath), representation=rep)
    return df.Field.from_file(patharg(path, rpath))


def check_file(fc, rep, path):
    try:
        blob = open(path, "rb").read()
        a = ovf_parse(blob)
    except (OSError, OvfError):
        return ["file-not-ovf"]
    return oracle_written(fc, rep, False, a, blob.split(b"\n", 1)[0].decode("utf-8", errors="replace"))


def read_sidecar(path):
    """the side-car next to `path` as [[name, pmin, pmax], ...] or None when there is no file"""
    sp = path + ".subregions.json"
    if not os.path.exists(sp):
        return None
    sj = json.load(open(sp))
    return [[k, [fhex(x) for x in v["pmin"]], [fhex(x) for x in v["pmax"]]] for k, v in sj.items()]


def run_state(case):
    scen, rep = case["scen"], case["rep"]
    oracle, tags, coq = [], [], None
    obs = {}
    d = tempfile.mkdtemp(prefix="st_", dir=TMP)
    if scen in ("inplace", "meshrot"):
        fc = case["field"]

        def go():
            if scen == "meshrot":
                mesh = make_mesh(fc)
                use_mesh(mesh)
                a1, a2, k = case["rot"]
                mesh.rotate90(a1, a2, k=k, inplace=True)
                arr = np.array([unhex(x) for x in fc["vals"]]).reshape(*[int(q) for q in mesh.n], fc["nv"])
                fld = df.Field(mesh, nvdim=fc["nv"], value=arr, vdims=fc["vdims"], unit=fc["unit"])
            else:
                fld = make_field(fc)
                use_mesh(fld.mesh)
                _ = fld.norm if fc["nv"] > 1 else abs(fld)
                first = write_read(fld, os.path.join(d, "first.ovf"), rep)      # the operation itself, before
                obs["first"] = oracle_roundtrip(fc, rep, False, observe_field(first))
                for op in case["ops"]:
                    if op[0] == "translate":
                        fld.mesh.translate([unhex(x) for x in op[1]], inplace=True)
                    elif op[0] == "scale":
                        fld.mesh.scale([unhex(x) for x in op[1]], inplace=True)
                    elif op[0] == "rtranslate":
                        fld.mesh.region.translate([unhex(x) for x in op[1]], inplace=True)
                    elif op[0] == "rscale":
                        fld.mesh.region.scale(unhex(op[1]), inplace=True)
                    elif op[0] == "frot":
                        fld.rotate90(op[1], op[2], k=op[3], inplace=True)
                    elif op[0] == "setvalid":
                        r_ = np.random.RandomState(op[1])
                        fld.valid = r_.rand(*fld.array.shape[:3]) < 0.5
                    elif op[0] == "arraywrite":
                        fld.array[...] *= 2.0
                        fld.array[0, 0, 0, 0] = 7.5
            fc2 = post_state(fld, fc)
            before = snapshot(fld)
            path = os.path.join(d, "first.ovf")       # same name as the earlier save
            out = write_read(fld, path, rep)
            return fc2, observe_field(out), snapshot(fld) == before, check_file(fc2, rep, path)
        st, out = attempt(go)
        if st != "ok":
            oracle.append("roundtrip-rejected")
            obs["rejected"] = out
        else:
            fc2, o, same, fbad = out
            oracle += obs.pop("first", [])
            oracle += oracle_roundtrip(fc2, rep, False, o) + fbad
            if not same:
                oracle.append("operand-modified")
            obs.update(post=dict(p1=fc2["p1"], p2=fc2["p2"], n=fc2["n"]), back=dict(pmin=o["pmin"], pmax=o["pmax"], n=o["n"]))
            if coq_representable(fc2) and not has_nonfinite(o["vals"]):
                try:
                    coq = f"CRound {g_fin(fc2)} {g_rep(rep)} false (Some {g_fobs(o, rep == 'bin4')})"
                except ValueError:
                    coq = None
        key = f"state|{scen}|{rep}|{'+'.join(op[0] for op in case.get('ops', []))}|{bool(fc['subs'])}|{st}"
    else:
        f1, f2 = case["field"], case["field2"]
        wp = case.get("wpath", "str")

        def go():
            A, B = make_field(f1), make_field(f2)
            sa, sb = snapshot(A), snapshot(B)
            bad = []
            if scen == "repeat":
                P, Q = os.path.join(d, "a.ovf"), os.path.join(d, "b.ovf")
                ra = write_read(A, P, rep, wp)
                bytes1 = open(P, "rb").read()
                rb = write_read(B, Q, rep, wp)
                bad += oracle_roundtrip(f1, rep, False, observe_field(ra)) + oracle_roundtrip(f2, rep, False, observe_field(rb))
                A.to_file(patharg(P, wp), representation=rep)
                if open(P, "rb").read() != bytes1:
                    bad.append("repeated-write-differs")
                r1, r2 = df.Field.from_file(P), df.Field.from_file(P)
                if observe_field(r1) != observe_field(r2) or observe_field(r1) != observe_field(ra):
                    bad.append("repeated-read-differs")
                rb2 = write_read(B, P, rep, wp)          # overwrite the same name with other content
                bad += oracle_roundtrip(f2, rep, False, observe_field(rb2)) + check_file(f2, rep, P)
            elif scen == "stems":
                e1, e2 = case["exts"]
                P, Q = os.path.join(d, "same." + e1), os.path.join(d, "same." + e2)
                A.to_file(patharg(P, wp), representation=rep)
                B.to_file(patharg(Q, wp), representation=rep)
                bad += oracle_roundtrip(f1, rep, False, observe_field(df.Field.from_file(P)))
                bad += oracle_roundtrip(f2, rep, False, observe_field(df.Field.from_file(Q)))
                obs["files"] = sorted(os.listdir(d))
            else:  # stale: what is on disk at that name before the save
                P = os.path.join(d, "t.ovf")
                var = case.get("variant") or "over"
                save2 = var != "nosave"
                before = None
                if var != "fresh_none":
                    A.to_file(patharg(P, wp), representation=rep)
                    before = read_sidecar(P)
                    raw_before = open(P + ".subregions.json", "rb").read()
                    B.to_file(patharg(P, wp), representation=rep, save_subregions=save2)
                else:
                    A.to_file(patharg(P, wp), representation=rep, save_subregions=False)   # nothing created
                    if os.path.exists(P + ".subregions.json"):
                        bad.append("file-sidecar")
                    B.to_file(patharg(P, wp), representation=rep)
                after = read_sidecar(P)
                obs["sidecar"] = dict(before=before, after=after, save=save2)
                want_b = [[k, [fhex(min(unhex(x), unhex(y))) for x, y in zip(p_, q_)],
                           [fhex(max(unhex(x), unhex(y))) for x, y in zip(p_, q_)]] for k, p_, q_ in f2["subs"]]
                # contract: written iff save and (subregions or a side-car was there); content = the saved field's
                if not save2:
                    want_after = before
                    if open(P + ".subregions.json", "rb").read() != raw_before:
                        bad.append("file-sidecar")
                elif want_b or before is not None:
                    want_after = want_b
                else:
                    want_after = None
                if after != want_after:
                    bad.append("file-sidecar")
                o = observe_field(df.Field.from_file(P))
                expect = dict(f2)
                if not save2:
                    expect["subs"] = f1["subs"]        # the disk was left alone: the reader finds A's table
                bad += oracle_roundtrip(expect, rep, False, o) + check_file(f2, rep, P)
                obs["coq"] = (f"CSidecar {'None' if before is None else '(Some ' + g_sidecar(before) + ')'} {g.b(save2)} "
                              f"{g_sidecar(want_b)} {'None' if after is None else '(Some ' + g_sidecar(after) + ')'}")
            if snapshot(A) != sa or snapshot(B) != sb:
                bad.append("operand-modified")
            return bad
        st, out = attempt(go)
        if st != "ok":
            oracle.append("roundtrip-rejected")
            obs["rejected"] = out
        else:
            oracle += out
        coq = obs.pop("coq", None)
        key = f"state|{scen}|{case.get('variant')}|{rep}|{bool(f2['subs'])}|{st}"
    shutil.rmtree(d, ignore_errors=True)
    return rec("state", case, obs, coq, oracle, key, 50 + len(case["field"]["vals"]), tags)


def run_big(case):
    """large field: independent struct decoder (announced count == values present, every value, check value)
    and the library's own reader; values (arange - 7) / 2 are exact in float32"""
    n, nv, rep_, extend = case["n"], case["nv"], case["rep"], case["extend"]
    cells = n[0] * n[1] * n[2]
    arr = ((np.arange(cells * nv, dtype=np.float64) - 7.0) * 0.5).reshape(*n, nv)
    mesh = df.Mesh(p1=(0, 0, 0), p2=tuple(float(k) for k in n), n=n)
    fld = df.Field(mesh, nvdim=nv, value=arr, vdims=None if nv <= 3 else [f"c{i}" for i in range(nv)])
    path = newpath()
    oracle = []
    obs = dict(n=n, vd=case["vd"], total=case["total"], chunk=case["chunk"], chunk_src=case["chunk_src"])
    st, out = attempt(lambda: fld.to_file(path, representation=rep_, extend_scalar=extend))
    if st != "ok":
        oracle.append("write-rejected")
        obs["rejected"] = out
    else:
        want = arr.transpose(2, 1, 0, 3).reshape(cells, nv)
        if extend:
            want = np.concatenate([want, np.zeros((cells, 2))], axis=1)
        want = want.reshape(-1)
        try:
            a = ovf_parse(open(path, "rb").read())
        except OvfError:
            a = None
            oracle.append("file-not-ovf")
        if a is not None:
            obs.update(announced=a["count"], present=len(a["payload"]), tail_ok=a["tail_ok"])
            if a["nodes"] != n or a["valuedim"] != case["vd"] or a["count"] != len(want):
                oracle.append("file-mesh")
            if rep_ != "txt" and a["check"] != CHECK[4 if rep_ == "bin4" else 8]:
                oracle.append("file-check-value")
            if len(a["payload"]) != a["count"] or not a["tail_ok"]:
                oracle.append("file-data-short")
            elif not np.array_equal(np.array(a["payload"], dtype=np.float64), want):
                oracle.append("file-data")
        st2, back = attempt(lambda: df.Field.from_file(path))
        if st2 != "ok":
            oracle.append("roundtrip-rejected")
            obs["read_rejected"] = back
        else:
            exp = arr if not extend else np.concatenate([arr, np.zeros((*n, 2))], axis=3)
            if [int(k) for k in back.mesh.n] != n or back.nvdim != case["vd"]:
                oracle.append("cell-counts")
            elif not np.array_equal(back.array, exp):
                oracle.append("values-" + rep_)
    cleanup(path)
    key = f"big|{rep_}|vd{case['vd']}|k{case['k']}|d{case['delta']}|{extend}|{st}"
    return rec("big", case, obs, None, oracle, key, case["total"])


def run_case(case):
    with warnings.catch_warnings():
        warnings.simplefilter("ignore")
        with np.errstate(all="ignore"):
            k = case["kind"]
            if k == "round":
                return run_round(case)
            if k == "write":
                return run_write(case)
            if k == "read":
                return run_read(case)
            if k == "sample":
                return run_sample(case)
            if k == "state":
                return run_state(case)
            if k == "big":
                return run_big(case)
    raise ValueError(case["kind"])


def decode_case(c):
    return c


def stats(records):
    out = {}
    for r in records:
        k = r["kind"] + ("/accepted" if not (isinstance(r["obs"], dict) and "rejected" in r["obs"]) else "/rejected")
        out[k] = out.get(k, 0) + 1
    out["coq_cases"] = sum(1 for r in records if r.get("coq"))
    out["oracle_only"] = sum(1 for r in records if not r.get("coq"))
    out["tagged"] = sum(1 for r in records if r.get("tags"))
    shutil.rmtree(TMP, ignore_errors=True)
    return out
