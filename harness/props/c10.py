"""C10 — HDF5 files preserve the complete state of a field.

Case kinds
  round    build a field from a recipe, snapshot its state, write it with Field.to_file, walk the
           file with an independent h5py reader, read it back with Field.from_file, snapshot again.
           Coq: model writer(state) = file view  and  model reader(file view) = read-back state.
           Oracle: the property text, attribute by attribute, on the two Python objects.
  foreign  a file in the current ("0.1") layout written by this module's own h5py writer (from the
           layout description, not through the repository), well-formed or with one malformed
           entry; read with Field.from_file.  Coq: model reader(file) = read-back state / rejection.
  legacy   a file in the pre-version layout (p1, p2, n, dim, array + optional json side-car)
           written by this module; read with Field.from_file.
"""
import json
import math
import os
import random
import struct
import tempfile
from fractions import Fraction as F

import h5py
import numpy as np

from harness import gallina as g
from harness.util import import_df, attempt

df = import_df()

TMP = tempfile.mkdtemp(prefix="c10_")

# Known finding C10-unit-marker (known_findings.json): a unit whose text is literally 'None' collides with
# the marker written for unit-less fields.  The model is faithful there (Coq witness
# C10_roundtrip_unit_marker_refuted); the oracle flags exactly those cases (clause "unit") under the tag.
# rc["limit"] also labels two former limits that were repaired in the reader (66ed56c8: payload dtype kept,
# 8f3270c2: label-less vectors stay label-less); they are ordinary cases now, the label only feeds the case key.
KNOWN_UNIT_MARKER = "C10-unit-marker"
TWO53 = 2 ** 53


# ------------------------------------------------------------------ exact encodings
def S(x):
    return g.qs(x)


def dyadic(fr):
    """canonical (m, e) with |fr| = m * 2**e, m odd (or m = e = 0)"""
    fr = abs(F(fr))
    if fr == 0:
        return 0, 0
    n, d = fr.numerator, fr.denominator
    if d > 1:
        assert d & (d - 1) == 0, "not a dyadic rational"
        return n, -(d.bit_length() - 1)
    e = (n & -n).bit_length() - 1
    return n >> e, e


def enc_num(x):
    """exact encoding of one real scalar: ['F', signbit, m, e] (value m * 2**e) | ['I', signbit] | ['N']"""
    if isinstance(x, (bool, np.bool_)):
        return ["F", False, *dyadic(int(x))]
    if isinstance(x, (int, np.integer)):
        return ["F", bool(x < 0), *dyadic(int(x))]
    x = float(x)
    if math.isnan(x):
        return ["N"]
    if math.isinf(x):
        return ["I", x < 0]
    return ["F", math.copysign(1.0, x) < 0, *dyadic(F(x))]


def num_value(e):
    """Fraction value of a finite encoded number (sign applied)"""
    v = F(e[2]) * F(2) ** e[3]
    return -v if e[1] else v


def enc_vals(arr):
    """C-order list of [re, im] encodings of an ndarray (any real / complex dtype)"""
    a = np.asarray(arr)
    flat = a.reshape(-1)
    if a.dtype.kind == "c":
        return [[enc_num(v.real), enc_num(v.imag)] for v in flat.tolist()]
    if a.dtype.kind == "f" and a.dtype.itemsize > 8:
        raise TypeError("extended precision payloads are outside the checked domain")
    zero = ["F", False, 0, 0]
    return [[enc_num(v), zero] for v in flat.tolist()]


def ckind(a):
    k = np.asarray(a).dtype.kind
    return "i" if k in "biu" else ("f" if k == "f" else "?")


def dkind(a):
    k = np.asarray(a).dtype.kind
    return "i" if k in "biu" else ("f" if k == "f" else ("c" if k == "c" else "?"))


def qlist(a):
    return [S(x) for x in np.asarray(a).reshape(-1).tolist()]


def region_state(r):
    return dict(ck="f" if "f" in (ckind(r.pmin), ckind(r.pmax)) else ckind(r.pmin),
                pmin=qlist(r.pmin), pmax=qlist(r.pmax), dims=[str(d) for d in r.dims],
                units=[str(u) for u in r.units], tf=S(r.tolerance_factor))


def state_of(f):
    """the complete state of a field, attribute by attribute (JSON-safe, exact)"""
    m = f.mesh
    st = region_state(m.region)
    st.update(
        n=[int(k) for k in m.n], bc=m.bc,
        subs=[dict(name=name, **region_state(sr)) for name, sr in m.subregions.items()],
        nvdim=int(f.nvdim), vdims=None if f.vdims is None else [str(v) for v in f.vdims],
        unit=f.unit, dk=dkind(f.array), dtype=str(f.array.dtype), shape=list(f.array.shape),
        vals=enc_vals(f.array), valid=[bool(b) for b in np.asarray(f.valid).reshape(-1).tolist()],
        valid_dtype=str(np.asarray(f.valid).dtype), vshape=list(np.asarray(f.valid).shape))
    return st


# ------------------------------------------------------------------ Gallina printers
def c_ck(k):
    return {"i": "KInt", "f": "KFloat"}[k]


def c_dk(k):
    return {"i": "DInt", "f": "DFloat", "c": "DComplex"}[k]


def c_num(e):
    if e[0] == "N":
        return "NaN"
    if e[0] == "I":
        return f"(Inf {g.b(e[1])})"
    return f"(Fin {g.b(e[1])} {g.z(e[2])} {g.z(e[3])})"


ZERO = ["F", False, 0, 0]


def c_val(v):
    re, im = v
    if im == ZERO:
        if re[0] == "F":
            return f"{'rn' if re[1] else 'rp'} {g.z(re[2])} {g.z(re[3])}"
        return f"rv {c_num(re)}"
    return f"({c_num(re)}, {c_num(im)})"


def c_vals(vs):
    return "[" + "; ".join(c_val(v) for v in vs) + "]"


def c_str(s):
    return g.s(s)


def c_strs(l):
    return g.lst(l, c_str)


def c_region(r):
    return f"(mkRegion {g.ql(r['pmin'])} {g.ql(r['pmax'])} {c_strs(r['dims'])} {c_strs(r['units'])} {g.q(r['tf'])})"


def c_state(st):
    # subregions are a name -> box map: emitted sorted by name (state, file view and read-back alike), so a
    # consistent change of the dict order is not a disagreement while a wrong name <-> box pairing is
    ss = sorted(st["subs"], key=lambda q: q["name"])
    subs = "[" + "; ".join(f"({c_str(q['name'])}, {c_region(q)})" for q in ss) + "]"
    subk = "[" + "; ".join(c_ck(q["ck"]) for q in ss) + "]"
    mesh = f"(mkMesh {c_region(st)} {g.zl(st['n'])} {c_str(st['bc'])} {subs})"
    vd = g.opt(st["vdims"], c_strs)
    un = g.opt(st["unit"], c_str)
    return (f"(mkF {c_ck(st['ck'])} {mesh} {subk} {g.z(st['nvdim'])} {vd} {un} {c_dk(st['dk'])} "
            f"{c_vals(st['vals'])} {g.bl(st['valid'])})")


def c_view(v):
    r = v["reg"]
    reg = (f"(mkH5Reg {c_ck(r['ck'])} {g.ql(r['pmin'])} {g.ql(r['pmax'])} {c_strs(r['dims'])} "
           f"{g.z(r['ndim'])} {c_strs(r['units'])} {g.q(r['tf'])})")
    if v["subs"] is None:
        subs = "None"
    else:
        s = v["subs"]
        names, rows = s["names"], s["rows"]
        if len(names) == len(rows) and len(set(names)) == len(names):
            pairs = sorted(zip(names, rows), key=lambda q: q[0])
            names, rows = [q[0] for q in pairs], [q[1] for q in pairs]
        subs = f"(Some ({c_strs(names)}, ({c_ck(s['tk'])}, {g.qll(rows)})))"
    vd = f"(AStr {c_str(v['vdims'])})" if isinstance(v["vdims"], str) else f"(AStrs {c_strs(v['vdims'])})"
    return (f"(mkH5 {c_str(v['type'])} {c_str(v['version'])} {reg} {g.zl(v['n'])} {c_str(v['bc'])} {subs} "
            f"{g.z(v['nvdim'])} {vd} {c_str(v['unit'])} {c_dk(v['dk'])} {g.zl(v['shape'])} {c_vals(v['vals'])} "
            f"{g.zl(v['vshape'])} {g.bl(v['valid'])})")


def c_legacy(l):
    if l["side"] is None:
        side = "None"
    else:
        side = "(Some [" + "; ".join(
            f"(mkSide {c_str(s['name'])} {c_ck(s['ck'])} {g.ql(s['pmin'])} {g.ql(s['pmax'])} "
            f"{c_strs(s['dims'])} {c_strs(s['units'])} {g.q(s['tf'])})"
            for s in sorted(l["side"], key=lambda q: q["name"])) + "])"
    return (f"(mkLeg {c_ck(l['ck1'])} {g.ql(l['p1'])} {c_ck(l['ck2'])} {g.ql(l['p2'])} {g.zl(l['n'])} "
            f"{g.z(l['dim'])} {c_dk(l['dk'])} {g.zl(l['shape'])} {c_vals(l['vals'])} {side})")


def printable(st):
    """can every string of the state be written as a Gallina string literal?"""
    strs = list(st.get("dims", [])) + list(st.get("units", [])) + [st.get("bc", "")]
    strs += [s["name"] for s in st.get("subs", [])]
    strs += list(st.get("vdims") or []) + ([st["unit"]] if st.get("unit") is not None else [])
    return all('"' not in s for s in strs)


# ------------------------------------------------------------------ independent h5py walk
def _txt(x):
    return x.decode("utf-8") if isinstance(x, bytes) else str(x)


def view_file(path):
    """what is in the file, by h5py alone (no repository code).  None if the layout is different."""
    try:
        with h5py.File(path, "r") as h:
            fld = h["field"]
            mesh = fld["mesh"]
            ra = mesh["region"].attrs
            reg = dict(ck="f" if "f" in (ckind(ra["pmin"]), ckind(ra["pmax"])) else ckind(ra["pmin"]),
                       pmin=qlist(ra["pmin"]), pmax=qlist(ra["pmax"]),
                       dims=[_txt(d) for d in np.atleast_1d(ra["dims"]).tolist()],
                       ndim=int(ra["ndim"]) if "ndim" in ra else len(ra["pmin"]),   # redundant entry
                      
                       units=[_txt(u) for u in np.atleast_1d(ra["units"]).tolist()], tf=S(ra["tolerance_factor"]))
            subs = None
            if "subregions" in mesh:
                tab = mesh["subregions"]
                subs = dict(names=[_txt(x) for x in mesh["subregion_names"][()].tolist()], tk=ckind(tab),
                            rows=[qlist(row) for row in tab[()]])
            vd = fld.attrs["vdims"]
            vd = vd if isinstance(vd, str) else [_txt(x) for x in np.atleast_1d(vd).tolist()]
            arr = fld["array"]
            val = fld["valid"]
            return dict(type=_txt(h.attrs["type"]), version=_txt(h.attrs["ubermag-hdf5-file-version"]),
                        reg=reg, n=[int(k) for k in mesh.attrs["n"]], bc=_txt(mesh.attrs["bc"]), subs=subs,
                        nvdim=int(fld.attrs["nvdim"]), vdims=vd, unit=_txt(fld.attrs["unit"]),
                        dk=dkind(arr), dtype=str(arr.dtype), shape=list(arr.shape), vals=enc_vals(arr[()]),
                        vshape=list(val.shape), valid=[bool(b) for b in np.asarray(val[()]).reshape(-1).tolist()],
                        valid_dtype=str(val.dtype))
    except (KeyError, ValueError, TypeError, OSError):
        return None


# ------------------------------------------------------------------ independent writers
def _nums(qs_, kind):
    xs = [F(x) for x in qs_]
    return np.array([int(x) for x in xs], dtype=np.int64) if kind == "i" else np.array([float(x) for x in xs])


def dec_num(e):
    if e[0] == "N":
        return float("nan")
    if e[0] == "I":
        return -math.inf if e[1] else math.inf
    x = num_value(e)
    if x == 0:
        return -0.0 if e[1] else 0.0
    return float(x)


def dec_vals(vals, dk, shape, dtype=None):
    if dk == "c":
        a = np.array([complex(dec_num(r), dec_num(i)) for r, i in vals], dtype=dtype or np.complex128)
    elif dk == "i":
        a = np.array([int(num_value(r)) for r, _ in vals], dtype=dtype or np.int64)
    else:
        a = np.array([dec_num(r) for r, _ in vals], dtype=dtype or np.float64)
    return a.reshape(shape)


def write_view(path, v):
    """current layout, written from its description: root attributes, field/mesh/region attributes,
    field/mesh attributes + optional subregion datasets, field attributes, array, valid"""
    with h5py.File(path, "w") as h:
        h.attrs["ubermag-hdf5-file-version"] = v["version"]
        h.attrs["discretisedfield.__version__"] = "0.90.0"
        h.attrs["file-creation-time-UTC"] = "2024-01-01T00:00:00+00:00"
        h.attrs["type"] = v["type"]
        fld = h.create_group("field")
        mesh = fld.create_group("mesh")
        reg = mesh.create_group("region")
        r = v["reg"]
        reg.attrs["pmin"] = _nums(r["pmin"], r["ck"])
        reg.attrs["pmax"] = _nums(r["pmax"], r["ck"])
        reg.attrs["dims"] = list(r["dims"])
        reg.attrs["ndim"] = r["ndim"]
        reg.attrs["units"] = list(r["units"])
        reg.attrs["tolerance_factor"] = float(F(r["tf"]))
        mesh.attrs["n"] = np.array(v["n"], dtype=np.int64)
        mesh.attrs["bc"] = v["bc"]
        if v["subs"] is not None:
            s = v["subs"]
            mesh.create_dataset("subregion_names", data=[x.encode("utf-8") for x in s["names"]],
                                dtype=h5py.string_dtype())
            mesh.create_dataset("subregions", data=np.array([_nums(row, s["tk"]) for row in s["rows"]]))
        fld.attrs["nvdim"] = v["nvdim"]
        fld.attrs["vdims"] = v["vdims"] if isinstance(v["vdims"], str) else list(v["vdims"])
        fld.attrs["unit"] = v["unit"]
        fld.create_dataset("array", data=dec_vals(v["vals"], v["dk"], v["shape"], v.get("np_dtype")))
        fld.create_dataset("valid", data=np.array(v["valid"], dtype=np.bool_).reshape(v["vshape"]))


def write_legacy(path, l):
    with h5py.File(path, "w") as h:
        h.create_dataset("field/mesh/region/p1", data=_nums(l["p1"], l["ck1"]))
        h.create_dataset("field/mesh/region/p2", data=_nums(l["p2"], l["ck2"]))
        h.create_dataset("field/mesh/n", data=np.array(l["n"], dtype=np.int64))
        h.create_dataset("field/dim", data=l["dim"])
        h.create_dataset("field/array", data=dec_vals(l["vals"], l["dk"], l["shape"]))
    side = path + ".subregions.json"
    if os.path.exists(side):
        os.remove(side)
    if l["side"] is not None:
        def js_nums(qs_, kind):
            return [int(F(x)) if kind == "i" else float(F(x)) for x in qs_]
        json.dump({s["name"]: dict(pmin=js_nums(s["pmin"], s["ck"]), pmax=js_nums(s["pmax"], s["ck"]),
                                   dims=s["dims"], units=s["units"], tolerance_factor=float(F(s["tf"])))
                   for s in l["side"]}, open(side, "w"))


def file_of_state(st):
    """the current layout for a given state (this module's reading of the layout description)"""
    kinds = [st["ck"]] + [s["ck"] for s in st["subs"]]
    tk = "f" if "f" in kinds else "i"
    subs = None
    if st["subs"]:
        subs = dict(names=[s["name"] for s in st["subs"]], tk=tk,
                    rows=[s["pmin"] + s["pmax"] for s in st["subs"]])
    return dict(type="discretisedfield.Field", version="0.1",
                reg=dict(ck=st["ck"], pmin=st["pmin"], pmax=st["pmax"], dims=st["dims"], ndim=len(st["pmin"]),
                         units=st["units"], tf=st["tf"]),
                n=list(st["n"]), bc=st["bc"], subs=subs, nvdim=st["nvdim"],
                vdims="None" if st["vdims"] is None else st["vdims"],
                unit="None" if st["unit"] is None else st["unit"],
                dk=st["dk"], shape=st["n"] + [st["nvdim"]], vals=list(st["vals"]), vshape=list(st["n"]), valid=list(st["valid"]))


# ------------------------------------------------------------------ recipes
DIM1 = list("xyzabcuvwtrsn")
DIMN = ["x0", "x1", "len", "ρ", "φ", "θ", "my dim", "X", "Y", "V", "N", "k_x", "k_y", "k_z", "xx", "xy"]
UNITS = ["m", "nm", "µm", "s", "", "rad", "1/m", "Å", "m", "m"]
VDIMS = ["a", "b", "c", "d", "e", "mx", "my", "mz", "c0", "c1", "ψ", "re_part", "v 1", "x", "y", "z", "None", "",
         "m", "mxx", "a1", "a12", "V", "r"]
FUNITS = [None, None, None, "A/m", "T", "", "J/m³", "µT", "none", "NONE", " None", "None ", "A/m", "None", "T", "A/m"]
SNAMES = ["sr1", "sr2", "bottom", "top", "default", "ü", "a b", "r0", "r1", "r2", "None", "x"]
DTYPES = ["float64"] * 8 + ["float32", "float16", "complex128", "complex128", "complex64", "int64", "int32", "int8",
                            "uint8", "uint64", "bool"]
SCALES = [1e-9, 1e-6, 1e-3, 1.0, 1e3]


def gen_round(rng, tier, force=None):
    force = force or {}
    nd = force.get("nd") or rng.choice([1, 1, 2, 2, 3, 3, 3, 4])
    cap = 48 if tier == "quick" else 120
    while True:
        n = [rng.randint(1, 4 if tier == "quick" else 6) for _ in range(nd)]
        if rng.random() < 0.5:
            n = [k + (k % 2) if rng.random() < 0.7 else k for k in n]
        if force.get("frac"):
            n = [2 * rng.randint(1, 2) for _ in range(nd)]
        if math.prod(n) <= cap:
            break
    ck = force.get("ck") or rng.choice(["i", "f"])
    regime = "dyadic"
    lo, cell = [], []
    if ck == "i":
        big = rng.random() < 0.15
        for k in n:
            dens = [d for d in (1, 2, 4) if k % d == 0]
            c = F(rng.randint(1, 5), rng.choice(dens))
            if rng.random() < 0.6:
                c = F(rng.randint(1, 5))
            if force.get("frac"):
                c = F(rng.choice([1, 3, 5]), 2)         # n even: integral edges, half-integral cell faces
            cell.append(c)
            lo.append(F(rng.randint(-10 ** 12, 10 ** 12) if big else rng.randint(-20, 20)))
    else:
        regime = rng.choice(["dyadic", "dyadic", "scale", "extreme"])
        if force.get("geo"):
            regime = "dyadic"
        if regime == "extreme":        # tiny / huge magnitudes: any absolute tolerance or narrow dtype shows
            regime = "dyadic"
            sc = F(2) ** rng.choice([-200, -120, -60, 60, 120, 300])
            for k in n:
                cell.append(F(rng.choice([1, 3, 5, 7]), 2 ** rng.randint(0, 4)) * sc)
                lo.append(F(rng.randint(-256, 256), 8) * sc)
        elif regime == "dyadic":
            for k in n:
                cell.append(F(rng.choice([1, 3, 5, 7]), 2 ** rng.randint(0, 4)))
                lo.append(F(rng.randint(-256, 256), 8))
        else:
            s = rng.choice(SCALES)
            for k in n:
                cell.append(F(round(rng.uniform(0.5, 9.5), 1) * s))
                lo.append(F(rng.choice([0.0, round(rng.uniform(-50, 50), 1)]) * s))
    flip = [rng.random() < 0.3 for _ in range(nd)]
    # names
    single = rng.random() < 0.7
    dims = None
    if rng.random() < 0.6:
        dims = rng.sample(DIM1, nd) if single else rng.sample(DIM1 + DIMN, nd)
    units = None if rng.random() < 0.4 else [rng.choice(UNITS) for _ in range(nd)]
    tf = None
    if rng.random() < 0.5:
        tf = rng.choice(["1/1000000000", "1/1000", "1/2", S(1e-9), S(1e-6), S(3e-12), "int:0", "int:1", S(1e-12)])
    if force.get("geo") and rng.random() < 0.7:
        tf = rng.choice([None, None, S(1e-9), S(1e-6)])
    eff_dims = dims if dims is not None else (["x", "y", "z"][:nd] if nd <= 3 else [f"x{i}" for i in range(nd)])
    letters = [d for d in eff_dims if len(d) == 1 and d == d.lower()]
    bc = rng.choice(["", "", "neumann", "dirichlet", "Neumann", "DIRICHLET", "pbc", "pbc", "pbc"])
    if bc == "pbc":
        k = rng.randint(0, len(letters))
        bc = "".join(rng.sample(letters, k))
        if rng.random() < 0.3:
            bc = bc.upper()
    # subregions
    scks = force.get("scks")
    nsub = len(scks) if scks else force.get("nsub", rng.choice([0, 0, 1, 2, 2, 3]))
    subs = []
    names = rng.sample(SNAMES, nsub)
    for j, name in enumerate(names):
        sck = scks[j] if scks else (force.get("sck") or rng.choice(["i", "f", "f"]))
        i0, i1 = [], []
        for k in n:
            a = rng.randint(0, k - 1)
            b = rng.randint(a + 1, k)
            if force.get("frac") and sck == "i":           # integer-typed: whole cells pairs only
                a = 2 * rng.randint(0, k // 2 - 1)
                b = 2 * rng.randint(a // 2 + 1, k // 2)
            i0.append(a)
            i1.append(b)
        if force.get("frac") and sck == "f":               # float-typed: at least one half-integral corner
            ax = rng.randrange(nd)
            i0[ax] = 1
            i1[ax] = rng.randint(2, n[ax])
        subs.append(dict(name=name, ck=sck, i0=i0, i1=i1, flip=[rng.random() < 0.3 for _ in range(nd)]))
    nvdim = rng.choice([1, 1, 1, 2, 3, 3, 3, 4, 5, 6, 11])
    if math.prod(n) * nvdim > (4 if tier == "quick" else 2) * cap:
        nvdim = 1
    vdims = None
    if rng.random() < 0.45:
        vdims = rng.sample(VDIMS, nvdim) if nvdim <= len(VDIMS) else None
    unit = rng.choice(FUNITS)
    dtype = force.get("dtype") or rng.choice(DTYPES)
    valid = rng.choice(["all", "all", "mask", "mask", "mask", "none", "norm"])
    return dict(kind="round", nd=nd, n=n, ck=ck, regime=regime, lo=[S(x) for x in lo], cell=[S(x) for x in cell],
                flip=flip, dims=dims, units=units, tf=tf, bc=bc, subs=subs, nvdim=nvdim, vdims=vdims, unit=unit,
                dtype=dtype, vseed=rng.randrange(2 ** 31), vmode=rng.choice(["plain", "plain", "bits", "special", "zero-imag"]),
                valid=valid, limit=[])


def rand_float(r, mode, width=64):
    if mode == "zero-imag":
        mode = "plain"
    if mode == "bits":
        if width == 64:
            return struct.unpack("<d", struct.pack("<Q", r.getrandbits(64)))[0]
        if width == 32:
            return float(struct.unpack("<f", struct.pack("<I", r.getrandbits(32)))[0])
        return float(np.array([r.getrandbits(16)], dtype=np.uint16).view(np.float16)[0])
    if mode == "special" and r.random() < 0.5:
        return r.choice([0.0, -0.0, math.inf, -math.inf, math.nan, 5e-324, -5e-324, 1.7976931348623157e308,
                         2.2250738585072014e-308, 1e-300, 0.1, 1 / 3, 1.0, -1.0])
    return r.choice([r.uniform(-1, 1), r.uniform(-1e3, 1e3), r.uniform(-1, 1) * 10 ** r.randint(-30, 30),
                     float(r.randint(-5, 5))])


def make_values(rc, shape):
    r = random.Random(rc["vseed"])
    dt = np.dtype(rc["dtype"])
    size = math.prod(shape)
    mode = rc["vmode"]
    with np.errstate(all="ignore"):
        if dt.kind == "f":
            w = dt.itemsize * 8
            a = np.array([rand_float(r, mode, w) for _ in range(size)], dtype=np.float64).astype(dt)
        elif dt.kind == "c":
            w = dt.itemsize * 4
            if mode == "zero-imag":       # a complex field stays complex even when it could be real
                a = np.array([complex(rand_float(r, "plain", w), r.choice([0.0, 0.0, -0.0, 1e-300]))
                              for _ in range(size)], dtype=np.complex128).astype(dt)
            else:
                a = np.array([complex(rand_float(r, mode, w), rand_float(r, mode, w)) for _ in range(size)],
                             dtype=np.complex128).astype(dt)
        elif dt.kind == "b":
            a = np.array([r.random() < 0.5 for _ in range(size)], dtype=bool)
        else:
            info = np.iinfo(dt)
            lo, hi = max(info.min, -TWO53), min(info.max, TWO53)
            pool = [lo, hi, 0, 1, -1 if info.min < 0 else 1, hi - 1]
            if "int-beyond-2**53" in (rc.get("limit") or []):
                pool = [TWO53 + 1, TWO53 + 3, info.max, info.max - 1, min(info.max, 2 ** 62 + 1), TWO53 + 2]
                if info.min < 0:
                    pool += [-TWO53 - 1, info.min + 1]
            a = np.array([r.choice(pool) if r.random() < 0.3 else r.randint(max(lo, -1000), min(hi, 1000))
                          for _ in range(size)], dtype=dt)
    return a.reshape(shape)


def build(rc):
    """recipe -> discretisedfield.Field (raises if the library rejects the recipe)"""
    nd, n = rc["nd"], rc["n"]
    lo = [F(x) for x in rc["lo"]]
    cell = [F(x) for x in rc["cell"]]

    def num(x, kind):
        return int(x) if kind == "i" else float(x)

    if rc["regime"] == "scale":
        flo, fc = [float(x) for x in lo], [float(x) for x in cell]

        def corner(a, i):
            return flo[a] + i * fc[a]
    else:
        def corner(a, i):
            return lo[a] + i * cell[a]

    def corners(i0, i1, kind, flip):
        p1, p2 = [], []
        for a in range(nd):
            x, y = corner(a, i0[a]), corner(a, i1[a])
            if kind == "i" and (F(x).denominator != 1 or F(y).denominator != 1):
                kind = "f"
        for a in range(nd):
            x, y = num(corner(a, i0[a]), kind), num(corner(a, i1[a]), kind)
            if flip[a]:
                x, y = y, x
            p1.append(x)
            p2.append(y)
        return p1, p2

    p1, p2 = corners([0] * nd, n, rc["ck"], rc["flip"])
    kw = {}
    if rc["dims"] is not None:
        kw["dims"] = rc["dims"]
    if rc["units"] is not None:
        kw["units"] = rc["units"]
    if rc["tf"] is not None:
        kw["tolerance_factor"] = int(rc["tf"][4:]) if rc["tf"].startswith("int:") else float(F(rc["tf"]))
    ra = random.Random(rc["vseed"] + 3)                  # representation of the arguments

    def seq(xs):
        style = ra.choice(["list", "tuple", "array"])
        return list(xs) if style == "list" else (tuple(xs) if style == "tuple" else np.array(xs))
    if nd == 1 and rc["vseed"] % 2:
        region = df.Region(p1=p1[0], p2=p2[0], **kw)      # scalar corners of a 1-d region
    else:
        region = df.Region(p1=seq(p1), p2=seq(p2), **kw)
    subs = {}
    for s in rc["subs"]:
        q1, q2 = corners(s["i0"], s["i1"], s["ck"], s["flip"])
        subs[s["name"]] = df.Region(p1=q1, p2=q2)
    itypes = [int, np.int64, np.int32, np.uint8, np.uint16, np.int8]
    nstyle = ra.choice(["list", "tuple", "array", "npscalars", "npscalars"])
    if nstyle == "array":
        n_arg = np.array(n, dtype=ra.choice([np.int64, np.int32, np.uint8, np.uint16]))
    elif nstyle == "npscalars":
        n_arg = [ra.choice(itypes)(k) for k in n]
    else:
        n_arg = list(n) if nstyle == "list" else tuple(n)
    if nd == 1 and ra.random() < 0.3:
        n_arg = ra.choice(itypes)(n[0])                    # scalar n of a 1-d mesh
    mesh = df.Mesh(region=region, n=n_arg, bc=rc["bc"], subregions=subs)
    nv = ra.choice(itypes)(rc["nvdim"])                   # nvdim as Python int or numpy scalar of several widths
    arr = make_values(rc, (*n, rc["nvdim"]))
    if rc["valid"] == "all":
        valid = True
    elif rc["valid"] == "none":
        valid = False
    elif rc["valid"] == "norm":
        valid = "norm"
    else:
        r = random.Random(rc["vseed"] + 1)
        valid = np.array([r.random() < 0.5 for _ in range(math.prod(n))], dtype=bool).reshape(n)
    kw = {}
    if rc["vdims"] is not None:
        kw["vdims"] = rc["vdims"]
    with np.errstate(all="ignore"):
        return df.Field(mesh, nvdim=nv, value=arr, dtype=arr.dtype, unit=rc["unit"], valid=valid, **kw)


def use(f):
    """touch everything derived from the mesh / field before it is changed in place (stale caches)"""
    m = f.mesh
    with np.errstate(all="ignore"):
        _ = (m.cell, m.dV, len(m), m.region.edges, m.region.center, m.region.volume)
        first = m.index2point(tuple(0 for _ in m.n))
        _ = m.point2index(first)
        _ = [p for p, _k in zip(m, range(4))]
        _ = [i for i, _k in zip(m.indices, range(4))]
        for name in m.subregions:
            _ = m[name].n
        if f.array.dtype.kind in "fc" and f.array.dtype.itemsize <= 16:
            attempt(lambda: f.norm.array)
            attempt(lambda: f.mean())
        _ = (f == f)
        path = os.path.join(TMP, "used.h5")
        f.to_file(path)                                  # the operation under test itself
        df.Field.from_file(path)


def apply_op(f, op):
    m = f.mesh
    kind = op["op"]
    nd = m.region.ndim
    if kind == "translate":
        v = [float(F(x)) for x in op["v"]]
        if op.get("int") and m.region.pmin.dtype.kind == "i":
            v = [int(x) for x in v]
        (m.region if op["via"] == "region" else m).translate(v if nd > 1 else v[0], inplace=True)
    elif kind == "scale":
        fac = [float(F(x)) for x in op["f"]]
        fac = fac[0] if len(fac) == 1 else fac
        (m.region if op["via"] == "region" else m).scale(fac, inplace=True)
    elif kind == "rot":
        a1, a2 = m.region.dims[op["ax"][0]], m.region.dims[op["ax"][1]]
        if op["via"] == "field":
            f.rotate90(a1, a2, k=op["k"], inplace=True)
        else:
            m.rotate90(a1, a2, k=op["k"], inplace=True)
    elif kind == "array":
        r = random.Random(op["seed"])
        flat = f.array.reshape(-1)                       # a view: writes go into field.array itself
        assert np.shares_memory(flat, f.array)
        for _ in range(max(1, flat.size // 3)):
            j = r.randrange(flat.size)
            flat[j] = flat[r.randrange(flat.size)] if r.random() < 0.5 else (flat[j] + flat[j])
        idx = tuple(r.randrange(k) for k in f.array.shape[:-1])
        f.array[idx] = f.array[tuple(r.randrange(k) for k in f.array.shape[:-1])]
    elif kind == "valid":
        r = random.Random(op["seed"])
        if op.get("setter"):
            f.valid = np.array([r.random() < 0.5 for _ in range(f.valid.size)]).reshape(f.valid.shape)
        else:
            flat = f.valid.reshape(-1)
            assert np.shares_memory(flat, f.valid)
            for _ in range(max(1, flat.size // 2)):
                j = r.randrange(flat.size)
                flat[j] = not flat[j]
    elif kind == "unit":
        f.unit = op["u"]
    elif kind == "vdims":
        f.vdims = op["v"]
    elif kind == "bc":
        m.bc = op["bc"]
    elif kind == "drop-subs":
        m.subregions = {}
    elif kind == "reverse-subs":
        m.subregions = dict(reversed(list(m.subregions.items())))
    else:
        raise ValueError(kind)


def prepare(rc):
    """the field that is written: built, optionally used and then changed in place through public calls,
    optionally replaced by its own read-back (a re-used read-back object)"""
    f = build(rc)
    if rc.get("ops"):
        use(f)
        for op in rc["ops"]:
            apply_op(f, op)
    if rc.get("generation") == 2:
        path = os.path.join(TMP, "gen1.hdf5")
        f.to_file(path)
        with np.errstate(all="ignore"):
            f = df.Field.from_file(path)
        os.remove(path)
    return f


def gen_ops(rng, rc):
    nd, n = rc["nd"], rc["n"]
    ops = []
    exact_only = rc["tf"] is not None and rc["tf"] not in (S(1e-9), S(1e-6), "1/1000", "1/1000000000")
    geometric = rc["regime"] == "dyadic" and rc["ck"] == "f" and max(abs(F(x)) for x in rc["lo"]) < 2 ** 20 \
        and min(F(x) for x in rc["cell"]) > F(1, 2 ** 20)
    for _ in range(rng.randint(1, 3)):
        kind = rng.choice(["translate", "translate", "scale", "scale", "rot", "rot", "rot", "array", "array", "valid",
                           "valid", "unit", "vdims", "bc", "drop-subs", "reverse-subs"])
        via = "region" if (not rc["subs"] and rng.random() < 0.4) else "mesh"
        if kind == "translate":
            if rc["ck"] == "i":
                ops.append(dict(op="translate", v=[S(rng.randint(-9, 9)) for _ in range(nd)], via=via, int=True))
            elif geometric:
                ops.append(dict(op="translate", v=[S(F(rng.randint(-64, 64), 8)) for _ in range(nd)], via=via))
        elif kind == "scale" and geometric:
            pool = ["2/1", "1/2", "4/1", "-1/1", "-2/1", "1/4"]
            fac = [rng.choice(pool)] if rng.random() < 0.5 else [rng.choice(pool) for _ in range(nd)]
            ops.append(dict(op="scale", f=fac, via=via))
        elif kind == "rot" and nd >= 2 and geometric and not exact_only:
            a1, a2 = rng.sample(range(nd), 2)
            k = rng.choice([1, 2, 3, 1, 3])
            field_ok = rc["nvdim"] == 1 or rc["nvdim"] == nd
            mesh_ok = k % 2 == 0 or n[a1] == n[a2]
            if field_ok and (rng.random() < 0.7 or not mesh_ok):
                ops.append(dict(op="rot", ax=[a1, a2], k=k, via="field"))
                n = list(n)
                if k % 2:
                    n[a1], n[a2] = n[a2], n[a1]
            elif mesh_ok:
                ops.append(dict(op="rot", ax=[a1, a2], k=k, via="mesh"))
        elif kind == "array":
            ops.append(dict(op="array", seed=rng.randrange(2 ** 31)))
        elif kind == "valid":
            ops.append(dict(op="valid", seed=rng.randrange(2 ** 31), setter=rng.random() < 0.4))
        elif kind == "unit":
            ops.append(dict(op="unit", u=rng.choice([None, "kA/m", "", "T"])))
        elif kind == "vdims" and rc["nvdim"] >= 1:
            ops.append(dict(op="vdims", v=[f"q{i}" for i in range(rc["nvdim"])]))
        elif kind == "bc":
            ops.append(dict(op="bc", bc=rng.choice(["", "neumann", "dirichlet"])))
        elif kind in ("drop-subs", "reverse-subs") and rc["subs"]:
            ops.append(dict(op=kind))
    return ops


def buildable(rc):
    st, f = attempt(lambda: prepare(rc))
    if st != "ok":
        return False
    try:
        s = state_of(f)
    except TypeError:
        return False
    return printable(s)


# ------------------------------------------------------------------ directed core
def _rc(**over):
    """hand-written round recipe: a 4 x 2 mesh of half-by-one cells on float corners, scalar float64 field"""
    rc = dict(kind="round", nd=2, n=[4, 2], ck="f", regime="dyadic", lo=["0/1", "0/1"], cell=["1/2", "1/1"],
              flip=[False, False], dims=None, units=None, tf=None, bc="", subs=[], nvdim=1, vdims=None, unit=None,
              dtype="float64", vseed=4242, vmode="plain", valid="all", limit=[], ops=None, generation=1,
              prewrite=False, twin=False, sidecar=None)
    rc.update(over)
    if rc["unit"] == "None":
        rc["limit"] = rc["limit"] + ["unit-is-the-marker"]
    return rc


def _sub(name, ck, i0, i1, flip=None):
    return dict(name=name, ck=ck, i0=i0, i1=i1, flip=flip or [False] * len(i0))


def directed_core():
    """the same cases in every run, tier and seed: one small group per mechanism a seeded change has touched
    (/verif/seeded/C10-*), so that detecting those changes never depends on the seed"""
    whole, left, mid_frac, right = (_sub("whole", "i", [0, 0], [4, 2]), _sub("left", "i", [0, 0], [2, 2]),
                                    _sub("mid", "f", [1, 0], [3, 1]), _sub("right", "f", [2, 1], [4, 2]))
    R = []
    # a1 / e1: integer-typed region corners, integer- and float-typed subregions, fractional corners, any order
    for subs in ([mid_frac], [left, mid_frac], [mid_frac, left], [left, whole, mid_frac], [left], []):
        R.append(_rc(ck="i", lo=["-3/1", "5/1"], subs=subs, valid="mask", unit="A/m"))
    R.append(_rc(ck="i", nd=1, n=[4], lo=["2/1"], cell=["1/2"], flip=[True], subs=[_sub("s", "f", [1], [3])], vseed=4243))
    R.append(_rc(ck="i", nd=3, n=[2, 2, 1], lo=["0/1", "-1/1", "7/1"], cell=["1/2", "3/2", "2/1"], flip=[False] * 3,
                 subs=[_sub("k", "f", [1, 0, 0], [2, 1, 1])], nvdim=3))
    R.append(_rc(ck="f", subs=[left, mid_frac]))          # float region, integer-typed subregion
    # b1: several subregions, insertion order not alphabetical, distinct boxes, overlapping
    R.append(_rc(subs=[_sub("zeta", "f", [0, 0], [1, 1]), _sub("alpha", "f", [1, 0], [4, 2]),
                       _sub("mid", "f", [2, 1], [3, 2]), _sub("Beta", "i", [0, 0], [4, 2])], bc="xy"))
    # a3: values in invalid cells survive (float, complex, integer payloads)
    for dt in ("float64", "complex128", "int32"):
        R.append(_rc(valid="mask", dtype=dt, nvdim=2, vseed=77))
    R.append(_rc(valid="none", vmode="special"))
    # b2 / unit handling: empty unit, no unit, ordinary unit, the known marker collision
    for u in ("", None, "T", " None", "None"):
        R.append(_rc(unit=u, vseed=5))
    # b3: tolerance factors (with subregions, which inherit it), as attribute and through behaviour
    for tf in ("1/1000", S(1e-6), S(3e-12), "int:0", "1/2"):
        R.append(_rc(tf=tf, subs=[left, right]))
    # c1: complex fields whose imaginary parts are zero or round-off stay complex
    for dt in ("complex128", "complex64"):
        R.append(_rc(dtype=dt, vmode="zero-imag", nvdim=2))
    # c2: every form of boundary condition
    for bc in ("neumann", "dirichlet", "Neumann", "x", "yx", ""):
        R.append(_rc(bc=bc))
    R.append(_rc(dims=["n", "d"], bc="nd", units=["nm", ""]))      # dimension names that are letters of 'dirichlet'
    # c3 / d3: labels: explicit label on a scalar field, custom labels, label-less vector
    R.append(_rc(nvdim=1, vdims=["mz"]))
    R.append(_rc(nvdim=2, vdims=["b", "a"]))
    R.append(_rc(nvdim=3, vdims=[], limit=["labels-absent-on-vector"]))
    R.append(_rc(nvdim=5))
    # d1: payload dtypes are kept (values that float64 / float32 cannot hold included)
    for dt in ("int64", "uint64", "int8", "uint8", "bool", "float16", "float32", "complex64"):
        R.append(_rc(dtype=dt, nvdim=2, vmode="bits", vseed=99,
                     limit=["int-beyond-2**53"] if dt in ("int64", "uint64") else []))
    # e2 / e3 and the flows: repeated reads run on every case above; side files, file written twice, twin,
    # re-used read-back object, used-then-changed in place
    R.append(_rc(sidecar="fitting", subs=[left, right]))
    R.append(_rc(sidecar="fitting"))
    R.append(_rc(sidecar="non-fitting", subs=[mid_frac]))
    R.append(_rc(sidecar="non-fitting"))
    R.append(_rc(prewrite=True, subs=[left]))
    R.append(_rc(twin=True, valid="mask", nvdim=2))
    R.append(_rc(generation=2, ck="i", subs=[left, mid_frac], dtype="int64", unit="A"))
    R.append(_rc(subs=[left, right], ops=[dict(op="translate", v=["3/2", "-1/4"], via="mesh"),
                                          dict(op="scale", f=["-2/1"], via="mesh")]))
    R.append(_rc(ops=[dict(op="scale", f=["2/1", "1/2"], via="region"), dict(op="translate", v=["1/1", "1/1"], via="region")]))
    R.append(_rc(n=[4, 2], subs=[left], ops=[dict(op="rot", ax=[0, 1], k=1, via="field")], units=["nm", "s"]))
    R.append(_rc(n=[2, 2], cell=["1/2", "3/1"], ops=[dict(op="rot", ax=[0, 1], k=3, via="mesh")], units=["nm", "s"]))
    R.append(_rc(valid="mask", nvdim=2, ops=[dict(op="array", seed=1), dict(op="valid", seed=2),
                                             dict(op="valid", seed=3, setter=True), dict(op="unit", u="kA/m"),
                                             dict(op="vdims", v=["q0", "q1"]), dict(op="bc", bc="neumann")]))
    R.append(_rc(subs=[left, right, whole], ops=[dict(op="reverse-subs")]))
    R.append(_rc(subs=[left, right], ops=[dict(op="drop-subs")]))
    # decimal (non-dyadic) corners at a small scale, huge / tiny magnitudes
    R.append(_rc(regime="scale", lo=[S(-2.5e-9), S(0.0)], cell=[S(1.1e-9), S(3.7e-9)], subs=[right], tf=None))
    R.append(_rc(lo=[S(F(3) * F(2) ** 300), S(F(2) ** 300)], cell=[S(F(2) ** 298), S(F(2) ** 299)], subs=[right]))
    R.append(_rc(lo=[S(F(3) * F(2) ** -200), S(-F(2) ** -200)], cell=[S(F(2) ** -203), S(F(2) ** -201)], subs=[right]))
    out = list(R)
    # files in the current layout written by this module (well-formed, and the malformed entries the reader refuses)
    for k, d in enumerate([None, None, "sub-swapped", "no-subs", "unit-marker", "swap-corner", "equal-corner", "type",
                           "version", "n-zero", "vdims-len", "array-last", "valid-shape", "sub-float-table"]):
        out.append(dict(_rc(ck="i" if k % 2 else "f", lo=["-3/1", "5/1"], subs=[left, mid_frac] if k % 3 else [left],
                            dtype=["float64", "complex128", "int64"][k % 3], nvdim=1 + k % 3, tf="1/1000",
                            unit="T", valid="mask", vseed=600 + k), kind="foreign", defect=d))
    # a2 / d2: legacy layout: corners in any order and of either type, with and without the json side file
    def leg(**over):
        l_ = dict(kind="legacy", nd=2, n=[4, 2], ck1="f", ck2="f", p1=["0/1", "0/1"], p2=["2/1", "2/1"], dim=1, dk="f",
                  vseed=31, defect=None, side=None)
        l_.update(over)
        return l_
    side1 = [dict(name="sr1", i0=[0, 0], ck="f", dims=["x", "y"], units=["m", "m"], tf=S(1e-12)),
             dict(name="inner", i0=[3, 1], ck="i", dims=["a", "b"], units=["nm", ""], tf=S(1e-6))]
    out += [leg(), leg(p1=["2/1", "0/1"], p2=["0/1", "2/1"]), leg(p1=["2/1", "2/1"], p2=["0/1", "0/1"], ck1="i", ck2="i"),
            leg(p1=["2/1", "2/1"], p2=["-1/2", "0/1"], ck1="i", n=[5, 2], dim=3), leg(side=side1),
            leg(side=side1, p1=["2/1", "2/1"], p2=["0/1", "0/1"], ck1="i", ck2="i", dk="i", dim=2),
            leg(side=side1[:1], dk="c", dim=2), leg(nd=1, n=[3], p1=["5/1"], p2=["-1/1"], ck2="i"),
            leg(nd=3, n=[1, 2, 2], p1=["0/1", "4/1", "0/1"], p2=["1/1", "0/1", "-2/1"], dim=3),
            leg(defect="dim-mismatch"), leg(defect="equal-corner"), leg(defect="side-swapped", side=side1),
            dict(kind="sample")]
    return out


def generate(rng, tier):
    cases = directed_core()
    nround = 250 if tier == "quick" else 2200
    want = nround
    tries = 0
    # the four corner-type combinations, with fractional subregion corners where the cell allows
    forced = [dict(ck=a, sck=b, nsub=k) for a in "if" for b in "if" for k in (1, 2, 3)]
    # integer-typed region, integer- and float-typed subregions in every order, the float-typed ones
    # with fractional corners (the table must be typed after ALL corners, not the first ones)
    forced += [dict(ck=a, scks=list(p), frac=True) for a in "if"
               for p in ("f", "if", "fi", "iif", "ifi", "fii", "iff", "ii")]
    while want > 0 and tries < 20 * nround:
        tries += 1
        force = forced[tries % len(forced)] if tries % 3 == 0 else None
        with_ops = rng.random() < 0.35
        if with_ops and force is None and rng.random() < 0.6:
            force = dict(ck="f", geo=True)            # recipes on which translate / scale / rotate90 are exact enough
        rc = gen_round(rng, tier, force)
        if rc["unit"] == "None":
            rc["limit"].append("unit-is-the-marker")
        if rc["vdims"] is None and rc["nvdim"] > 1 and rng.random() < 0.12 and rc["nvdim"] != rc["nd"]:
            rc["vdims"] = []
            rc["limit"].append("labels-absent-on-vector")
        if np.dtype(rc["dtype"]).kind in "iu" and np.dtype(rc["dtype"]).itemsize == 8 and rng.random() < 0.3:
            rc["limit"].append("int-beyond-2**53")
        # flows: used-then-changed in place, re-used read-back object, file written twice, twin field
        if with_ops:
            rc["ops"] = gen_ops(rng, rc)
        if rng.random() < 0.15:
            rc["generation"] = 2
        rc["prewrite"] = rng.random() < 0.2
        rc["twin"] = rng.random() < 0.3
        rc["sidecar"] = rng.choice([None, None, None, None, "fitting", "non-fitting"])
        if buildable(rc):
            cases.append(rc)
            want -= 1
    # files written by this module: current layout (well-formed and malformed) and legacy layout
    nfor = 80 if tier == "quick" else 800
    k = 0
    tries = 0
    while k < nfor and tries < 20 * nfor:
        tries += 1
        rc = gen_round(rng, tier)
        rc["dtype"] = rng.choice(["float64", "float64", "complex128", "int64", "float32"])
        if rc["unit"] == "None" or not buildable(rc):
            continue
        rc["kind"] = "foreign"
        rc["defect"] = None if rng.random() < 0.4 else rng.choice(DEFECTS)
        cases.append(rc)
        k += 1
    nleg = 60 if tier == "quick" else 600
    for _ in range(nleg):
        cases.append(gen_legacy(rng, tier))
    return cases


DEFECTS = ["type", "version", "swap-corner", "equal-corner", "dims-dup", "dims-len", "units-len", "n-zero", "n-len",
           "vdims-str", "vdims-len", "vdims-dup", "unit-marker", "nvdim-zero", "array-shape", "array-last",
           "valid-shape", "sub-degenerate", "sub-swapped", "no-subs", "vdims-marker-on-vector", "array-no-last",
           "sub-int-table", "sub-float-table"]


def gen_legacy(rng, tier):
    nd = rng.choice([1, 2, 3, 3, 3, 4])
    while True:
        n = [rng.randint(1, 4) for _ in range(nd)]
        if math.prod(n) <= 48:
            break
    ck1, ck2 = rng.choice(["i", "f"]), rng.choice(["i", "f"])
    cell = [F(rng.choice([1, 2, 3, 5]), 1) if "f" not in (ck1, ck2) else F(rng.choice([1, 3, 5]), 2 ** rng.randint(0, 3))
            for _ in range(nd)]
    lo = [F(rng.randint(-20, 20)) for _ in range(nd)]
    hi = [l + k * c for l, k, c in zip(lo, n, cell)]
    if ck1 == "i":
        hi = [F(math.ceil(h)) if h.denominator != 1 else h for h in hi]
    if ck2 == "i":
        hi = [F(math.ceil(h)) if h.denominator != 1 else h for h in hi]
    p1, p2 = list(lo), list(hi)
    for a in range(nd):
        if rng.random() < 0.4:
            p1[a], p2[a] = p2[a], p1[a]
    if ck1 == "i":
        p1 = [F(math.floor(x)) for x in p1]
    if ck2 == "i":
        p2 = [F(math.floor(x)) for x in p2]
    dim = rng.choice([1, 1, 2, 3, 3, 3, 4, 5])
    dk = rng.choice(["f", "f", "f", "i", "c"])
    defect = rng.choice([None] * 6 + ["dim-mismatch", "equal-corner", "n-zero", "n-len", "side-swapped"])
    side = None
    if rng.random() < 0.5:
        # side-car subregions on cell boundaries (n chosen below keeps them aligned when corners are integral)
        side = []
        for name in rng.sample(["sr1", "sr2", "inner", "ü"], rng.choice([1, 2])):
            side.append(dict(name=name, i0=[rng.randint(0, k - 1) for k in n], ck=rng.choice(["i", "f"]),
                             dims=rng.choice([["x", "y", "z", "w"][:nd], rng.sample(DIM1, nd)]),
                             units=[rng.choice(UNITS) for _ in range(nd)], tf=rng.choice([S(1e-12), S(1e-6)])))
    return dict(kind="legacy", nd=nd, n=n, ck1=ck1, ck2=ck2, p1=[S(x) for x in p1], p2=[S(x) for x in p2], dim=dim,
                dk=dk, vseed=rng.randrange(2 ** 31), defect=defect, side=side)


# ------------------------------------------------------------------ oracle
def same_num(a, b):
    return a == b


def oracle_round(rc, s0, s1, f, g_, s0_after):
    bad = []
    if s0_after != s0:
        bad.append("writing-changed-the-field")
    with np.errstate(all="ignore"):
        self_equal = bool(f == f)
        if self_equal and not bool(g_ == f):
            bad.append("read-back-field-not-equal")
    for key, clause in [("pmin", "region-pmin"), ("pmax", "region-pmax"), ("ck", "region-corner-type"),
                        ("dims", "dims"), ("units", "units"), ("tf", "tolerance-factor"), ("n", "n"),
                        ("bc", "bc"), ("nvdim", "nvdim")]:
        if s0[key] != s1[key]:
            bad.append(clause)
    b0, b1 = boxes(s0), boxes(s1)
    if sorted(b0) != sorted(b1) or len(s0["subs"]) != len(s1["subs"]):
        bad.append("subregion-names")
    else:
        for name in b0:
            if b0[name][:2] != b1[name][:2]:
                bad.append("subregion-corners")
            if b0[name][2:] != b1[name][2:]:
                bad.append("subregion-attributes")
    if s0["vdims"] != s1["vdims"]:
        bad.append("component-labels")
    if s0["unit"] != s1["unit"]:
        bad.append("unit")
    if (s0["dk"] == "c") != (s1["dk"] == "c"):
        bad.append("real-complex-kind")
    # the stored payload type is part of the state (reader repaired in 66ed56c8): an integer field must not
    # come back as a float field even when every value is representable (the Coq checker compares the data
    # kind only as real / complex - C10_coarse_data_kind_instance - so this clause carries that part)
    if s0["dtype"] != s1["dtype"]:
        bad.append("payload-dtype")
    if s0["shape"] != s1["shape"]:
        bad.append("array-shape")
    else:
        if any(not same_num(a, b) for a, b in zip(s0["vals"], s1["vals"])):
            bad.append("values")
        elif f.array.dtype == g_.array.dtype and f.array.tobytes() != g_.array.tobytes():
            bad.append("values-bit-pattern")
    if s0["valid"] != s1["valid"] or s0["vshape"] != s1["vshape"]:
        bad.append("valid")
    if s1["valid_dtype"] != "bool":
        bad.append("valid-dtype")
    return sorted(set(bad))


# ------------------------------------------------------------------ runners
_counter = [0]


def tmpname(ext=".h5"):
    _counter[0] += 1
    return os.path.join(TMP, f"f{_counter[0] % 8}{ext}")


def read_back(path):
    def go():
        with np.errstate(all="ignore"):
            g_ = df.Field.from_file(path)
        return g_, state_of(g_)
    return attempt(go)


def size_of(st):
    return len(st["n"]) + math.prod(st["n"]) * st["nvdim"] + 3 * len(st["subs"])


def big_field():
    """a field much larger than any generated one (written first into a file that is then written again)"""
    mesh = df.Mesh(p1=(0, 0, 0), p2=(8, 8, 8), n=(8, 8, 8), bc="xyz",
                   subregions={f"big{i}": df.Region(p1=(i, 0, 0), p2=(i + 2, 8, 8)) for i in range(5)})
    return df.Field(mesh, nvdim=4, value=(1, 2, 3, 4), vdims=["p", "q", "r", "s"], unit="BIG",
                    valid=np.arange(512).reshape(8, 8, 8) % 2 == 0)


def boxes(st):
    return {q["name"]: (q["pmin"], q["pmax"], q["dims"], q["units"], q["tf"]) for q in st["subs"]}


def states_match(a, b, exact):
    """attribute-by-attribute comparison of two states; exact = also representation tags (second generation)"""
    keys = ["pmin", "pmax", "ck", "dims", "units", "tf", "n", "bc", "nvdim", "vdims", "unit", "shape", "vals",
            "valid", "vshape", "valid_dtype"]
    if exact:
        keys += ["dtype", "dk"]
    bad = [k for k in keys if a[k] != b[k]]
    if boxes(a) != boxes(b):
        bad.append("subs")
    if exact and [(q["name"], q["ck"]) for q in a["subs"]] != [(q["name"], q["ck"]) for q in b["subs"]]:
        bad.append("subs-order-or-kind")
    return bad


def tolerance_probes(f, g_):
    """`point in region` on the written and on the read-back region for points around the faces at distances
    spanning every order of magnitude: a changed tolerance (or corner) changes at least one answer"""
    r0, r1 = f.mesh.region, g_.mesh.region
    lo, hi = np.asarray(r0.pmin, dtype=float), np.asarray(r0.pmax, dtype=float)
    emin = float(np.min(hi - lo))
    c = (lo + hi) / 2
    diff = 0
    with np.errstate(all="ignore"):
        for a in range(len(lo)):
            scale = max(abs(hi[a]), abs(lo[a]), emin)
            for k in range(0, 17):
                for base, sign in ((hi[a], 1.0), (lo[a], -1.0)):
                    for d in (emin * 10.0 ** -k, scale * 10.0 ** -k):
                        p = c.copy()
                        p[a] = base + sign * d
                        pt = tuple(p) if len(p) > 1 else float(p[0])
                        x, y = attempt(lambda: bool(pt in r0)), attempt(lambda: bool(pt in r1))
                        diff += x != y
        for (n0, s0_), (n1, s1_) in zip(sorted(f.mesh.subregions.items()), sorted(g_.mesh.subregions.items())):
            slo, shi = np.asarray(s0_.pmin, dtype=float), np.asarray(s0_.pmax, dtype=float)
            for k in (3, 6, 9, 11, 12, 13, 15):
                p = shi + (shi - slo).min() * 10.0 ** -k
                pt = tuple(p) if len(p) > 1 else float(p[0])
                diff += attempt(lambda: bool(pt in s0_)) != attempt(lambda: bool(pt in s1_))
    return diff


def run_round(rc):
    rec = dict(kind="round", case=rc, oracle=[], tags=[], coq="")
    f = prepare(rc)
    s0 = state_of(f)
    path = tmpname(".h5" if rc["vseed"] % 3 else ".hdf5")
    if os.path.exists(path):
        os.remove(path)
    if rc.get("prewrite"):
        big_field().to_file(path)          # the same filename is written twice, the second time smaller
    stw, err = attempt(lambda: f.to_file(path))
    s0_after = state_of(f)
    brief = {k: s0[k] for k in ("ck", "pmin", "pmax", "dims", "units", "tf", "n", "bc", "nvdim", "vdims", "unit",
                                "dtype")}
    brief["subs"] = [(s["name"], s["ck"], s["pmin"], s["pmax"]) for s in s0["subs"]]
    if stw != "ok":
        rec.update(obs=dict(state=brief, write_error=err), oracle=["write-failed"], key=f"round/write-failed/{err}",
                   size=size_of(s0))
        return rec
    view = view_file(path)
    extra = []
    # a json side file left under the same name by an earlier OVF / VTK / legacy save: a current-layout
    # file carries its subregions itself, the side file must be ignored (fitting or not)
    side = path + ".subregions.json"
    if os.path.exists(side):
        os.remove(side)
    if rc.get("sidecar"):
        lo_, hi_ = [float(F(x)) for x in s0["pmin"]], [float(F(x)) for x in s0["pmax"]]
        ed = [h - l for l, h in zip(lo_, hi_)]
        if rc["sidecar"] == "fitting":
            box = dict(pmin=lo_, pmax=hi_)
        else:
            box = dict(pmin=[h + e for h, e in zip(hi_, ed)], pmax=[h + 2 * e for h, e in zip(hi_, ed)])
        box.update(dims=s0["dims"], units=s0["units"], tolerance_factor=float(F(s0["tf"])))
        json.dump({"stale_side_entry": box}, open(side, "w"))
    # a second field of the same shape (other values, other mask) written and read in between: no cross-talk
    if rc.get("twin"):
        rc2 = dict(rc, vseed=rc["vseed"] + 101, ops=None, generation=1)
        st2, f2 = attempt(lambda: build(rc2))
        if st2 == "ok":
            p2 = os.path.join(TMP, "twin.h5")
            sf2 = state_of(f2)
            stt, back2 = attempt(lambda: (f2.to_file(p2), read_back(p2))[1])
            if stt != "ok" or back2[0] != "ok":
                extra.append("twin-field-not-preserved")
            else:
                d_ = states_match(sf2, back2[1][1], exact=False)
                if sf2["unit"] == "None":          # known finding C10-unit-marker, flagged on the main field
                    d_ = [k for k in d_ if k != "unit"]
                if d_:
                    extra.append("twin-field-not-preserved")
    stb, back = read_back(path)
    kinds = "".join([s0["ck"], "-"] + [s["ck"] for s in s0["subs"]])
    frac_sub = any(F(x).denominator != 1 for s in s0["subs"] for x in s["pmin"] + s["pmax"])
    flow = "/".join(x for x in ["ops:" + "+".join(sorted({o["op"] + ":" + o.get("via", "") for o in rc["ops"]}))
                                if rc.get("ops") else "", "gen2" if rc.get("generation") == 2 else "",
                                "prewrite" if rc.get("prewrite") else "", "twin" if rc.get("twin") else "",
                                "side:" + rc["sidecar"] if rc.get("sidecar") else ""] if x)
    key = (f"round/{len(s0['n'])}d/{kinds}/{'frac' if frac_sub else 'intg'}/{s0['dtype']}/nv{min(s0['nvdim'], 4)}/"
           f"{'lab' if rc['vdims'] else 'nolab'}/{'unit' if s0['unit'] is not None else 'nounit'}/"
           f"{rc['valid']}/{rc['regime']}/{'+'.join(rc.get('limit') or [])}/{flow}")
    if stb != "ok":
        if os.path.exists(side):
            os.remove(side)
        rec.update(obs=dict(state=brief, read_error=back, flow=flow), oracle=["read-failed"] + extra,
                   key=key + "/read-failed", size=size_of(s0))
        rec["coq"] = f"CRound false {c_state(s0)} {g.opt(view, c_view)} None"
        return rec
    g_, s1 = back
    in_domain = s0["unit"] != "None"          # the one guard of C10_roundtrip beyond the constructor invariants
    rec["oracle"] = oracle_round(rc, s0, s1, f, g_, s0_after)
    # reading leaves the file alone; reading twice gives the same, unshared, result
    if view_file(path) != view:
        extra.append("reading-changed-the-file")
    st3, again = read_back(path)
    if st3 != "ok" or states_match(s1, again[1], exact=True):
        extra.append("second-read-differs")
    elif np.shares_memory(again[0].array, g_.array) or np.shares_memory(again[0].valid, g_.valid):
        extra.append("read-back-fields-share-memory")
    # writing the same field twice gives the same file content
    p3 = os.path.join(TMP, "again.h5")
    if attempt(lambda: f.to_file(p3))[0] != "ok" or view_file(p3) != view:
        extra.append("second-write-differs")
    # the read-back object is re-used: written again and read, it must come back identical in every
    # attribute, tags included (C10_second_generation on the implementation)
    p4 = os.path.join(TMP, "gen2.hdf5")
    st4, third = attempt(lambda: (g_.to_file(p4), read_back(p4))[1])
    if st4 != "ok" or third[0] != "ok":
        extra.append("second-generation-failed")
    else:
        d2 = states_match(s1, third[1][1], exact=True)
        if state_of(g_) != s1:
            extra.append("writing-changed-the-read-back-field")
        if d2:
            extra.append("second-generation-differs")
            rec.setdefault("obs", {})
    # the tolerance factor through behaviour, not only as an attribute
    if tolerance_probes(f, g_):
        extra.append("tolerance-dependent-containment-differs")
    # two read-backs of one file are separate objects all the way down ...
    if st3 == "ok":
        a_, b_ = g_, again[0]
        shared = a_.mesh is b_.mesh or a_.mesh.region is b_.mesh.region or a_.mesh.subregions is b_.mesh.subregions
        shared = shared or any(x is y for x in a_.mesh.subregions.values() for y in b_.mesh.subregions.values())
        for x, y in [(a_.mesh.region.pmin, b_.mesh.region.pmin), (a_.mesh.region.pmax, b_.mesh.region.pmax),
                     (a_.mesh.n, b_.mesh.n), (a_.array, b_.array), (a_.valid, b_.valid)]:
            shared = shared or np.shares_memory(x, y)
        if shared:
            extra.append("read-back-fields-share-objects")
    # ... so whatever is done in place to the first one, the untouched file reads the same again
    rm = random.Random(rc["vseed"] + 11)
    nd_ = g_.mesh.region.ndim

    def scramble():
        m_ = g_.mesh
        shift = [1.0 + float(e) for e in m_.region.edges]
        m_.translate(shift if nd_ > 1 else shift[0], inplace=True)
        m_.region.scale(2.0, inplace=True)
        m_.bc = "dirichlet" if m_.bc != "dirichlet" else ""
        m_.subregions = {} if m_.subregions else {"added": df.Region(p1=m_.region.pmin, p2=m_.region.pmax)}
        m_.region.units = ["zz"] * nd_
        m_.region.tolerance_factor = 0.25
        g_.array[...] = 0
        g_.valid[...] = ~g_.valid
        g_.unit = "scrambled"
        if nd_ >= 2 and rm.random() < 0.5:
            attempt(lambda: m_.rotate90(m_.region.dims[0], m_.region.dims[1], inplace=True))
    with np.errstate(all="ignore"):
        stsc, _e = attempt(scramble)
    st5, third_read = read_back(path)
    if st5 != "ok" or states_match(s1, third_read[1], exact=True):
        extra.append("read-after-changing-an-earlier-read-back-differs")
    if os.path.exists(side):
        os.remove(side)
    if s0["unit"] == "None":
        rec["tags"] = [KNOWN_UNIT_MARKER]
    rec["oracle"] = sorted(set(rec["oracle"] + extra))
    back_brief = {k: s1[k] for k in ("ck", "pmin", "pmax", "dims", "units", "tf", "n", "bc", "nvdim", "vdims", "unit",
                                     "dtype")}
    back_brief["subs"] = [(s["name"], s["ck"], s["pmin"], s["pmax"]) for s in s1["subs"]]
    rec.update(obs=dict(state=brief, back=back_brief, file_seen=view is not None, flow=flow,
                        table_dtype=None if not view or not view["subs"] else view["subs"]["tk"]),
               key=key, size=size_of(s0),
               coq=f"CRound {g.b(in_domain)} {c_state(s0)} {g.opt(view, c_view)} (Some {c_state(s1)})")
    if rc.get("limit"):
        rec["obs"]["limit_probe"] = "+".join(rc["limit"])
    return rec


def apply_defect(v, d, rng):
    """one malformed entry; returns False if the defect does not apply to this file"""
    nd = len(v["n"])
    r = v["reg"]
    if d == "type":
        v["type"] = "discretisedfield.Mesh"
    elif d == "version":
        v["version"] = "0.2"
    elif d == "swap-corner":
        a = rng.randrange(nd)
        r["pmin"][a], r["pmax"][a] = r["pmax"][a], r["pmin"][a]
    elif d == "equal-corner":
        a = rng.randrange(nd)
        r["pmax"][a] = r["pmin"][a]
    elif d == "dims-dup":
        if nd < 2:
            return False
        r["dims"][1] = r["dims"][0]
        v["bc"] = ""
    elif d == "dims-len":
        r["dims"] = r["dims"] + ["q"]
    elif d == "units-len":
        r["units"] = r["units"][:-1] if nd > 1 else r["units"] + ["m"]
    elif d == "n-zero":
        v["n"][rng.randrange(nd)] = 0
    elif d == "n-len":
        v["n"] = v["n"] + [1]
    elif d == "vdims-str":
        v["vdims"] = "abc"
    elif d == "vdims-len":
        v["vdims"] = ["p", "q", "r", "s", "t", "u", "w"][: v["nvdim"] + 1]
    elif d == "vdims-dup":
        if v["nvdim"] < 2:
            return False
        v["vdims"] = ["p"] * v["nvdim"]
    elif d == "unit-marker":
        v["unit"] = "None"
    elif d == "nvdim-zero":
        v["nvdim"] = 0
    elif d == "array-shape":
        a = rng.randrange(nd)
        v["shape"] = list(v["shape"])
        v["shape"][a] += 1
        v["vals"] = (v["vals"] * 3)[: math.prod(v["shape"])]
    elif d == "array-last":
        v["shape"] = list(v["shape"][:-1]) + [v["shape"][-1] + 1]
        v["vals"] = (v["vals"] * 3)[: math.prod(v["shape"])]
    elif d == "array-no-last":
        if v["nvdim"] != 1:
            return False
        v["shape"] = list(v["shape"][:-1])
    elif d == "valid-shape":
        v["vshape"] = list(v["vshape"][:-1]) + [v["vshape"][-1] + 1]
        v["valid"] = (v["valid"] * 3)[: math.prod(v["vshape"])]
    elif d == "sub-degenerate":
        if v["subs"] is None:
            return False
        row = v["subs"]["rows"][0]
        row[nd] = row[0]
    elif d == "sub-swapped":
        if v["subs"] is None:
            return False
        row = v["subs"]["rows"][-1]
        v["subs"]["rows"][-1] = row[nd:] + row[:nd]
    elif d == "no-subs":
        v["subs"] = None
    elif d == "vdims-marker-on-vector":
        # (with nvdim == ndim the Field constructor itself cannot build a label-less field)
        if v["nvdim"] < 2 or v["nvdim"] == nd:
            return False
        v["vdims"] = "None"
    elif d == "sub-int-table":
        if v["subs"] is None or any(F(x).denominator != 1 or abs(F(x)) >= 2 ** 62
                                    for row in v["subs"]["rows"] for x in row):
            return False
        v["subs"]["tk"] = "i"
    elif d == "sub-float-table":
        if v["subs"] is None:
            return False
        v["subs"]["tk"] = "f"
    else:
        raise ValueError(d)
    return True


def run_foreign(rc):
    rec = dict(kind="foreign", case=rc, oracle=[], tags=[], coq="")
    f = build(rc)
    s0 = state_of(f)
    v = file_of_state(json.loads(json.dumps(s0)))
    rng = random.Random(rc["vseed"] + 7)
    d = rc.get("defect")
    if d is not None and not apply_defect(v, d, rng):
        d = None
    if s0["dk"] == "f":
        v["np_dtype"] = s0["dtype"]
    path = tmpname(".h5")
    if os.path.exists(path):
        os.remove(path)
    write_view(path, v)
    seen = view_file(path)          # what really is in the file (h5py may widen / convert what was asked for)
    stb, back = read_back(path)
    accept_expected = d in (None, "sub-swapped", "no-subs", "unit-marker", "vdims-marker-on-vector", "array-no-last",
                            "sub-int-table", "sub-float-table")
    key = f"foreign/{len(s0['n'])}d/{d}/{s0['ck']}/{s0['dk']}/{stb}/{'subs' if s0['subs'] else 'nosubs'}"
    obs = dict(defect=d, outcome=stb if stb == "ok" else back)
    if seen is None:
        rec.update(obs=obs, key=key, size=size_of(s0), oracle=["harness-writer-unreadable"])
        return rec
    if stb == "ok":
        g_, s1 = back
        obs["back"] = {k: s1[k] for k in ("ck", "pmin", "pmax", "dims", "units", "tf", "n", "bc", "nvdim", "vdims",
                                          "unit", "dtype")}
        coq_back = f"(Some {c_state(s1)})"
        if not accept_expected:
            rec["oracle"].append("malformed-file-accepted")
        elif d is None:
            # a well-formed current-layout file must come back as the state it describes
            class _O:
                pass
            o = oracle_round(dict(limit=[]), s0, s1, f, g_, s0)
            rec["oracle"] = [c for c in o if c not in ("values-bit-pattern",)]
    else:
        coq_back = "None"
        if accept_expected:
            rec["oracle"].append("current-layout-file-rejected")
    rec.update(obs=obs, key=key, size=size_of(s0), coq=f"CRead (NewFile {c_view(seen)}) {coq_back}")
    return rec


def run_legacy(rc):
    rec = dict(kind="legacy", case=rc, oracle=[], tags=[], coq="")
    nd, n = rc["nd"], list(rc["n"])
    r = random.Random(rc["vseed"])
    dim = rc["dim"]
    d = rc["defect"]
    shape = n + [dim]
    p1, p2 = list(rc["p1"]), list(rc["p2"])
    if d == "dim-mismatch":
        shape = n + [dim + 1]
    elif d == "equal-corner":
        a = r.randrange(nd)
        p2[a] = p1[a]
    elif d == "n-zero":
        n = list(n)
        n[r.randrange(nd)] = 0
        shape = list(rc["n"]) + [dim]
    elif d == "n-len":
        n = n + [1]
    size = math.prod(shape)
    if rc["dk"] == "f":
        vals = [[enc_num(rand_float(r, "special")), ZERO] for _ in range(size)]
    elif rc["dk"] == "c":
        vals = [[enc_num(rand_float(r, "plain")), enc_num(rand_float(r, "special"))] for _ in range(size)]
    else:
        vals = [[enc_num(r.randint(-1000, 1000)), ZERO] for _ in range(size)]
    side = None
    lo = [min(F(a), F(b)) for a, b in zip(p1, p2)]
    hi = [max(F(a), F(b)) for a, b in zip(p1, p2)]
    if rc["side"] is not None and d in (None, "side-swapped"):
        side = []
        for s in rc["side"]:
            cell = [(h - l) / k for l, h, k in zip(lo, hi, rc["n"])]
            smin = [l + i * c for l, i, c in zip(lo, s["i0"], cell)]
            smax = [l + (i + 1) * c for l, i, c in zip(lo, s["i0"], cell)]
            ck = s["ck"] if all(x.denominator == 1 for x in smin + smax) else "f"
            if ck == "f":      # the numbers json carries are binary64
                smin, smax = [F(float(x)) for x in smin], [F(float(x)) for x in smax]
            side.append(dict(name=s["name"], ck=ck, pmin=[S(x) for x in smin], pmax=[S(x) for x in smax],
                             dims=s["dims"], units=s["units"], tf=s["tf"]))
        if d == "side-swapped":
            side[0]["pmin"], side[0]["pmax"] = side[0]["pmax"], side[0]["pmin"]
    elif d == "side-swapped":
        d = None
    leg = dict(ck1=rc["ck1"], p1=p1, ck2=rc["ck2"], p2=p2, n=n, dim=dim, dk=rc["dk"], shape=shape, vals=vals, side=side)
    path = tmpname(".hdf5")
    if os.path.exists(path):
        os.remove(path)
    write_legacy(path, leg)
    stb, back = read_back(path)
    key = f"legacy/{nd}d/{d}/{rc['ck1']}{rc['ck2']}/{rc['dk']}/{stb}/{'side' if side else 'noside'}"
    obs = dict(defect=d, outcome=stb if stb == "ok" else back)
    if stb == "ok":
        g_, s1 = back
        coq_back = f"(Some {c_state(s1)})"
        obs["back"] = {k: s1[k] for k in ("ck", "pmin", "pmax", "dims", "units", "n", "bc", "nvdim", "vdims", "unit",
                                          "dtype")}
        if d is not None:
            rec["oracle"].append("malformed-legacy-file-accepted")
        else:
            if s1["pmin"] != [S(x) for x in lo] or s1["pmax"] != [S(x) for x in hi]:
                rec["oracle"].append("legacy-corners")
            if s1["n"] != n or s1["nvdim"] != dim:
                rec["oracle"].append("legacy-n-nvdim")
            if s1["vals"] != vals or s1["shape"] != shape or (s1["dk"] == "c") != (rc["dk"] == "c"):
                rec["oracle"].append("legacy-values")
            if not all(s1["valid"]):
                rec["oracle"].append("legacy-valid")
            want = [] if side is None else sorted((s["name"], s["pmin"], s["pmax"]) for s in side)
            if sorted((s["name"], s["pmin"], s["pmax"]) for s in s1["subs"]) != want:
                rec["oracle"].append("legacy-subregions")
    else:
        coq_back = "None"
        if d is None:
            rec["oracle"].append("legacy-file-rejected")
    rec.update(obs=obs, key=key, size=nd + size, coq=f"CRead (LegacyFile {c_legacy(leg)}) {coq_back}")
    return rec


def run_sample(rc):
    """the current-layout sample file shipped with the repository's tests"""
    rec = dict(kind="sample", case=rc, oracle=[], tags=[], coq="", key="sample", size=1)
    path = os.path.join(os.path.dirname(df.__file__), "tests", "test_sample", "hdf5-file.hdf5")
    if not os.path.exists(path):
        rec.update(obs=dict(present=False), nontrivial=False)
        return rec
    seen = view_file(path)
    stb, back = read_back(path)
    if stb != "ok" or seen is None:
        rec.update(obs=dict(present=True, outcome=back if stb != "ok" else "unreadable-by-h5py"),
                   oracle=["shipped-sample-file-rejected"])
        return rec
    g_, s1 = back
    want = file_of_state(s1)
    same = all(seen[k] == want[k] for k in ("reg", "n", "bc", "nvdim", "vdims", "unit", "shape", "vals", "vshape",
                                            "valid")) and \
        (seen["subs"] is None) == (want["subs"] is None) and \
        (seen["subs"] is None or (seen["subs"]["names"], seen["subs"]["rows"]) == (want["subs"]["names"], want["subs"]["rows"]))
    if not same:
        rec["oracle"].append("shipped-sample-file-misread")
    rec.update(obs=dict(present=True, n=s1["n"], nvdim=s1["nvdim"], subs=[s["name"] for s in s1["subs"]]),
               coq=f"CRead (NewFile {c_view(seen)}) (Some {c_state(s1)})")
    return rec


def run_case(c):
    kind = c["kind"]
    if kind == "round":
        return run_round(c)
    if kind == "foreign":
        return run_foreign(c)
    if kind == "legacy":
        return run_legacy(c)
    if kind == "sample":
        return run_sample(c)
    raise ValueError(kind)


def stats(records):
    out = {}
    for r in records:
        k = r["kind"]
        if k in ("foreign", "legacy"):
            k += "/" + ("accepted" if r["obs"].get("outcome") == "ok" else "rejected")
        out[k] = out.get(k, 0) + 1
        if r["kind"] == "round" and isinstance(r["obs"].get("state"), dict):
            dk_ = "payload:" + str(r["obs"]["state"].get("dtype"))
            out[dk_] = out.get(dk_, 0) + 1
        lp = r["obs"].get("limit_probe") if isinstance(r.get("obs"), dict) else None
        if lp:
            out["limit:" + lp] = out.get("limit:" + lp, 0) + 1
    return out
