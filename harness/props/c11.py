"""C11 — Field FFTs are the DFT at the k-mesh's frequencies: generators, implementation runner,
Gallina encoding, property oracle.

Case kinds
  meshf   Mesh.fftn(rfft)                     -> Coq (model k-mesh) + oracle (centres = shifted (r)fftfreq)
  meshi   Mesh.ifftn(rfft, shape)             -> Coq (model real-space mesh, shape validation) + oracle
  names   labels / mapping after fftn / ifftn -> Coq (rename model) + oracle
  fwd     Field.fftn / rfftn                  -> Coq (arrangement of an independent naive DFT) + oracle
                                                 (property text: sum of value*exp(-2 pi i k.r), k = k-cell centre)
  inv     Field.ifftn / irfftn on a spectrum  -> Coq (model forward transform of the result = input) + oracle
  algebra round trips, real half, zero bin, linearity, per component -> oracle only
"""
import cmath
import itertools
import math
import random
from fractions import Fraction as F

import numpy as np

from harness import gallina as g
from harness.util import import_df, js, attempt, relayout, LAYOUTS

df = import_df()

KSUF = ")$^{-1}$"
TOL = 1e-9


def S(x):
    return g.qs(x)


def fl(s):
    return float(F(s))


def fls(xs):
    return [fl(x) for x in xs]


# ------------------------------------------------------------------ independent reference maths
def naive_dft(x, ns, sign=-1):
    """O(N * sum n) DFT over the leading len(ns) axes, no FFT library involved"""
    out = np.asarray(x, dtype=complex)
    for a, n in enumerate(ns):
        w = np.array([[cmath.exp(sign * 2j * math.pi * ((k * j) % n) / n) for j in range(n)]
                      for k in range(n)], dtype=complex)
        out = np.moveaxis(np.tensordot(w, out, axes=([1], [a])), 0, a)
    return out


def bin_of(real_last, n, j):
    """DFT bin (0 <= m < n) that array position j holds, as the property states it:
    centre_j = (j - n//2)/(n cell) shifted, j/(n cell) on the last axis of the real transform"""
    return j % n if real_last else (j - n // 2) % n


def kshape(real, ns):
    return [k // 2 + 1 if (real and a == len(ns) - 1) else k for a, k in enumerate(ns)]


def py_arrange(real, ns, bins):
    """reference arrangement (oracle side; the Coq model has its own)"""
    ks = kshape(real, ns)
    out = np.zeros(tuple(ks) + bins.shape[len(ns):], dtype=complex)
    for j in itertools.product(*[range(k) for k in ks]):
        src = tuple(bin_of(real and a == len(ns) - 1, ns[a], j[a]) for a in range(len(ns)))
        out[j] = bins[src]
    return out


def want_freq(real_last, n, cell, j):
    """the DFT sample frequency of position j: exact rational"""
    if n == 1:
        return F(0)
    m = j if real_last else j - n // 2
    return F(m) / (n * cell)


# ------------------------------------------------------------------ generators
DIMSETS = {1: [["x"], ["a"], ["k_x"], ["k_k_x"], ["k_"], ["kx"]],
           2: [["x", "y"], ["a", "b"], ["k_x", "k_y"], ["k_x", "x"], ["y", "x"], ["k_a", "b"]],
           3: [["x", "y", "z"], ["k_x", "k_y", "k_z"], ["a", "b", "c"], ["k_x", "k_y", "x"], ["z", "k_k_z", "k_z"]],
           4: [["x0", "x1", "x2", "x3"], ["k_x0", "k_x1", "k_x2", "k_x3"], ["x", "y", "z", "t"],
               ["k_x", "k_y", "k_z", "k_t"]]}
UNITS = ["m", "nm", "(m" + KSUF, "(nm" + KSUF, "(" + KSUF, "(m)", "m" + KSUF, "", "s", "((m" + KSUF + KSUF, "(m)" + KSUF,
         "(" + KSUF + "x"]


def gen_n(rng, nd, tier, cap):
    hi = 6 if tier == "quick" else 9
    while True:
        cls = rng.choice(["mixed", "mixed", "mixed", "odd", "even", "ones", "pow2"])
        n = []
        for _ in range(nd):
            if cls == "odd":
                k = rng.choice([1, 3, 5, 7, 9])
            elif cls == "even":
                k = rng.choice([2, 4, 6, 8])
            elif cls == "ones":
                k = rng.choice([1, 1, 2, 3])
            elif cls == "pow2":
                k = rng.choice([1, 2, 4, 8])
            else:
                k = rng.randint(1, hi)
            n.append(min(k, hi))
        if math.prod(n) <= cap:
            return n


def gen_mesh(rng, tier, nd=None, cap=10 ** 6, kspace=False):
    nd = nd or rng.choice([1, 1, 2, 2, 3, 3, 4])
    n = gen_n(rng, nd, tier, cap)
    regime = rng.choice(["dyadic", "dyadic", "scale"])
    p1, p2 = [], []
    s = rng.choice([1e-12, 1e-9, 1e-6, 1e-3, 1.0, 1e3, 1e6])
    for a in range(nd):
        if regime == "dyadic":
            cell = F(rng.choice([1, 1, 3, 5, 7]), 2 ** rng.randint(0, 4))
            lo = F(rng.randint(-256, 256), 8)
            hi = lo + n[a] * cell
        else:
            cell = round(rng.uniform(0.5, 9.5), rng.choice([0, 1, 2])) or 1.0
            off = rng.choice([0.0, round(rng.uniform(-50, 50), 2), round(rng.uniform(-5000, 5000), 1)])
            lo = off * s
            hi = (off + n[a] * cell) * s
        if rng.random() < 0.3:
            lo, hi = hi, lo
        p1.append(lo)
        p2.append(hi)
    if kspace:
        dims = rng.choice(DIMSETS[nd])
        units = [rng.choice(UNITS) for _ in range(nd)]
    else:
        dims = rng.choice(DIMSETS[nd][:3] + [DIMSETS[nd][0]] * 3)
        units = [rng.choice(["m", "m", "nm", "s", "", "(m" + KSUF]) for _ in range(nd)]
    return dict(p1=[S(x) for x in p1], p2=[S(x) for x in p2], n=n, dims=dims, units=units, regime=regime,
                seq=rng.choice(["list", "tuple", "ndarray"]))


def kmesh_of(rng, tier, rfft, nd=None):
    """a k-mesh written down from the closed formulas (not through the implementation) for an
    original mesh with counts n and cells c; returns (kmesh spec, original n, original cells)"""
    nd = nd or rng.choice([1, 2, 2, 3, 3, 4])
    n = gen_n(rng, nd, tier, 10 ** 6)
    p1, p2, nk, cells = [], [], [], []
    for a in range(nd):
        c = F(rng.choice([1, 2, 3, 5, 10]), rng.choice([1, 2, 4, 10, 1000, 10 ** 9]))
        cells.append(c)
        last = rfft and a == nd - 1
        if n[a] == 1:
            lo, hi, k = -F(1, 2) / c, F(1, 2) / c, 1
        elif last:
            k = n[a] // 2 + 1
            lo, hi = -F(1, 2) / (n[a] * c), (F(n[a] // 2) + F(1, 2)) / (n[a] * c)
        else:
            k = n[a]
            lo, hi = (-F(n[a] // 2) - F(1, 2)) / (n[a] * c), (F((n[a] - 1) // 2) + F(1, 2)) / (n[a] * c)
        p1.append(float(lo))
        p2.append(float(hi))
        nk.append(k)
    dims = ["k_" + d for d in DIMSETS[nd][0]]
    units = ["(m" + KSUF] * nd
    return dict(p1=[S(x) for x in p1], p2=[S(x) for x in p2], n=nk, dims=dims, units=units, regime="kmesh",
                seq=rng.choice(["list", "tuple", "ndarray"])), n, cells


def gen_shape(rng, nk, n_orig, rfft):
    """shape argument classes for Mesh.ifftn"""
    nd = len(nk)
    cls = rng.choice(["none", "none", "orig", "orig", "orig", "even", "odd", "int", "wronglen", "wronghead",
                      "wronglast", "zero", "str", "same"])
    if cls == "none":
        return cls, None
    if cls == "orig" and n_orig is not None:
        return cls, list(n_orig)
    if cls == "even":
        return cls, list(nk[:-1]) + [(nk[-1] - 1) * 2]
    if cls == "odd":
        return cls, list(nk[:-1]) + [(nk[-1] - 1) * 2 + 1]
    if cls == "int":
        return cls, (nk[-1] - 1) * 2 + rng.choice([0, 1])
    if cls == "wronglen":
        return cls, list(nk) + [2]
    if cls == "wronghead" and nd > 1:
        s = list(nk[:-1]) + [(nk[-1] - 1) * 2 + 1]
        s[rng.randrange(nd - 1)] += rng.choice([1, -1, 2])
        return cls, s
    if cls == "wronglast":
        return cls, list(nk[:-1]) + [(nk[-1] - 1) * 2 + rng.choice([-1, 2, 3, -2])]
    if cls == "zero":
        return cls, list(nk[:-1]) + [0]
    if cls == "str":
        return cls, "abc"
    return "same", list(nk)


VDIMS = {1: [None, ["s"], ["ft_s"], ["ft_"]],
         2: [["x", "y"], ["a", "b"], ["ft_a", "ft_b"], ["ft_a", "a"], ["ft_ft_a", "b"], ["ft_x", "y"]],
         3: [["x", "y", "z"], ["a", "b", "c"], ["ft_x", "ft_y", "ft_z"], ["ft_a", "b", "a"], ["mx", "my", "mz"]],
         4: [["v0", "v1", "v2", "v3"], ["ft_v0", "ft_v1", "ft_v2", "ft_v3"], ["a", "b", "c", "d"],
             ["ft_a", "ft_b", "ft_c", "ft_a"]]}
MAPVALS = ["x", "y", "z", "k_x", "k_y", "k_z", "k_k_x", "foo", "k_", "x0"]


def gen_names(rng):
    nv = rng.choice([1, 2, 2, 3, 3, 3, 4, 4])
    vd = rng.choice(VDIMS[nv])
    cls = rng.choice(["default", "empty", "full", "full", "full", "full"])
    items = None
    if vd is not None and len(set(vd)) == len(vd):
        if cls == "empty":
            items = []
        elif cls == "full":
            # pairwise distinct axes (a permuted mapping is then visible), sometimes repeated ones
            vals = rng.sample(MAPVALS, nv) if rng.random() < 0.8 else [rng.choice(MAPVALS) for _ in vd]
            items = [[v, d] for v, d in zip(vd, vals)]
            # the insertion order of the dict is independent of the mapping it encodes
            rng.shuffle(items)
    nd = rng.choice([1, 2, 3]) if rng.random() < 0.7 else nv
    return dict(kind="names", nv=nv, vdims=vd, mapping=items, nd=min(nd, 3) if nd != nv else nd,
                seq=rng.choice(["list", "tuple", "ndarray"]),
                op=rng.choice(["fftn", "rfftn", "ifftn", "irfftn"]))


TINY = [1e-10, 2.0 ** -40, 1e-12, 2.0 ** -60]
EXTREME = [2.0 ** -200, 2.0 ** 300, 2.0 ** 100, 2.0 ** -120]


def gen_values_spec(rng, real, extreme=False, plain=False):
    """value array spec: class of pattern, magnitudes of real and imaginary part (chosen independently:
    order one, a tiny imaginary part next to an order-one real part, the whole field tiny or huge), dtype,
    memory layout of the array handed to Field, validity mask (False cells hold non-zero values)"""
    cplx = (not real) and rng.random() < 0.6
    mag = "one" if plain else rng.choice(["one", "one", "one", "tiny-imag", "tiny-all", "tiny-real", "far"])
    tiny = TINY + (EXTREME[:1] if extreme else [])
    far = (EXTREME if extreme else [2.0 ** 100, 2.0 ** -60])
    if mag == "one":
        sre = sim = rng.choice([1, 1, 1, 1e-3, 1e6, 2.0 ** -20])
    elif mag == "tiny-imag":
        sre, sim = 1.0, rng.choice(tiny)
    elif mag == "tiny-real":
        sre, sim = rng.choice(tiny), 1.0
    elif mag == "tiny-all":
        sre = sim = rng.choice(tiny)
    else:
        sre = sim = rng.choice(far)
    cls = rng.choice(["rand", "rand", "rand", "delta", "const", "ints", "zero" if rng.random() < 0.2 else "rand"])
    dtype = None
    if mag == "one" and rng.random() < 0.25:
        dtype = rng.choice(["complex64" if cplx else "float32", "int" if not cplx else "complex64"])
        if dtype == "int":
            cls, sre, sim = "ints", 1.0, 1.0
        elif sre not in (1, 1.0):
            sre = sim = 1.0
    valid = None
    u = rng.random()
    if u < 0.3:
        valid = dict(kind="bool", seed=rng.randrange(10 ** 9), p=rng.choice([0.2, 0.5, 0.9]))
    elif u < 0.4:
        valid = dict(kind="callable", seed=rng.randrange(10 ** 9))
    elif u < 0.45:
        valid = dict(kind="norm")
    return dict(cplx=cplx, seed=rng.randrange(10 ** 9), scale=sre, scale_im=sim, mag=mag, cls=cls,
                dtype=dtype, layout=rng.choice(LAYOUTS), valid=valid, no_dtype_arg=rng.random() < 0.4,
                re_zero=cplx and rng.random() < 0.08, im_zero=cplx and rng.random() < 0.08)


def make_values(spec, shape):
    """the values as a plain C-ordered array (reference copy); see field_of for what is handed to Field"""
    r = random.Random(spec["seed"])
    nvals = int(np.prod(shape))

    def one():
        if spec["cls"] == "ints":
            return float(r.randint(-9, 9))
        return r.randint(-2 ** 20, 2 ** 20) / 2.0 ** 17
    if spec["cls"] == "zero":
        re = np.zeros(nvals)
        im = np.zeros(nvals)
    elif spec["cls"] == "const":
        re = np.full(nvals, one())
        im = np.full(nvals, one())
    elif spec["cls"] == "delta":
        re = np.zeros(nvals)
        im = np.zeros(nvals)
        re[r.randrange(nvals)] = one()
        im[r.randrange(nvals)] = one()
    else:
        re = np.array([one() for _ in range(nvals)])
        im = np.array([one() for _ in range(nvals)])
    s = spec["scale"]
    si = spec.get("scale_im", s)
    if spec.get("re_zero"):
        re = np.zeros(nvals)
    if spec.get("im_zero"):
        im = np.zeros(nvals)
    if spec["cplx"]:
        out = (re * s + 1j * (im * si)).reshape(shape)
    else:
        out = (re * s).reshape(shape)
    dt = spec.get("dtype")
    if dt == "int":
        out = out.astype(complex).real.astype(np.int64) if not spec["cplx"] else out
    elif dt in ("float32", "complex64"):
        out = out.astype(np.complex64 if np.iscomplexobj(out) else np.float32)
    return np.ascontiguousarray(out)


def single(x):
    return np.asarray(x).dtype in (np.float32, np.complex64)


def make_valid(spec, mesh):
    """validity argument for Field: None (default True), a Boolean array with False cells (their values are
    not zero), a callable of the cell centre, or 'norm'"""
    v = (spec or {}).get("valid")
    if v is None:
        return True
    if v["kind"] == "norm":
        return "norm"
    r = random.Random(v["seed"])
    n = tuple(int(k) for k in mesh.n)
    if v["kind"] == "bool":
        a = np.array([r.random() < v["p"] for _ in range(int(np.prod(n)))], dtype=bool).reshape(n)
        return a
    axis = r.randrange(len(n))
    mid = float(mesh.region.center[axis])
    return lambda point: bool(np.atleast_1d(point)[axis] < mid)


def field_of(mesh, nv, x, spec, **kw):
    """Field over mesh holding x, handed over in the memory layout / dtype / with the validity of the spec"""
    if spec.get("no_dtype_arg") and x.dtype in (np.float64, np.complex128):
        return df.Field(mesh, nvdim=nv, value=relayout(x.copy(), spec.get("layout")),
                        valid=make_valid(spec, mesh), **kw)
    f = df.Field(mesh, nvdim=nv, value=relayout(x.copy(), spec.get("layout")), dtype=x.dtype,
                 valid=make_valid(spec, mesh), **kw)
    return f


# ------------------------------------------------------------------ directed core
def dmesh(n, cells=None, origin=None, dims=None, units=None, seq="list"):
    nd = len(n)
    cells = cells or [F(1, 2), F(3, 4), F(5, 8), F(1, 4)][:nd]
    origin = origin or [F(-3, 2), F(1, 4), F(2), F(-1)][:nd]
    return dict(p1=[S(o) for o in origin], p2=[S(o + k * c) for o, k, c in zip(origin, n, cells)], n=list(n),
                dims=dims or DIMSETS[nd][0], units=units or ["m"] * nd, regime="directed", seq=seq)


def dvals(seed, cplx=False, sre=1.0, sim=None, cls="rand", mag="one", **kw):
    v = dict(cplx=cplx, seed=seed, scale=sre, scale_im=sre if sim is None else sim, mag=mag, cls=cls, dtype=None,
             layout=None, valid=None, no_dtype_arg=False, re_zero=False, im_zero=False)
    v.update(kw)
    return v


def directed_core():
    """seed-, tier- and run-independent cases: one small group per mechanism a change was once seeded
    into (rounds a-e, /verif/seeded/C11-*), so that detecting it never depends on the random streams"""
    r = random.Random(424242)
    sd = lambda: r.randrange(10 ** 9)  # noqa: E731
    cs = []
    # a1 / e2 / d1: real inverse, odd non-last axes, with and without shape, one-cell last axis
    for n0, ws in [([3, 4], "list"), ([3, 4], "none"), ([5, 3], "list"), ([3, 2, 4], "none"), ([3, 5, 2], "list"),
                   ([7], "int"), ([4], "none"), ([6], "list"), ([3, 1], "none"), ([4, 3, 1], "none"), ([1], "none"),
                   ([2, 3, 6], "none"), ([1, 1], "list")]:
        cs.append(dict(kind="inv", op="irfftn", n0=n0, nv=2, mesh=dmesh(n0), with_shape=ws, values=dvals(sd())))
    for n0 in ([3, 4], [5], [2, 3, 3]):
        cs.append(dict(kind="inv", op="ifftn", n0=n0, nv=1, mesh=dmesh(n0), values=dvals(sd(), cplx=True)))
    # a2 / d2: k-mesh coordinates on odd axes; names and units that already look reciprocal
    for n, rf in [([3], False), ([5, 4], False), ([5, 4], True), ([7, 3, 2], True), ([3, 3, 3, 3], False),
                  ([1, 5], True), ([9], True), ([2], False)]:
        cs.append(dict(kind="meshf", mesh=dmesh(n), rfft=rf))
    cs.append(dict(kind="meshf", mesh=dmesh([4, 3], dims=["k_x", "k_y"], units=["(nm" + KSUF, "(m" + KSUF]), rfft=False))
    cs.append(dict(kind="meshf", mesh=dmesh([4, 3], dims=["k_x", "y"], units=["(nm" + KSUF, "m"], seq="tuple"), rfft=True))
    cs.append(dict(kind="meshf", mesh=dmesh([3], dims=["k_k_x"], units=["((m" + KSUF + KSUF]), rfft=False))
    for n0, rf, shp, cls in [([4, 3], True, None, "none"), ([4, 5], True, [4, 5], "orig"), ([4, 6], True, None, "none"),
                             ([3, 1], True, None, "none"), ([5], False, None, "none"), ([4, 5], True, [4, 4], "even")]:
        km, nn, c0 = kmesh_of(random.Random(7), "quick", rf, nd=len(n0))
        # rebuild the k-mesh for exactly these counts from the closed formulas
        p1, p2, nk = [], [], []
        for a, k in enumerate(n0):
            c = c0[a]
            last = rf and a == len(n0) - 1
            if k == 1:
                lo, hi, kk = -F(1, 2) / c, F(1, 2) / c, 1
            elif last:
                lo, hi, kk = -F(1, 2) / (k * c), (F(k // 2) + F(1, 2)) / (k * c), k // 2 + 1
            else:
                lo, hi, kk = (-F(k // 2) - F(1, 2)) / (k * c), (F((k - 1) // 2) + F(1, 2)) / (k * c), k
            p1.append(S(float(lo)))
            p2.append(S(float(hi)))
            nk.append(kk)
        km = dict(km, p1=p1, p2=p2, n=nk, seq="list")
        cs.append(dict(kind="meshi", mesh=km, rfft=rf, shape=shp, shape_cls=cls,
                       n0=n0 if cls != "even" else None, c0=[S(c) for c in c0] if cls != "even" else None))
    # a3 / b2 / e1: labels (first characters f, t, _), mapping written in another order, named scalars
    for vd, items in [(["fx", "fy", "fz"], [["fz", "z"], ["fx", "x"], ["fy", "y"]]),
                      (["theta", "t"], [["t", "y"], ["theta", "x"]]),
                      (["ft_ft_a", "_b"], [["_b", "k_y"], ["ft_ft_a", "k_x"]]),
                      (["a", "b", "c"], [["c", "z"], ["a", "x"], ["b", "y"]]),
                      (["ft_a", "ft_b", "ft_c"], [["ft_b", "k_y"], ["ft_c", "k_z"], ["ft_a", "k_x"]]),
                      (["s"], [["s", "x"]]), (["ft_s"], [["ft_s", "k_x"]]), (["t"], []), (None, None),
                      (["v0", "v1", "v2", "v3"], [["v3", "x"], ["v1", "z"], ["v0", "y"], ["v2", "foo"]])]:
        for op in ("fftn", "rfftn", "ifftn", "irfftn"):
            nv = 1 if vd is None else len(vd)
            cs.append(dict(kind="names", nv=nv, vdims=vd, mapping=items, nd=3 if nv == 3 else 2, seq="list", op=op))
    # b1 / b3 / c3 / d3 / e3: forward transforms
    for n, op in [([3, 4, 2], "rfftn"), ([2, 3, 3, 2], "rfftn"), ([5], "rfftn"), ([4], "rfftn"), ([3, 3], "rfftn"),
                  ([1, 4, 1], "rfftn"), ([3, 4], "fftn"), ([5, 2, 3], "fftn")]:
        cs.append(dict(kind="fwd", op=op, mesh=dmesh(n), nv=2, values=dvals(sd())))
    for n in ([3, 4], [5], [2, 3, 2]):                      # complex sources re-used afterwards
        cs.append(dict(kind="fwd", op="fftn", mesh=dmesh(n), nv=2, values=dvals(sd(), cplx=True)))
        cs.append(dict(kind="fwd", op="fftn", mesh=dmesh(n), nv=1, values=dvals(sd(), cplx=True, layout="F")))
    for n, op in [([4, 3], "fftn"), ([4, 3], "rfftn"), ([5, 4, 3], "rfftn"), ([6], "fftn")]:   # validity
        cs.append(dict(kind="fwd", op=op, mesh=dmesh(n), nv=2,
                       values=dvals(sd(), valid=dict(kind="bool", seed=sd(), p=0.5))))
        cs.append(dict(kind="fwd", op=op, mesh=dmesh(n), nv=1, values=dvals(sd(), valid=dict(kind="callable", seed=sd()))))
    for n, op in [([4, 3], "fftn"), ([4, 3], "rfftn"), ([5], "rfftn")]:                       # dtypes
        for dt, ndt in [(None, False), (None, True), ("float32", False), ("int", False)]:
            cs.append(dict(kind="fwd", op=op, mesh=dmesh(n), nv=2,
                           values=dvals(sd(), dtype=dt, no_dtype_arg=ndt, cls="ints" if dt == "int" else "rand")))
    for n in ([4, 5], [3, 1, 6], [7]):                      # the real transform of complex-typed fields
        cs.append(dict(kind="fwd", op="rfftn", mesh=dmesh(n), nv=2, values=dvals(sd(), cplx=True)))
        cs.append(dict(kind="fwd", op="rfftn", mesh=dmesh(n), nv=1, values=dvals(sd(), cplx=True, sim=1e-10, mag="tiny-imag")))
        cs.append(dict(kind="fwd", op="rfftn", mesh=dmesh(n), nv=1, values=dvals(sd(), cplx=True, sim=2.0 ** -60, mag="tiny-imag")))
        cs.append(dict(kind="fwd", op="rfftn", mesh=dmesh(n), nv=1, values=dvals(sd(), cplx=True, cls="delta")))
        cs.append(dict(kind="fwd", op="rfftn", mesh=dmesh(n), nv=1, values=dvals(sd(), cplx=True, re_zero=True, sim=2.0 ** -40, mag="tiny-all")))
        cs.append(dict(kind="fwd", op="rfftn", mesh=dmesh(n), nv=2, values=dvals(sd(), cplx=True, im_zero=True)))
    # b1 / c1 / c3 / e3: algebra (round trips, linearity, rescaling) on complex fields of every magnitude
    for n, (sre, sim, mag) in [([4, 6], (1e-10, 1e-10, "tiny-all")), ([3, 4], (2.0 ** -40, 2.0 ** -40, "tiny-all")),
                               ([5], (2.0 ** -200, 2.0 ** -200, "tiny-all")), ([4, 3], (1.0, 1e-10, "tiny-imag")),
                               ([2, 3, 2], (1.0, 2.0 ** -30, "tiny-imag")), ([3, 3], (1.0, 1.0, "one")),
                               ([4], (2.0 ** 300, 2.0 ** 300, "far")), ([3, 2], (1e-12, 1.0, "tiny-real"))]:
        cs.append(dict(kind="algebra", mesh=dmesh(n), nv=2, values=dvals(sd(), cplx=True, sre=sre, sim=sim, mag=mag),
                       values2=dvals(sd(), cplx=True), coef=[1.5, -0.75]))
    for n, valid in [([4, 3], dict(kind="bool", seed=11, p=0.5)), ([5, 4, 3], dict(kind="bool", seed=12, p=0.2)),
                     ([3, 4], dict(kind="callable", seed=13)), ([3, 5], None), ([4, 3, 1], None), ([1], None), ([6, 1], None)]:
        cs.append(dict(kind="algebra", mesh=dmesh(n), nv=3 if len(n) == 3 else 2, values=dvals(sd(), valid=valid),
                       values2=dvals(sd()), coef=[2.0, 0.5]))
    # c2: used, changed in place, transformed again
    for n, steps in [([4, 6], [dict(op="scale", factor=[2.0, 0.5], ref=False)]),
                     ([4, 6], [dict(op="units", units=["nm", "nm"])]),
                     ([4, 6], [dict(op="rotate90", ax=[0, 1], k=1, on="field")]),
                     ([3, 4], [dict(op="dims", dims=["a", "b"])]),
                     ([3, 4], [dict(op="translate", vector=[1.0, -2.5]), dict(op="scale", factor=3.0, ref=True)]),
                     ([2, 3, 4], [dict(op="rotate90", ax=[2, 0], k=3, on="field"), dict(op="units", units=["s", "", "px"])]),
                     ([5], [dict(op="scale", factor=[0.25], ref=False), dict(op="dims", dims=["t"])])]:
        for rf in (False, True):
            cs.append(dict(kind="state", mesh=dmesh(n), nv=1, values=dvals(sd()), steps=steps, rfft=rf))
    return cs


def generate(rng, tier):
    q = tier == "quick"
    cases = []
    # --- mesh bookkeeping
    for _ in range(150 if q else 1000):
        cases.append(dict(kind="meshf", mesh=gen_mesh(rng, tier), rfft=rng.random() < 0.5))
    for _ in range(150 if q else 1000):
        rfft = rng.random() < 0.6
        if rng.random() < 0.75:
            km, n0, c0 = kmesh_of(rng, tier, rfft)
            cls, sh = gen_shape(rng, km["n"], n0, rfft)
            cases.append(dict(kind="meshi", mesh=km, rfft=rfft, shape=sh, shape_cls=cls, n0=n0, c0=[S(c) for c in c0]))
        else:
            km = gen_mesh(rng, tier, kspace=True)
            cls, sh = gen_shape(rng, km["n"], None, rfft)
            cases.append(dict(kind="meshi", mesh=km, rfft=rfft, shape=sh, shape_cls=cls, n0=None, c0=None))
    # --- names
    for _ in range(120 if q else 600):
        cases.append(gen_names(rng))
    # --- spectra
    cap = 48 if q else 160
    for _ in range(110 if q else 600):
        op = rng.choice(["fftn", "rfftn"])
        nv = rng.choice([1, 1, 2, 3, 3, 4])
        m = gen_mesh(rng, tier, cap=cap // (1 if nv < 3 else 2))
        cases.append(dict(kind="fwd", op=op, mesh=m, nv=nv,
                          values=gen_values_spec(rng, real=(op == "rfftn" and rng.random() < 0.85))))
    for _ in range(90 if q else 450):
        op = rng.choice(["ifftn", "irfftn", "irfftn"])
        nv = rng.choice([1, 1, 2, 3])
        nd = rng.choice([1, 2, 2, 3, 3, 4])
        n0 = gen_n(rng, nd, tier, cap // (1 if nv < 3 else 2))
        m = gen_mesh(rng, tier, nd=nd)
        c = dict(kind="inv", op=op, n0=n0, nv=nv, mesh=m, values=gen_values_spec(rng, real=(op == "irfftn")))
        c["values"]["dtype"] = None
        if c["values"]["cls"] == "ints" and c["values"]["scale"] == 1.0:
            pass
        if op == "irfftn":
            c["with_shape"] = rng.choice(["list", "list", "none", "int" if nd == 1 else "list"])
            if c["with_shape"] == "none" and n0[-1] % 2 == 1 and n0[-1] != 1:
                c["with_shape"] = "list"
        cases.append(c)
    # --- algebra (oracle only)
    for _ in range(90 if q else 500):
        nv = rng.choice([1, 2, 3, 3, 4])
        m = gen_mesh(rng, tier, cap=(64 if q else 256) // (1 if nv < 3 else 2))
        cases.append(dict(kind="algebra", mesh=m, nv=nv,
                          values=gen_values_spec(rng, real=rng.random() < 0.5, extreme=True),
                          values2=gen_values_spec(rng, real=rng.random() < 0.6, plain=True),
                          coef=[rng.randint(-8, 8) / 4.0, rng.randint(-8, 8) / 4.0]))
    # --- used, then changed in place, then transformed again
    for _ in range(60 if q else 350):
        nv = rng.choice([1, 1, 2, 3])
        nd = rng.choice([1, 2, 2, 3, 3])
        if nv == 3 and rng.random() < 0.5:
            nd = 3
        m = gen_mesh(rng, tier, nd=nd, cap=36)
        v = gen_values_spec(rng, real=rng.random() < 0.7, plain=True)
        v["dtype"] = None
        cases.append(dict(kind="state", mesh=m, nv=nv, values=v, steps=gen_steps(rng, nd, nv), rfft=rng.random() < 0.5))
    rng.shuffle(cases)
    # the directed core comes first and is the same in every run
    return directed_core() + cases


# ------------------------------------------------------------------ implementation side
def as_seq(xs, kind):
    """the same names handed over as list / tuple / numpy array"""
    if xs is None:
        return None
    if kind == "tuple":
        return tuple(xs)
    if kind == "ndarray":
        return np.array(list(xs))
    return list(xs)


def build_mesh(m):
    kind = m.get("seq", "list")
    region = df.Region(p1=fls(m["p1"]), p2=fls(m["p2"]), dims=as_seq(m["dims"], kind), units=as_seq(m["units"], kind))
    return df.Mesh(region=region, n=m["n"])


def snapshot(f):
    """everything of a source field that a transform must leave alone"""
    return (f.array.copy(), None if f.vdims is None else list(f.vdims), dict(f.vdim_mapping),
            list(f.vdim_mapping.items()), f.unit, [int(v) for v in f.mesh.n],
            f.mesh.region.pmin.copy(), f.mesh.region.pmax.copy(), tuple(f.mesh.region.dims), tuple(f.mesh.region.units))


def same_snapshot(a, b):
    return (a[0].dtype == b[0].dtype and a[0].shape == b[0].shape and np.array_equal(a[0], b[0], equal_nan=True)
            and a[1] == b[1] and a[2] == b[2] and a[3] == b[3] and a[4] == b[4] and a[5] == b[5]
            and np.array_equal(a[6], b[6]) and np.array_equal(a[7], b[7]) and a[8] == b[8] and a[9] == b[9])


def transform_twice(rec, f, op, kw=None):
    """run a transform on f with the operand snapshot armed: the source field is untouched and can be
    re-used (a second call gives the same result); returns (status, result)"""
    kw = kw or {}
    before = snapshot(f)
    st, out = attempt(lambda: getattr(f, op)(**kw))
    if not same_snapshot(before, snapshot(f)):
        rec["oracle"].append("source-field-modified-by-" + op)
    if st == "ok":
        st2, again = attempt(lambda: getattr(f, op)(**kw))
        if st2 != "ok" or again.array.shape != out.array.shape or \
                not np.array_equal(again.array, out.array, equal_nan=True):
            rec["oracle"].append("source-field-not-reusable-after-" + op)
        if np.shares_memory(out.array, f.array):
            rec["oracle"].append("result-aliases-the-source-array")
    return st, out


def mesh_obs(k):
    return dict(pmin=js(k.region.pmin), pmax=js(k.region.pmax), n=[int(x) for x in k.n],
                dims=list(k.region.dims), units=list(k.region.units))


def mesh_obs_coq(o):
    if o is None:
        return "None"
    return (f'(Some ({g.ql(o["pmin"])}, {g.ql(o["pmax"])}, {g.zl(o["n"])}, {g.sl(o["dims"])}, '
            f'{g.sl(o["units"])}))')


def mesh_in_coq(m):
    return f'{g.ql(m["p1"])} {g.ql(m["p2"])} {g.zl(m["n"])} {g.sl(m["dims"])} {g.sl(m["units"])}'


def cells_of(m):
    return [abs(F(b) - F(a)) / k for a, b, k in zip(m["p1"], m["p2"], m["n"])]


def shape_coq(sh):
    if sh is None:
        return "ShNone"
    if isinstance(sh, int):
        return f"(ShInt {g.z(sh)})"
    if isinstance(sh, list):
        return f"(ShList {g.zl(sh)})"
    return "ShBad"


def cq(zv):
    zv = complex(zv)
    return f"({g.q(zv.real)}, {g.q(zv.imag)})"


def arr_coq(a, nd):
    """(*n, nv) complex array -> list (list cplx), C order over the cells"""
    nv = a.shape[-1]
    flat = np.asarray(a, dtype=complex).reshape(-1, nv)
    return g.lst([g.lst([cq(zv) for zv in row]) for row in flat])


def close_arr(a, b, tol):
    a, b = np.asarray(a, dtype=complex), np.asarray(b, dtype=complex)
    if a.shape != b.shape:
        return False
    d = a - b
    return bool(np.all(np.isfinite(d.real)) and np.all(np.isfinite(d.imag)) and
                (d.size == 0 or max(np.abs(d.real).max(), np.abs(d.imag).max()) <= tol))


def l1(a):
    a = np.asarray(a, dtype=complex)
    return float(np.abs(a.real).sum() + np.abs(a.imag).sum())


def check_kmesh(rec, m, rfft, k):
    """oracle for a k-mesh k obtained from mesh spec m"""
    n, cell = m["n"], cells_of(m)
    nd = len(n)
    if [int(x) for x in k.n] != kshape(rfft, n):
        rec["oracle"].append("kmesh-counts")
        return
    for a in range(nd):
        last = rfft and a == nd - 1
        sc = float(1 / cell[a])
        for j in range(int(k.n[a])):
            idx = [0] * nd
            idx[a] = j
            got = k.index2point(tuple(idx))[a]
            if abs(got - float(want_freq(last, n[a], cell[a], j))) > TOL * sc:
                rec["oracle"].append("kcentre-is-not-the-dft-frequency")
                break
        if n[a] > 1 and abs(float(k.cell[a]) - float(1 / (n[a] * cell[a]))) > TOL * sc:
            rec["oracle"].append("kcell-size")
    if list(k.region.dims) != ["k_" + d for d in m["dims"]]:
        rec["oracle"].append("reciprocal-dims")
    if list(k.region.units) != ["(" + u + KSUF for u in m["units"]]:
        rec["oracle"].append("reciprocal-units")


def check_back_mesh(rec, m, back, want_n=None):
    """oracle: inverse mesh has the original cell size and counts and is centred at the origin"""
    n, cell = (want_n or m["n"]), cells_of(m)
    if [int(x) for x in back.n] != list(n):
        rec["oracle"].append("roundtrip-counts")
        return
    for a in range(len(n)):
        c = float(cell[a])
        if abs(float(back.cell[a]) - c) > TOL * c:
            rec["oracle"].append("roundtrip-cell")
        if abs(float(back.region.pmin[a] + back.region.pmax[a])) > TOL * c * n[a]:
            rec["oracle"].append("roundtrip-not-centred")
    if list(back.region.dims) != list(m["dims"]) and not any(d.startswith("k_") for d in m["dims"]):
        rec["oracle"].append("roundtrip-dims")
    if list(back.region.units) != list(m["units"]) and not any(u.startswith("(") and u.endswith(KSUF) for u in m["units"]):
        rec["oracle"].append("roundtrip-units")


def run_case(c):
    kind = c["kind"]
    rec = dict(kind=kind, case=c, oracle=[], tags=[], coq=None)
    try:
        rec = globals()["run_" + kind](c, rec)
    except Exception as e:  # noqa: BLE001 - a transform of a well-formed field/mesh raised where none may
        rec["oracle"].append("call-on-wellformed-input-raised")
        rec.update(obs=dict(err=type(e).__name__, msg=str(e)[:200]), key=f"{kind}/raised/{type(e).__name__}",
                   size=1)
        rec.pop("coq", None)
    rec["oracle"] = sorted(set(rec["oracle"]))
    if rec.get("coq") is None:
        rec.pop("coq", None)     # oracle-only case (the driver sizes records by len(coq))
    return rec


def run_meshf(c, rec):
    m, rfft = c["mesh"], c["rfft"]
    mesh = build_mesh(m)
    st, k = attempt(lambda: mesh.fftn(rfft=rfft))
    obs = mesh_obs(k) if st == "ok" else None
    if st == "ok":
        check_kmesh(rec, m, rfft, k)
    else:
        rec["oracle"].append("mesh-fftn-rejected")
    nshape = "".join("1" if x == 1 else ("e" if x % 2 == 0 else "o") for x in m["n"])
    rec.update(obs=obs or dict(err=k), coq=f"CMeshF {mesh_in_coq(m)} {g.b(rfft)} {mesh_obs_coq(obs)}",
               key=f'meshf/{rfft}/{m["regime"]}/{nshape}/{st}', size=len(m["n"]) + sum(m["n"]))
    return rec


def run_meshi(c, rec):
    m, rfft, sh = c["mesh"], c["rfft"], c["shape"]
    mesh = build_mesh(m)
    arg = tuple(sh) if isinstance(sh, list) and c.get("shape_cls") == "orig" else sh
    st, r = attempt(lambda: mesh.ifftn(rfft=rfft, shape=arg))
    obs = mesh_obs(r) if st == "ok" else None
    n = m["n"]
    # oracle: a matching shape must be accepted and must be honoured
    shl = [sh] if isinstance(sh, int) else sh
    if isinstance(shl, list):
        valid = (len(shl) == len(n) and shl[:-1] == n[:-1] and shl[-1] // 2 + 1 == n[-1] and shl[-1] >= 1)
        mism = len(shl) != len(n) or shl[:-1] != n[:-1] or shl[-1] < 1
    else:
        valid, mism = sh is None, False
    if st == "ok":
        want_n = shl if isinstance(shl, list) else None
        if mism:
            rec["oracle"].append("mismatching-shape-accepted")
        elif want_n is not None and [int(x) for x in r.n] != want_n:
            rec["oracle"].append("shape-not-honoured")
        if c.get("n0") is not None:
            # a k-mesh of a known original: cell sizes come back; with the original counts
            # (explicit, or implied for the full transform / an even last axis) the counts too
            c0 = [F(x) for x in c["c0"]]
            n0 = c["n0"]
            implied = sh is None and (not rfft or n0[-1] % 2 == 0 or n0[-1] == 1)
            if (want_n == n0) or implied:
                if [int(x) for x in r.n] != n0:
                    rec["oracle"].append("roundtrip-counts")
                else:
                    for a in range(len(n0)):
                        cc = float(c0[a])
                        if abs(float(r.cell[a]) - cc) > TOL * cc:
                            rec["oracle"].append("roundtrip-cell")
                        if abs(float(r.region.pmin[a] + r.region.pmax[a])) > TOL * cc * n0[a]:
                            rec["oracle"].append("roundtrip-not-centred")
                    if list(r.region.dims) != [d[2:] for d in m["dims"]]:
                        rec["oracle"].append("roundtrip-dims")
                    if list(r.region.units) != ["m"] * len(n0):
                        rec["oracle"].append("roundtrip-units")
    else:
        clash = len({(d[2:] if d.startswith("k_") else d) for d in m["dims"]}) < len(m["dims"])
        # (an explicit shape with the full, non-real kind is outside the property: may be rejected)
        if valid and not clash and (rfft or sh is None):
            rec["oracle"].append("valid-shape-rejected")
    rec.update(obs=obs or dict(err=r),
               coq=f"CMeshI {mesh_in_coq(m)} {g.b(rfft)} {shape_coq(sh)} {mesh_obs_coq(obs)}",
               key=f'meshi/{rfft}/{m["regime"]}/{c.get("shape_cls")}/{len(n)}/{st}/{n[-1] % 2}',
               size=len(n) + sum(n))
    return rec


def small_mesh(nd):
    n = [3, 2, 4, 2][:nd]
    return df.Mesh(p1=[0] * nd, p2=n, n=n)


def run_names(c, rec):
    nv, op = c["nv"], c["op"]
    mesh = small_mesh(c["nd"])
    vals = np.arange(np.prod(mesh.n) * nv, dtype=float).reshape(*mesh.n, nv)
    if op in ("ifftn",):
        vals = vals + 0j
    mapping = None if c["mapping"] is None else {k: v for k, v in c["mapping"]}   # insertion order as generated
    st0, f = attempt(lambda: df.Field(mesh, nvdim=nv, value=vals, vdims=as_seq(c["vdims"], c.get("seq", "list")),
                                      vdim_mapping=mapping))
    if st0 != "ok":
        rec.update(obs=dict(err=f, stage="constructor"), key=f"names/ctor-rejected/{nv}", size=nv)
        return rec
    vd = None if f.vdims is None else list(f.vdims)
    mp = [(v, f.vdim_mapping[v]) for v in (vd or []) if v in f.vdim_mapping]
    inverse = op in ("ifftn", "irfftn")
    st, out = transform_twice(rec, f, op)
    if st == "ok":
        ovd = None if out.vdims is None else list(out.vdims)
        omp = [(v, out.vdim_mapping[v]) for v in (ovd or []) if v in out.vdim_mapping]
        obs = dict(vdims=ovd, mapping=omp, unit=out.unit)
        coq_obs = (f"(Some ({g.opt(ovd, g.sl)}, "
                   f"{g.lst([g.pair(g.s(a), g.s(b)) for a, b in omp])}))")
        if len(out.vdim_mapping) != len(omp):
            rec["oracle"].append("mapping-keys-are-not-labels")
        if not inverse:
            if vd is not None and ovd != ["ft_" + v for v in vd]:
                rec["oracle"].append("forward-labels")
            if omp != [("ft_" + a, "k_" + b) for a, b in mp]:
                rec["oracle"].append("forward-mapping")
            # and the inverse transform gives the names back
            st2, back = attempt(lambda: getattr(out, {"fftn": "ifftn", "rfftn": "irfftn"}[op])(
                **({"shape": tuple(int(x) for x in mesh.n)} if op == "rfftn" else {})))
            if st2 != "ok":
                rec["oracle"].append("names-roundtrip-rejected")
            else:
                bvd = None if back.vdims is None else list(back.vdims)
                bmp = [(v, back.vdim_mapping[v]) for v in (bvd or []) if v in back.vdim_mapping]
                if bvd != vd or bmp != mp:
                    rec["oracle"].append("names-roundtrip")
        else:
            strip = lambda v: v[3:] if v.startswith("ft_") else v  # noqa: E731
            stripk = lambda d: d[2:] if d.startswith("k_") else d  # noqa: E731
            if vd is not None and ovd != [strip(v) for v in vd]:
                rec["oracle"].append("inverse-labels")
            if omp != [(strip(a), stripk(b)) for a, b in mp]:
                rec["oracle"].append("inverse-mapping")
        if (vd is None) != (ovd is None):
            rec["oracle"].append("labels-appear-or-vanish")
    else:
        obs = dict(err=out)
        coq_obs = "None"
        clash = vd is not None and inverse and len({(v[3:] if v.startswith("ft_") else v) for v in vd}) < len(vd)
        if not clash:
            rec["oracle"].append("transform-rejected")
    rec.update(obs=obs, coq=(f"CNames {g.b(inverse)} {g.opt(vd, g.sl)} "
                             f"{g.lst([g.pair(g.s(a), g.s(b)) for a, b in mp])} {coq_obs}"),
               key=f"names/{op}/{nv}/{vd}/{sorted(mp)}/{st}", size=nv)
    return rec


def oracle_forward(rec, mesh, ft, x, real, tolf=TOL):
    """the property text: every k-cell holds sum_r value(r) exp(-2 pi i k.r), r counted from the
    first cell (r = index * cell), k the k-cell's centre as the implementation's k-mesh gives it"""
    n = [int(v) for v in mesh.n]
    nd = len(n)
    km = ft.mesh
    idx = np.array(list(itertools.product(*[range(k) for k in n])), dtype=float)
    r = idx * np.asarray(mesh.cell, dtype=float)
    xf = np.asarray(x, dtype=complex).reshape(len(idx), -1)
    kidx = list(itertools.product(*[range(int(k)) for k in km.n]))
    if tuple(ft.array.shape[:nd]) != tuple(int(k) for k in km.n):
        rec["oracle"].append("array-shape-differs-from-kmesh")
        return
    kpts = np.array([km.index2point(j) for j in kidx], dtype=float).reshape(len(kidx), nd)
    single = np.array([k == 1 for k in n])
    phase = np.exp(-2j * np.pi * (kpts @ r.T))
    want = (phase @ xf).reshape(ft.array.shape)
    tol = tolf * max(l1(x), 1e-300)
    if not close_arr(ft.array, want, tol * max(1, len(idx)) ** 0.5):
        rec["oracle"].append("spectrum-is-not-the-dft-at-the-kcell-centres")
    # zero-frequency cell = plain sum
    zero = tuple(0 if (real and a == nd - 1) else n[a] // 2 for a in range(nd))
    if np.any(np.abs(km.index2point(zero)) > TOL * np.abs(1 / np.asarray(mesh.cell, dtype=float))):
        rec["oracle"].append("zero-frequency-cell-misplaced")
    if not close_arr(ft.array[zero], xf.sum(axis=0), tol):
        rec["oracle"].append("zero-bin-is-not-the-sum")
    del single


def half_of_full(full, n_last):
    """cells of the centred full spectrum with non-negative last-axis frequency (mod n), in rfft order"""
    idx = [(n_last // 2 + j) % n_last for j in range(n_last // 2 + 1)]
    return full[..., idx, :]


def real_of_complex(rec, mesh, f, ft, x, n, nv):
    """rfftn accepted a complex-typed field: the result must be the matching half of fftn"""
    ncells = int(np.prod(n))

    def cmp(field, res, label):
        full = field.fftn().array
        want = half_of_full(full, n[-1])
        mag = float(np.abs(full).max()) if full.size else 0.0
        tol = (2e-5 if single(field.array) else 2e-13 * (math.log2(max(ncells, 1)) + 1)) * mag
        if res.array.shape != want.shape or not close_arr(res.array, want, tol):
            rec["oracle"].append(label)
    cmp(f, ft, "real-transform-of-a-complex-field-is-not-the-half-of-the-full-one")
    if np.any(x.imag != 0):
        gi = df.Field(mesh, nvdim=nv, value=1j * x.imag, dtype=x.dtype)
        st, ri = attempt(lambda: gi.rfftn())
        if st == "ok":
            cmp(gi, ri, "real-transform-of-an-imaginary-field-is-not-the-half-of-the-full-one")
        # and the real inverse cannot give a complex field back: the pair is no round trip
        st, rb = attempt(lambda: ft.irfftn(shape=tuple(n)))
        if st == "ok" and not close_arr(rb.array, x, rt_tol(x, ncells)):
            if float(np.abs(x.imag).max()) > 1e-12 * float(np.abs(x).max()):
                rec["oracle"].append("irfftn-does-not-undo-rfftn-of-a-complex-field")


def run_fwd(c, rec):
    m, op, nv = c["mesh"], c["op"], c["nv"]
    mesh = build_mesh(m)
    n = m["n"]
    x = make_values(c["values"], tuple(n) + (nv,))
    real = op == "rfftn"
    f = field_of(mesh, nv, x, c["values"])
    x = f.array.copy()                      # the stored values are what is transformed, valid or not
    st, ft = transform_twice(rec, f, op)
    if not np.array_equal(f.array, x):
        rec["oracle"].append("source-field-modified-by-" + op)
    nshape = "".join("1" if v == 1 else ("e" if v % 2 == 0 else "o") for v in n)
    vk = (c["values"].get("valid") or {}).get("kind")
    key = (f'fwd/{op}/{nshape}/{nv}/{c["values"]["cplx"]}/{c["values"]["cls"]}/{c["values"].get("mag")}/'
           f'{c["values"].get("dtype")}/{c["values"].get("layout")}/{vk}/{st}')
    if st != "ok":
        # the real transform of complex data is not defined by the property: rejection admissible
        if not (real and np.iscomplexobj(x)):
            rec["oracle"].append("forward-transform-rejected")
        rec.update(obs=dict(err=ft), key=key, size=sum(n) + nv)
        return rec
    if real and np.iscomplexobj(x):
        # accepted: then it has to be the matching half of the full transform (it cannot be for a
        # non-zero imaginary part, so only refusal or an exactly real field passes), of the whole
        # field and of its imaginary part taken alone (relative to that part's own size)
        real_of_complex(rec, mesh, f, ft, x, n, nv)
    check_kmesh(rec, m, real, ft.mesh)
    oracle_forward(rec, mesh, ft, x, real, 2e-5 if single(x) else TOL)
    obs = dict(shape=list(ft.array.shape), kmesh=mesh_obs(ft.mesh), invalid_cells=int((~f.valid).sum()))
    if single(x):
        rec.update(obs=obs, key=key, size=sum(n) + nv)      # single precision: oracle only
        return rec
    bins = naive_dft(x, n)
    rec.update(obs=obs,
               coq=f"CArr {g.b(real)} {g.zl(n)} {arr_coq(bins, len(n))} {arr_coq(ft.array, len(n))}",
               key=key, size=sum(n) + nv)
    return rec


def run_inv(c, rec):
    op, n0, nv = c["op"], c["n0"], c["nv"]
    real = op == "irfftn"
    nd = len(n0)
    ks = kshape(real, n0)
    # the spectrum lives on an arbitrary mesh with the right counts
    m = dict(c["mesh"])
    lo = [min(F(a), F(b)) for a, b in zip(m["p1"], m["p2"])]
    cl = cells_of(m)
    m["n"] = ks
    m["p1"] = [S(a) for a in lo]
    m["p2"] = [S(float(a) + k * float(cc)) for a, k, cc in zip(lo, ks, cl)]
    mesh = build_mesh(m)
    x0 = make_values(c["values"], tuple(n0) + (nv,))
    if real:
        spec = py_arrange(True, n0, naive_dft(x0, n0))      # a consistent half spectrum
    else:
        spec = x0.astype(complex)                            # any complex array is a spectrum
    f = field_of(mesh, nv, np.ascontiguousarray(spec), c["values"])
    kw = {}
    if real:
        ws = c.get("with_shape", "list")
        if ws == "list":
            kw["shape"] = tuple(n0)
        elif ws == "int":
            kw["shape"] = int(n0[0])
    st, out = transform_twice(rec, f, op, kw)
    if not np.array_equal(f.array, spec):
        rec["oracle"].append("source-field-modified-by-" + op)
    nshape = "".join("1" if v == 1 else ("e" if v % 2 == 0 else "o") for v in n0)
    key = f'inv/{op}/{nshape}/{nv}/{c.get("with_shape")}/{c["values"]["cls"]}/{c["values"].get("mag")}/{st}'
    if st != "ok":
        rec["oracle"].append("inverse-transform-rejected")
        rec.update(obs=dict(err=out), key=key, size=sum(n0) + nv)
        return rec
    xo = out.array
    if list(xo.shape[:nd]) != list(n0) or [int(v) for v in out.mesh.n] != list(n0):
        rec["oracle"].append("inverse-counts")
        rec.update(obs=dict(shape=list(xo.shape)), key=key, size=sum(n0) + nv)
        return rec
    tol = TOL * max(l1(spec), 1e-300)
    # oracle: the forward transform of the result is the spectrum again (inverse undoes forward)
    st2, again = attempt(lambda: getattr(out, "rfftn" if real else "fftn")())
    if st2 != "ok" or not close_arr(again.array, spec, tol):
        rec["oracle"].append("forward-of-inverse-is-not-the-spectrum")
    if real and not close_arr(xo, x0, TOL * max(l1(x0), 1e-300)):
        rec["oracle"].append("real-inverse-does-not-recover-the-field")
    # inverse mesh: cell = 1/(n * kcell), centred
    for a in range(nd):
        cc = 1 / (n0[a] * float(cl[a]))
        if abs(float(out.mesh.cell[a]) - cc) > TOL * cc:
            rec["oracle"].append("inverse-cell")
        if abs(float(out.mesh.region.pmin[a] + out.mesh.region.pmax[a])) > TOL * cc * n0[a]:
            rec["oracle"].append("inverse-not-centred")
    bins = naive_dft(xo, n0)
    rec.update(obs=dict(shape=list(xo.shape), mesh=mesh_obs(out.mesh)),
               coq=f"CArr {g.b(real)} {g.zl(n0)} {arr_coq(bins, nd)} {arr_coq(spec, nd)}",
               key=key, size=sum(n0) + nv)
    return rec


def rt_tol(x, ncells):
    """round-trip tolerance relative to the field's own magnitude (rounding of two transforms)"""
    mag = float(np.abs(np.asarray(x, dtype=complex)).max()) if np.asarray(x).size else 0.0
    if single(x):
        return 2e-5 * mag
    return 2e-13 * mag * (math.log2(max(ncells, 1)) + 1)


def pow2_exponents(x):
    """exponents k for which 2^k * x neither overflows nor reaches subnormals anywhere in a transform"""
    z = np.asarray(x, dtype=complex)
    parts = np.abs(np.concatenate([z.real.ravel(), z.imag.ravel()]))
    nz = parts[parts > 0]
    if nz.size == 0:
        return []
    lo, hi = math.log2(nz.min()), math.log2(nz.max())
    return [k for k in (40, -40, 200, -200, 13) if hi + k < 700 and lo + k > -700]


def scaling_clause(rec, f, op, res, kw=None):
    """linearity relative to the field's own magnitude: a transform of 2^k * field is 2^k * transform
    (exact in binary floating point for a linear algorithm; 1e-13 of the result's size is allowed)"""
    if single(f.array) or f.array.dtype.kind in "iu":
        return
    for k in pow2_exponents(f.array)[:2]:
        st, g2 = attempt(lambda: getattr(f * 2.0 ** k, op)(**(kw or {})))
        if st != "ok":
            rec["oracle"].append("scaled-field-rejected-by-" + op)
            continue
        want = res.array * 2.0 ** k
        tol = 1e-13 * float(np.abs(np.asarray(want, dtype=complex)).max()) if want.size else 0.0
        if g2.array.shape != want.shape or not close_arr(g2.array, want, tol):
            rec["oracle"].append("not-linear-under-rescaling-" + op)


def run_algebra(c, rec):
    m, nv = c["mesh"], c["nv"]
    mesh = build_mesh(m)
    n = m["n"]
    nd = len(n)
    ncells = int(np.prod(n))
    x = make_values(c["values"], tuple(n) + (nv,))
    y = make_values(c["values2"], tuple(n) + (nv,))
    a, b = c["coef"]
    f = field_of(mesh, nv, x, c["values"])
    h = field_of(mesh, nv, y, c["values2"])
    x, y = f.array.copy(), h.array.copy()
    isreal = not np.iscomplexobj(x)
    tf_ = 2e-5 if (single(x) or single(y)) else TOL
    tolx = tf_ * max(l1(x), 1e-300)
    toly = tf_ * max(l1(y), 1e-300)
    before_f, before_h = snapshot(f), snapshot(h)
    F1 = f.fftn()
    oracle_forward(rec, mesh, F1, x, False, tf_)
    scaling_clause(rec, f, "fftn", F1)
    # round trip of the full transform, relative to the field's own magnitude
    back = F1.ifftn()
    check_back_mesh(rec, m, back.mesh)
    if not close_arr(back.array, x, rt_tol(x, ncells)):
        rec["oracle"].append("ifftn-does-not-undo-fftn")
    xmag = float(np.abs(x).max()) if x.size else 0.0
    if np.iscomplexobj(x) and float(np.abs(x.imag).max()) > 1e-13 * xmag and not np.iscomplexobj(back.array):
        rec["oracle"].append("complex-field-comes-back-real")
    scaling_clause(rec, F1, "ifftn", back)
    # linearity
    lin = (a * f + b * h).fftn()
    if not close_arr(lin.array, a * F1.array + b * h.fftn().array, abs(a) * tolx + abs(b) * toly + 1e-300):
        rec["oracle"].append("not-linear")
    # per component
    if nv > 1:
        for i in range(nv):
            comp = df.Field(mesh, nvdim=1, value=x[..., i:i + 1], dtype=x.dtype).fftn()
            if not close_arr(comp.array[..., 0], F1.array[..., i], tolx):
                rec["oracle"].append("not-per-component")
    obs = dict(real=isreal, invalid_cells=int((~f.valid).sum()))
    if not isreal:
        st, Rc = attempt(lambda: f.rfftn())
        obs["rfftn_of_complex"] = "accepted" if st == "ok" else "refused"
        if st == "ok":
            real_of_complex(rec, mesh, f, Rc, x, n, nv)
    if isreal:
        R = f.rfftn()
        check_kmesh(rec, m, True, R.mesh)
        oracle_forward(rec, mesh, R, x, True, tf_)
        scaling_clause(rec, f, "rfftn", R)
        # the real transform is the half of the full one with the matching frequencies
        last = n[-1]
        for t in range(last // 2 + 1):
            j = (t + last // 2) % last          # position of frequency t (mod n) in the shifted full transform
            if not close_arr(R.array[..., t, :], F1.array[..., j, :], tolx):
                rec["oracle"].append("real-transform-is-not-the-half-of-the-full-one")
                break
            kt = R.mesh.index2point((0,) * (nd - 1) + (t,))[-1]
            kj = F1.mesh.index2point((0,) * (nd - 1) + (j,))[-1]
            per = 1 / float(cells_of(m)[-1])    # frequencies agree modulo the sampling frequency
            dk = abs(kt - kj)
            if min(dk, abs(dk - per)) > TOL * per:
                rec["oracle"].append("real-half-frequencies")
        for a_ in range(nd - 1):
            if abs(R.mesh.region.pmin[a_] - F1.mesh.region.pmin[a_]) > TOL * abs(F1.mesh.region.pmin[a_]):
                rec["oracle"].append("real-half-frequencies")
        # real round trip with the original counts; without them when the last count is even
        st, rb = attempt(lambda: R.irfftn(shape=tuple(n)))
        if st != "ok":
            rec["oracle"].append("irfftn-with-original-shape-rejected")
        else:
            check_back_mesh(rec, m, rb.mesh)
            if not close_arr(rb.array, x, rt_tol(x, ncells)):
                rec["oracle"].append("irfftn-does-not-undo-rfftn")
            scaling_clause(rec, R, "irfftn", rb, dict(shape=tuple(n)))
        if last % 2 == 0 or last == 1:
            st, rb = attempt(lambda: R.irfftn())
            if st != "ok":
                rec["oracle"].append("irfftn-default-rejected")
            else:
                check_back_mesh(rec, m, rb.mesh)
                if not close_arr(rb.array, x, rt_tol(x, ncells)):
                    rec["oracle"].append("irfftn-does-not-undo-rfftn")
        else:
            st, rb = attempt(lambda: R.irfftn())
            obs["odd_default"] = "rejected" if st != "ok" else [int(v) for v in rb.mesh.n]
    # the source fields were re-used after every transform above: they must still be what they were
    if not (same_snapshot(before_f, snapshot(f)) and same_snapshot(before_h, snapshot(h))
            and np.array_equal(f.array, x) and np.array_equal(h.array, y)):
        rec["oracle"].append("source-field-modified")
    nshape = "".join("1" if v == 1 else ("e" if v % 2 == 0 else "o") for v in n)
    v = c["values"]
    rec.update(obs=obs, key=(f'algebra/{nshape}/{nv}/{isreal}/{v.get("mag")}/{v.get("dtype")}/{v.get("layout")}/'
                             f'{(v.get("valid") or {}).get("kind")}'), size=sum(n) + nv)
    return rec


# ------------------------------------------------------------------ used, then changed in place
UNIT_POOL = ["m", "nm", "um", "s", "", "(m" + KSUF, "px"]
DIM_POOL = ["a", "b", "c", "d", "x", "y", "z", "t", "k_x", "u0", "u1"]


def gen_steps(rng, nd, nv):
    steps = []
    renamed = False
    for _ in range(rng.randint(1, 4)):
        op = rng.choice(["scale", "scale", "translate", "units", "dims", "rotate90", "rotate90"])
        # a vector field can be rotated only while its components are mapped to the (current) axis names
        if op == "rotate90" and (nd < 2 or not (nv == 1 or (nv == nd and not renamed))):
            op = "scale"
        renamed = renamed or op == "dims"
        if op == "scale":
            fac = [rng.choice([2.0, 0.5, 4.0, 3.0, 0.25, 1.5]) for _ in range(nd)]
            steps.append(dict(op="scale", factor=fac if rng.random() < 0.7 else fac[0],
                              ref=rng.random() < 0.3))
        elif op == "translate":
            steps.append(dict(op="translate", vector=[rng.randint(-16, 16) / 4.0 for _ in range(nd)]))
        elif op == "units":
            steps.append(dict(op="units", units=[rng.choice(UNIT_POOL) for _ in range(nd)]))
        elif op == "dims":
            steps.append(dict(op="dims", dims=rng.sample(DIM_POOL, nd)))
        else:
            i, j = rng.sample(range(nd), 2)
            steps.append(dict(op="rotate90", ax=[i, j], k=rng.choice([1, 1, 2, 3, -1]),
                              on=rng.choice(["field", "field", "mesh-of-scalar"])))
    return steps


def read_back(mesh):
    """the mesh as it is now, as a mesh spec"""
    return dict(p1=[S(v) for v in mesh.region.pmin], p2=[S(v) for v in mesh.region.pmax],
                n=[int(v) for v in mesh.n], dims=[str(d) for d in mesh.region.dims],
                units=[str(u) for u in mesh.region.units], regime="state")


def check_now(rec, f, label, isreal):
    """every transform uses the mesh and the values as they are NOW"""
    cur = read_back(f.mesh)
    x = f.array.copy()
    for real in ([False, True] if isreal else [False]):
        op = "rfftn" if real else "fftn"
        before = len(rec["oracle"])
        ft = getattr(f, op)()
        check_kmesh(rec, cur, real, ft.mesh)
        check_kmesh(rec, cur, real, f.mesh.fftn(rfft=real))
        oracle_forward(rec, f.mesh, ft, x, real)
        if float(f.mesh.region.tolerance_factor) != float(ft.mesh.region.tolerance_factor):
            rec["oracle"].append("tolerance-factor-not-carried")
        rec["oracle"][before:] = [cl + "@" + label for cl in rec["oracle"][before:]]
    return cur


def run_state(c, rec):
    m, nv = c["mesh"], c["nv"]
    mesh = build_mesh(m)
    n = m["n"]
    nd = len(n)
    x = make_values(c["values"], tuple(n) + (nv,))
    f = field_of(mesh, nv, x, c["values"])
    isreal = not np.iscomplexobj(x)
    # use
    _ = (f.mesh.cell, f.mesh.dV, f.mesh.region.edges, f.mesh.fftn(), f.mesh.fftn(rfft=True))
    check_now(rec, f, "fresh", isreal)
    # two transforms of one mesh do not share their k-mesh: changing one result leaves the other alone
    k1, k2 = f.fftn(), f.fftn()
    if k1.mesh is k2.mesh or k1.mesh.region is k2.mesh.region or np.shares_memory(k1.array, k2.array):
        rec["oracle"].append("transforms-share-their-kmesh")
    before2 = mesh_obs(k2.mesh)
    k1.mesh.region.units = ["zz"] * nd
    k1.mesh.translate([1.0] * nd, inplace=True)
    if mesh_obs(k2.mesh) != before2:
        rec["oracle"].append("changing-one-result-changes-another")
    check_now(rec, f, "after-result-changed", isreal)
    # change in place through public calls, transform again
    hist = []
    for i, stp in enumerate(c["steps"]):
        op = stp["op"]
        if op == "scale":
            kw = dict(reference_point=tuple(float(v) for v in f.mesh.region.pmin)) if stp.get("ref") else {}
            f.mesh.scale(stp["factor"], inplace=True, **kw)
        elif op == "translate":
            f.mesh.translate(stp["vector"], inplace=True)
        elif op == "units":
            f.mesh.region.units = list(stp["units"])
        elif op == "dims":
            f.mesh.region.dims = list(stp["dims"])
        elif op == "rotate90":
            d = f.mesh.region.dims
            f.rotate90(d[stp["ax"][0]], d[stp["ax"][1]], k=stp["k"], inplace=True)
        hist.append(op)
        cur = check_now(rec, f, f"after-{op}", isreal)
    cur = read_back(f.mesh)
    rfft = bool(c.get("rfft"))
    st, k = attempt(lambda: f.mesh.fftn(rfft=rfft))
    obs = mesh_obs(k) if st == "ok" else None
    if st != "ok":
        rec["oracle"].append("mesh-fftn-rejected")
    rec.update(obs=dict(final=cur, kmesh=obs, history=hist),
               coq=f"CMeshF {mesh_in_coq(cur)} {g.b(rfft)} {mesh_obs_coq(obs)}",
               key=f'state/{nd}/{"-".join(hist)}/{rfft}/{isreal}', size=sum(n) + nv + len(hist))
    return rec


def stats(records):
    out = {}
    for r in records:
        k = r["kind"] + ("/rejected" if isinstance(r.get("obs"), dict) and "err" in r["obs"] else "/ok")
        out[k] = out.get(k, 0) + 1
    out["coq_checked"] = sum(1 for r in records if r.get("coq"))
    out["oracle_only"] = sum(1 for r in records if not r.get("coq"))
    return out
