"""C12 — quarter-turn rotations (Region/Mesh/Field.rotate90): generators, implementation runner,
Gallina encoding, property oracle.

A case is one rotate90 call at one level (region / mesh / field), copying or in place.  The oracle
evaluates the property text on the implementation's outputs with exact rational arithmetic:
covariance g(R + Q(p - R)) = Q^ f(p) at every cell centre (values, validity, subregion membership,
cell-centre geometry), metadata (n and units swapped iff k odd, dims / labels / mapping kept),
k == k mod 4, four turns and turn + reverse are the identity, the three levels agree, the in-place
form equals the copying form (and returns the same object, the copying form leaves its input
alone), unmapped vector fields are refused.
"""
import itertools
import math
import os
from fractions import Fraction as F

import numpy as np

from harness import gallina as g
from harness.util import import_df, js, attempt, relayout, LAYOUTS

df = import_df()

# names that are prefixes of one another on purpose (lookups must compare whole names)
DIM_POOL = ["x", "y", "z", "a", "b", "c", "r", "t", "u", "w", "xa", "xab", "x1", "x10", "ab"]
UNIT_POOL = ["m", "s", "kg", "A", "K", "nm", "rad"]
VDIM_POOL = ["p", "pq", "q", "v", "h", "e", "f", "ma", "mb", "mab"]
REPRS = ["list", "list", "tuple", "ndarray"]
TURN = [(1, 0), (0, 1), (-1, 0), (0, -1)]


def S(x):
    return g.qs(x)


def fl(s):
    return float(F(s))


# ------------------------------------------------------------------ generator
def distinct_sample(rng, pool, k):
    return rng.sample(pool, k)


INT_DTYPES = {"int": int, "int64big": np.int64, "int32": np.int32, "int8": np.int8}


def gen_int_vals(rng, dtype, count):
    """integer data at the limits of the type (the most negative value is left out: -v would wrap);
    int64big: magnitudes 2**53 .. 2**62, not representable in float64"""
    out = []
    for i in range(count):
        sgn = rng.choice([1, -1])
        if dtype == "int64big":
            v = sgn * (2 ** rng.randint(53, 62) + 2 * rng.randint(1, 10 ** 6) + 1) if i % 4 else sgn * (2 ** 63 - 1 - i)
        elif dtype == "int32":
            v = sgn * (2 ** 31 - 1 - rng.randint(0, 1000)) if i % 3 else rng.randint(-10 ** 6, 10 ** 6)
        else:  # int8
            v = sgn * (127 - rng.randint(0, 5)) if i % 3 == 0 else rng.randint(-127, 127)
        out.append(v)
    return out


def gen_base(rng, tier, regime=None, nd=None, with_subs=None, ctype=None, dtype=None, nvdim=None):
    """a field configuration: anisotropic mesh (pairwise distinct n and cells), non-uniform data.
    ctype: how corner coordinates are handed to Region: 'float' | 'int' (Python ints) |
    'int64' (integer numpy arrays) - integer-typed regions keep an integer pmin/pmax dtype"""
    nd = nd or rng.choice([2, 2, 3, 3, 3, 4])
    ctype = ctype or rng.choice(["float", "float", "int", "int64"])
    regime = regime or rng.choice(["exact", "exact", "exact", "scale"])
    if ctype != "float":
        regime = "exact"
    nmax = {2: 6, 3: 5, 4: 4}[nd] + (1 if tier == "thorough" else 0)
    n = distinct_sample(rng, list(range(1, nmax + 1)), nd)
    if ctype != "float":
        # integer corners; integer cells of both parities, so that edges of different parity occur
        # (images about the default centre or a fractional reference are half-integers)
        cells = distinct_sample(rng, [F(1), F(2), F(3), F(4), F(5), F(7)], nd)
        lo = [F(rng.randint(-16, 16)) for _ in range(nd)]
        hi = [l + k * c for l, k, c in zip(lo, n, cells)]
        flo, fhi = [float(x) for x in lo], [float(x) for x in hi]
    elif regime == "exact":
        cells = distinct_sample(rng, [F(1, 4), F(1, 2), F(3, 4), F(1), F(5, 4), F(3, 2), F(2), F(3), F(5, 2)], nd)
        lo = [F(rng.randint(-64, 64), 4) for _ in range(nd)]
        hi = [l + k * c for l, k, c in zip(lo, n, cells)]
        flo, fhi = [float(x) for x in lo], [float(x) for x in hi]
    else:
        s = rng.choice([1e-9, 1e-9, 1e-6, 1e-3, 1.0, 1e3])
        cells_f = distinct_sample(rng, [0.1, 0.3, 0.7, 1.1, 1.3, 2.5, 5.0, 0.9], nd)
        off = [rng.choice([0.0, round(rng.uniform(-20, 20), 1), round(rng.uniform(-200, 200), 2)]) for _ in range(nd)]
        flo = [o * s for o in off]
        fhi = [(o + k * c) * s for o, k, c in zip(off, n, cells_f)]
    dims = None if (nd <= 3 and rng.random() < 0.4) else distinct_sample(rng, DIM_POOL, nd)
    units = None if rng.random() < 0.25 else distinct_sample(rng, UNIT_POOL, nd)
    # subregions: whole-cell boxes (only where the absolute 1e-12 alignment tolerance of the mesh
    # constructor cannot be crossed by the cos/sin residue: small coordinates)
    subs = []
    small = max(abs(x) for x in flo + fhi) <= 40
    if with_subs is None:
        with_subs = rng.random() < 0.5
    if with_subs and small:
        for name in rng.sample(["s1", "core", "shell"], rng.randint(1, 2)):
            a = [rng.randint(0, k - 1) for k in n]
            b = [rng.randint(i + 1, k) for i, k in zip(a, n)]
            c = [(h - l) / k for l, h, k in zip(flo, fhi, n)]
            if regime == "exact":
                slo = [l + i * ci for l, i, ci in zip(flo, a, c)]
                shi = [l + i * ci for l, i, ci in zip(flo, b, c)]
            else:
                slo = [l if i == 0 else l + i * ci for l, i, ci in zip(flo, a, c)]
                shi = [h if i == k else l + i * ci for l, h, i, k, ci in zip(flo, fhi, b, n, c)]
            subs.append([name, [S(x) for x in slo], [S(x) for x in shi]])
    nvdim = nvdim or rng.choice([1, 1, 2, 3, 3, 4] if nd != 3 else [1, 2, 3, 3, 3, 4])
    dtype = dtype or rng.choice(["float"] * 6 + ["int", "int", "int64big", "int32", "int8"])
    ncell = math.prod(n)
    # non-uniform, pairwise distinct data; magnitudes differ by orders (an inexact cos/sin
    # residue followed by an integer cast would show)
    pool = rng.sample(range(-5000, 5000), ncell * nvdim)
    if dtype == "float":
        vals = [F(v, rng.choice([1, 1, 2, 8])) for v in pool]
    elif dtype == "int":
        vals = [F(v if i % 3 else (v % 7) - 3) for i, v in enumerate(pool)]
    else:
        vals = [F(v) for v in gen_int_vals(rng, dtype, ncell * nvdim)]
    pm = rng.choice([0.0, 0.2, 0.5])
    valid = [rng.random() >= pm for _ in range(ncell)]
    vdims = None
    if nvdim > 1 and rng.random() < 0.7:
        if rng.random() < 0.3:
            # component labels that reuse the axis names in another order (a lookup by label
            # instead of through the mapping would pick the wrong component)
            dn = list(dims or (["x", "y", "z"][:nd] if nd <= 3 else [f"x{i}" for i in range(nd)]))
            rng.shuffle(dn)
            vdims = (dn + distinct_sample(rng, VDIM_POOL, nvdim))[:nvdim]
        else:
            vdims = distinct_sample(rng, VDIM_POOL, nvdim)
    elif nvdim == 1 and rng.random() < 0.2:
        vdims = ["s"]
    base = dict(regime=regime, pmin=[S(x) for x in flo], pmax=[S(x) for x in fhi], n=n, dims=dims, units=units,
                subs=subs, nvdim=nvdim, dtype=dtype, vals=[S(v) for v in vals], valid=valid, vdims=vdims,
                dims_repr=rng.choice(REPRS), units_repr=rng.choice(REPRS), vdims_repr=rng.choice(REPRS),
                layout_vals=rng.choice(LAYOUTS), layout_valid=rng.choice(LAYOUTS),
                assign=rng.choice(["ctor", "ctor", "setter"]),
                # a scalar field given as an array of shape n (no component axis): the library keeps a
                # view of the caller's array, so its memory layout reaches rotate90
                squeeze=bool(nvdim == 1 and rng.random() < 0.6),
                ctype=ctype, sub_ctype=(ctype if (ctype == "float" or rng.random() < 0.6)
                                      else rng.choice(["float", "int", "int64"])))
    # the caller may build the subregion dict from SHARED Region objects: the same object under two
    # names, the mesh region itself as a subregion, or the subregion dict of another mesh
    base["sub_share"] = None
    r_ = rng.random()
    if subs and r_ < 0.15:
        base["sub_share"] = "twice"
        base["subs"] = subs + [[subs[0][0] + "_alias", subs[0][1], subs[0][2]]]
        base["sub_ctype"] = ctype
    elif r_ < 0.25:
        base["sub_share"] = "mesh-region"
        base["subs"] = subs + [["total", base["pmin"], base["pmax"]]]
        base["sub_ctype"] = ctype
    elif subs and r_ < 0.4:
        base["sub_share"] = "other-mesh"
    if base["squeeze"]:
        # only the array setter keeps the caller's buffer (the constructor copies once more)
        if rng.random() < 0.8:
            base["assign"] = "setter"
        base["layout_vals"] = rng.choice(["F", "F", "strided", "revview", "readonly", None])
    return base


def eff_dims(base):
    nd = len(base["n"])
    return base["dims"] or (["x", "y", "z"][:nd] if nd <= 3 else [f"x{i}" for i in range(nd)])


def eff_vdims(base):
    nv = base["nvdim"]
    if base["vdims"]:
        return base["vdims"]
    if nv == 1:
        return None
    return ["x", "y", "z"][:nv] if nv <= 3 else [f"v{i}" for i in range(nv)]


def shuffled(rng, pairs):
    """the dictionary insertion order is independent of the order of vdims and of the mapping"""
    pairs = list(pairs)
    rng.shuffle(pairs)
    return pairs


def gen_mapping(rng, base, a, b, want):
    """vdim_mapping as a list of [vdim, dim-or-None]; None = constructor default.
    want: 'default' | 'perm' | 'partial' | 'missing' | 'empty'"""
    nv = base["nvdim"]
    if nv == 1 or want == "default":
        return None
    dims = eff_dims(base)
    vds = eff_vdims(base)
    if want == "empty":
        return []
    if want == "missing":
        # a or b (or both) has no component
        drop = rng.choice([[a], [b], [a, b]])
        avail = [d for d in dims if d not in drop]
        tgt = (rng.sample(avail, min(len(avail), nv)) + [None] * nv)[:nv]
        rng.shuffle(tgt)
        return shuffled(rng, [[v, t] for v, t in zip(vds, tgt)])
    # a and b both mapped
    others = [d for d in dims if d not in (a, b)]
    rng.shuffle(others)
    if want == "perm":
        tgt = [a, b] + others
    else:  # partial: only a and b (and maybe one more) carry a component
        tgt = [a, b] + (others[:1] if rng.random() < 0.3 else [])
    tgt = (tgt + [None] * nv)[:nv]
    rng.shuffle(tgt)
    return shuffled(rng, [[v, t] for v, t in zip(vds, tgt)])


def gen_ref(rng, base, kind):
    nd = len(base["n"])
    lo = [F(x) for x in base["pmin"]]
    hi = [F(x) for x in base["pmax"]]
    if kind == "none":
        return None
    if base["regime"] == "exact":
        if kind == "inside":
            return [S(l + F(rng.randint(0, 8), 8) * (h - l)) for l, h in zip(lo, hi)]
        if kind == "corner":
            return [S(rng.choice([l, h])) for l, h in zip(lo, hi)]
        if kind == "near":
            return [S(F(rng.randint(-128, 128), 4)) for _ in range(nd)]
        return [S(F(rng.randint(-4000, 4000), 2) * rng.choice([1, 1, 64])) for _ in range(nd)]   # far
    ext = [float(h - l) for l, h in zip(lo, hi)]
    if kind in ("inside", "corner"):
        return [S(float(l) + rng.random() * e) for l, e in zip(lo, ext)]
    if kind == "near":
        return [S(float(l) + rng.uniform(-3, 3) * e) for l, e in zip(lo, ext)]
    return [S(float(l) + rng.uniform(-1000, 1000) * e) for l, e in zip(lo, ext)]


BIG_K = [250, 1002, 2 ** 31 + 3, 2 ** 40 + 1, -2 ** 33 - 2]


def gen_k(rng):
    r = rng.random()
    if r < 0.7:
        return rng.randint(-9, 9)
    if r < 0.8:
        return rng.choice([-103, -102, -101, -100, 100, 101, 102, 103])
    if r < 0.9:
        return rng.choice([-1001, -1000, -999, -998, 998, 999, 1000, 1001])
    # the turn is selected by k mod 4 exactly: arbitrarily large counts
    return rng.choice(BIG_K + [-250, 2 ** 31, -2 ** 31 - 1, 2 ** 32 + 2, 2 ** 53 + 1, -2 ** 62 - 3, 2 ** 63 - 1])


def fits(kt, k):
    if kt == "int":
        return True
    info = np.iinfo(getattr(np, kt))
    return info.min <= k <= info.max


KTYPES = ["int8", "int16", "int32", "int64", "uint8", "uint16", "uint32", "uint64"]


def gen_ktype(rng, k, has_subs, refkind):
    """how the integer k is spelled: Python int or a numpy integer type (value made to fit)"""
    if rng.random() >= 0.45:
        return "int", k, refkind
    kt = rng.choice(KTYPES)
    if kt.startswith("u"):
        k = abs(k)
    if kt == "uint8" and (k > 255 or rng.random() < 0.3):
        k = 252 + k % 4                       # 252 .. 255
    if kt == "int8" and abs(k) > 127:
        k = (k % 4) + (-128 if k < 0 else 124)
    if kt in ("int64", "uint64") and rng.random() < 0.4:
        k = rng.choice([2 ** 31, 2 ** 32, 2 ** 33, 2 ** 62]) + rng.randint(0, 7)
        if kt == "int64" and rng.random() < 0.5:
            k = -k
    if not fits(kt, k):
        kt = "int64" if fits("int64", k) and rng.random() < 0.6 else "int"
    return kt, k, refkind


def gen_bc(rng, dims, a, b):
    """boundary condition: none, one in-plane axis, the other, both (either letter order), an
    out-of-plane axis, mixtures, 'neumann', 'dirichlet'.  Only one-letter dimensions can be named in
    bc; a periodic in-plane axis is generated only if its partner also has a one-letter name (the
    image axis could not be written into bc otherwise - the library refuses that turn)"""
    out = [d for d in dims if len(d) == 1 and d not in (a, b)]
    opts = ["", "", "neumann", "dirichlet"]
    if out:
        opts += [out[0], "".join(out)]
    if len(a) == 1 and len(b) == 1:
        opts += [a, b, a + b, b + a, a, b]
        if out:
            opts += [out[0] + a, b + out[0] + a]
    return rng.choice(opts)


def make_case(rng, base, level, inplace, a, b, k, refkind, mapkind, ktype=None):
    c = dict(base)
    has_subs = bool(base["subs"])
    # decimal coordinates: the rounding of R + Q(p - R) (about 1e-16 |R|) must stay below the mesh
    # constructor's absolute 1e-12 alignment tolerance (C14-abs-tolerance); dyadic cases are exact
    restrict_ref = has_subs and base["regime"] != "exact"
    if restrict_ref and refkind == "far":
        refkind = "near"
    if ktype is None:
        ktype, k, refkind = gen_ktype(rng, k, has_subs, refkind)
    c["k_type"] = ktype
    ref = gen_ref(rng, base, refkind)
    if restrict_ref and ref is not None and max(abs(fl(x)) for x in ref) > 40:
        ref = None
        refkind = "none"
    c.update(ref_repr=rng.choice(REPRS), k_bool=bool(ktype == "int" and k in (0, 1) and rng.random() < 0.5),
             ref_num=rng.choice(["float", "float", "mixed", "npscalar"]))
    if ref is not None and base.get("ctype", "float") != "float" and rng.random() < 0.25:
        # an integer reference point on an integer-typed region
        ref = [S(round(F(x))) for x in ref]
        c["ref_num"] = "int"
    c["bc"] = gen_bc(rng, eff_dims(base), a, b) if level != "region" else ""
    c.update(level=level, inplace=inplace, a=a, b=b, k=k, ref=ref, refkind=refkind, mapkind=mapkind,
             vmap=gen_mapping(rng, base, a, b, mapkind) if level == "field" else None)
    return c


def pick(rng, pred, **kw):
    """the first generated configuration that satisfies pred (deterministic for a fixed rng)"""
    for _ in range(2000):
        base = gen_base(rng, "quick", **kw)
        if pred(base):
            return base
    raise RuntimeError("directed core: no configuration found")


def sub_offcentre(base):
    lo, hi = [F(x) for x in base["pmin"]], [F(x) for x in base["pmax"]]
    ctr = [(l + h) / 2 for l, h in zip(lo, hi)]
    return any([(F(l) + F(h)) / 2 for l, h in zip(s_[1], s_[2])] != ctr for s_ in base["subs"])


def directed_core():
    """Directed cases, identical in every run, tier and seed (fixed Random(424242)): one small group per
    mechanism that a seeded change of rounds a-e (or a coordinator follow-up) exercised."""
    import random
    R = random.Random(424242)
    cases = []

    def add(tag, base, level, inplace, a, b, k, refkind="none", mapkind="perm", ktype="int", **over):
        base = dict(base)
        pre = {kk: over.pop(kk) for kk in list(over) if kk in base}
        base.update(pre)
        c = make_case(R, base, level, inplace, a, b, k, refkind, mapkind, ktype=ktype)
        c.update(over)
        c["core"] = tag
        cases.append(c)
        return c

    def axes(base):
        d = eff_dims(base)
        return d[0], d[1]
    plain = dict(sub_share=None)
    # a1 - in-place odd turn, different units on the two axes
    base = pick(R, lambda b_: True, nd=3)
    base["units"] = ["nm", "um", "m"]
    a, b = axes(base)
    for level in ("region", "mesh", "field"):
        for k in (1, -1, 3):
            add("a1", base, level, True, a, b, k)
    # a2 - mapping dict written in another order than vdims
    base = pick(R, lambda b_: b_["vdims"] is not None, nd=3, nvdim=3, regime="exact")
    a, b = axes(base)
    for inplace in (False, True):
        for k in (1, 2, -1):
            c = add("a2", base, "field", inplace, a, b, k)
            vds = eff_vdims(base)
            c["vmap"] = sorted(c["vmap"], key=lambda p_: -vds.index(p_[0]))
    # a3 / c3 - subregions off the mesh centre, default reference, in place and copying, odd and half turns
    base = pick(R, lambda b_: b_["subs"] and sub_offcentre(b_), nd=2, with_subs=True, regime="exact")
    a, b = axes(base)
    for level in ("mesh", "field"):
        for inplace in (True, False):
            for k in (1, 2, -2, 6, 3):
                add("a3-c3", base, level, inplace, a, b, k, "none", **plain)
    # b1 - copying form with a non-default mapping (the oracle turns the copy back)
    for mk in ("perm", "partial"):
        base = pick(R, lambda b_: b_["vdims"] is not None, nd=3, nvdim=2, regime="exact")
        a, b = axes(base)
        for k in (1, 3):
            add("b1", base, "field", False, b, a, k, "inside", mk)
    # b2 - integer-typed corners, fractional explicit reference; odd-parity edges about the default centre
    for ct in ("int", "int64"):
        base = pick(R, lambda b_: True, nd=2, ctype=ct)
        a, b = axes(base)
        for level in ("region", "mesh", "field"):
            for inplace in (False, True):
                c = add("b2", base, level, inplace, a, b, 1, "inside", ref_num="float")
                c["ref"] = [S(F(x) + F(1, 2)) for x in base["pmin"]]
                c["refkind"] = "inside"
                add("b2", base, level, inplace, a, b, 3, "none")
    base = pick(R, lambda b_: (F(b_["pmax"][0]) - F(b_["pmin"][0]) + F(b_["pmax"][1]) - F(b_["pmin"][1])) % 2 == 1,
                nd=2, ctype="int")
    a, b = axes(base)
    for level in ("region", "mesh", "field"):
        add("b2-parity", base, level, False, a, b, 1, "none")
        add("b2-parity", base, level, True, a, b, -1, "none")
    # b3 / e2 - integer-typed vector fields: small values of very different size, values beyond 2**53,
    # int32 / int8 at their limits
    for dt in ("int", "int64big", "int32", "int8"):
        base = pick(R, lambda b_: True, nd=2, nvdim=3 if dt != "int" else 2, dtype=dt, regime="exact")
        a, b = axes(base)
        for inplace in (False, True):
            for k in (1, 2, 3, -1):
                add("b3-e2", base, "field", inplace, a, b, k)
    # c1 - unmapped vector field, whole number of full turns: still refused
    for mk in ("missing", "empty"):
        base = pick(R, lambda b_: b_["vdims"] is not None, nd=2, nvdim=3, regime="exact")
        a, b = axes(base)
        for k in (0, 4, -4, 8):
            add("c1", base, "field", k % 8 == 0, a, b, k, "none", mk)
    # c2 - three quarter turns about an off-centre reference
    base = pick(R, lambda b_: b_["subs"] and sub_offcentre(b_), nd=3, with_subs=True, regime="exact")
    a, b = axes(base)
    for level in ("region", "mesh", "field"):
        for k in (3, -1, 7):
            add("c2", base, level, k == 7, a, b, k, "corner", **plain)
            if level != "region":
                add("c2", base, level, k == 7, a, b, k, "none", **plain)
    # d1 - half turn in place, validity mask not symmetric under the half turn
    def asym(b_):
        m_ = np.array(b_["valid"]).reshape(*b_["n"])
        return not np.array_equal(m_, np.rot90(m_, 2, axes=(0, 1)))
    base = pick(R, asym, nd=2, regime="exact")
    a, b = axes(base)
    for k in (2, -2, 6):
        add("d1", base, "field", True, a, b, k, mapkind="perm" if base["nvdim"] > 1 else "default")
    # d2 - user-chosen dimension names, copying form
    base = pick(R, lambda b_: True, nd=3, regime="exact")
    base["dims"] = ["r", "t", "w"]
    for level in ("region", "mesh", "field"):
        add("d2", base, level, False, "t", "w", 1, "near")
    # d3 - reference point spelled as a numpy array
    base = pick(R, lambda b_: True, nd=2, regime="exact")
    a, b = axes(base)
    for level in ("region", "mesh", "field"):
        for inplace in (False, True):
            add("d3", base, level, inplace, a, b, 1, "near", ref_repr="ndarray")
    # e1 - subregion dicts built from shared Region objects, in-place turns that are no full turns
    for share in ("twice", "mesh-region", "other-mesh"):
        base = pick(R, lambda b_: b_.get("sub_share") == share and sub_offcentre(b_), nd=2, with_subs=True,
                    regime="exact")
        base["units"] = ["nm", "um"]
        a, b = axes(base)
        for level in ("mesh", "field"):
            for k in (1, 2, 3):
                add("e1", base, level, True, a, b, k, "near")
                add("e1", base, level, k == 2, a, b, k, "none")
    # e3 - k spelled as a numpy integer (field, mesh and region)
    base = pick(R, lambda b_: True, nd=2, regime="exact")
    a, b = axes(base)
    for kt, k in (("int64", 5), ("int32", -1), ("uint8", 255), ("int16", 2), ("uint64", 3), ("int8", -3)):
        for level in ("field", "mesh", "region"):
            add("e3", base, level, k % 2 == 0, a, b, k, ktype=kt)
    # non-integer counts are refused
    for bad in ("float", "str", "none", "npfloat", "half"):
        c = add("k-bad", base, R.choice(["region", "mesh", "field"]), False, a, b, 1)
        c.update(k_bad=bad, k_bool=False, bad="k-" + bad)
    # memory layout: scalar field without a component axis, assigned through the setter
    for lay in ("F", "strided", "revview", "readonly"):
        base = pick(R, lambda b_: True, nd=2, nvdim=1, regime="exact")
        base.update(squeeze=True, assign="setter", layout_vals=lay, layout_valid=lay)
        a, b = axes(base)
        for k in (1, 2):
            add("layout", base, "field", k == 2, a, b, k, mapkind="default")
    # very large counts on a mesh with subregions, far reference
    base = pick(R, lambda b_: b_["subs"], nd=2, with_subs=True, regime="exact")
    a, b = axes(base)
    for k in BIG_K:
        for level in ("field", "mesh", "region"):
            add("big-k", base, level, k % 2 == 0, a, b, k, "far", **plain)
    # periodicity of an in-plane axis, odd and even turns, both forms
    base = pick(R, lambda b_: b_["dims"] is None, nd=3, nvdim=1, regime="exact")
    for bc in ("x", "y", "xy", "zx", "z", "neumann"):
        for level in ("mesh", "field"):
            for k in (1, 2):
                c = add("bc", base, level, k == 1, "x", "y", k, "none", mapkind="default")
                c["bc"] = bc
    return cases


_CORE = None


def generate(rng, tier):
    global _CORE
    if _CORE is None:
        _CORE = directed_core()
    cases = [dict(c) for c in _CORE]
    nbase = 60 if tier == "quick" else 500
    mapkinds = ["default", "perm", "perm", "partial", "partial", "missing", "empty"]
    refkinds = ["none", "none", "inside", "corner", "near", "far"]
    for bi in range(nbase):
        base = gen_base(rng, tier)
        dims = eff_dims(base)
        pairs = list(itertools.permutations(dims, 2))
        rng.shuffle(pairs)
        # per base: a few calls at each level, in both forms
        for j, (a, b) in enumerate(pairs[: (3 if tier == "quick" else 4)]):
            k = gen_k(rng)
            refkind = rng.choice(refkinds)
            mapkind = rng.choice(mapkinds)
            inplace = rng.random() < 0.5
            cases.append(make_case(rng, base, "field", inplace, a, b, k, refkind, mapkind))
            if j == 0:
                cases.append(make_case(rng, base, "mesh", not inplace, a, b, k, refkind, mapkind))
                cases.append(make_case(rng, base, "region", inplace, a, b, gen_k(rng), rng.choice(refkinds), mapkind))
    # every k in [-9, 9] x both forms on small 2-d/3-d vector fields with permuted mapping
    for k in range(-9, 10):
        for inplace in (False, True):
            base = gen_base(rng, tier, regime="exact", nd=rng.choice([2, 3]))
            dims = eff_dims(base)
            a, b = rng.sample(dims, 2)
            cases.append(make_case(rng, base, "field", inplace, a, b, k, rng.choice(refkinds), "perm"))
    # all ordered axis pairs of one 4-d and one 3-d configuration
    for nd in (3, 4):
        base = gen_base(rng, tier, regime="exact", nd=nd)
        for (a, b) in itertools.permutations(eff_dims(base), 2):
            cases.append(make_case(rng, base, "field", rng.random() < 0.5, a, b, rng.choice([1, -1, 3, 2]),
                                   rng.choice(refkinds), "perm"))
    # directed: very large counts on meshes WITH subregions (k and k % 4 are the same turn: same
    # acceptance, identical region / mesh / subregions / field), far reference points included
    for bi in range(3 if tier == "quick" else 20):
        base = gen_base(rng, tier, regime="exact", with_subs=True, nd=rng.choice([2, 3]))
        if not base["subs"]:
            continue
        dims = eff_dims(base)
        for k in BIG_K:
            a, b = rng.sample(dims, 2)
            refkind = rng.choice(["none", "far", "near", "far"])
            inplace = rng.random() < 0.5
            kt = rng.choice([kt_ for kt_ in ["int", "int", "int64", "uint64", "int16", "uint16", "int32"] if fits(kt_, k)])
            for level in ("field", "mesh", "region"):
                cc = make_case(rng, base, level, inplace if level != "mesh" else not inplace, a, b, k, refkind,
                               "perm", ktype=kt)
                cc["directed"] = "big-k"
                cases.append(cc)
    # rejected calls: equal axes, unknown axis, reference point of the wrong length
    for _ in range(24 if tier == "quick" else 120):
        base = gen_base(rng, tier)
        dims = eff_dims(base)
        a, b = rng.sample(dims, 2)
        level = rng.choice(["region", "mesh", "field"])
        c = make_case(rng, base, level, rng.random() < 0.5, a, b, gen_k(rng), "near", "perm")
        bad = rng.choice(["equal", "unknown-a", "unknown-b", "ref-short", "ref-long",
                          "k-float", "k-str", "k-none", "k-npfloat", "k-half"])
        if bad == "equal":
            c["b"] = c["a"]
        elif bad == "unknown-a":
            c["a"] = "nope"
        elif bad == "unknown-b":
            c["b"] = "nope"
        elif bad.startswith("k-"):
            c["k_bad"] = bad[2:]
            c["k_type"] = "int"
            c["k_bool"] = False
        elif bad == "ref-short":
            c["ref"] = list(c["ref"] or c["pmin"])[:-1]
        else:
            c["ref"] = list(c["ref"] or c["pmin"]) + [S(1)]
        c["bad"] = bad
        cases.append(c)
    return cases


# ------------------------------------------------------------------ implementation side
def as_repr(xs, kind):
    """the same sequence as list / tuple / numpy array (all documented as accepted)"""
    if xs is None:
        return None
    if kind == "tuple":
        return tuple(xs)
    if kind == "ndarray":
        return np.array(list(xs))
    return list(xs)


def corners(xs, ctype):
    if ctype == "int":
        return [int(F(x)) for x in xs]
    if ctype == "int64":
        return np.array([int(F(x)) for x in xs], dtype=np.int64)
    return [fl(x) for x in xs]


def num_ref(xs, kind):
    """the reference point with its numbers as floats / ints / a mix / numpy scalars"""
    out = []
    for x in xs:
        f = F(x)
        if kind == "int" and f.denominator == 1:
            out.append(int(f))
        elif kind == "mixed":
            out.append(int(f) if f.denominator == 1 else float(f))
        elif kind == "npscalar":
            out.append(np.int64(int(f)) if f.denominator == 1 else np.float64(float(f)))
        else:
            out.append(float(f))
    return out


def build_region(c, pmin=None, pmax=None, ctype=None):
    ctype = ctype or c.get("ctype", "float")
    return df.Region(p1=corners(pmin or c["pmin"], ctype), p2=corners(pmax or c["pmax"], ctype),
                     dims=as_repr(c["dims"], c.get("dims_repr")), units=as_repr(c["units"], c.get("units_repr")))


def build_mesh(c, keep=None):
    """keep: dict that receives the caller's Region objects handed to the mesh"""
    r = build_region(c)
    share = c.get("sub_share")
    subs = {}
    for name, lo, hi in c["subs"]:
        if share == "mesh-region" and name == "total":
            subs[name] = r                                  # the mesh's own region object
        elif share == "twice" and name.endswith("_alias"):
            subs[name] = subs[name[: -len("_alias")]]       # the same object under two names
        else:
            subs[name] = build_region(c, lo, hi, ctype=c.get("sub_ctype", "float"))
    if share == "other-mesh":
        other = df.Mesh(region=build_region(c), n=c["n"], subregions=subs)
        subs = other.subregions                              # the dict (and objects) of another mesh
        if keep is not None:
            keep["other"] = other
    m = df.Mesh(region=r, n=c["n"], bc=c.get("bc", ""), subregions=subs)
    if keep is not None:
        keep["callers"] = list(subs.values())
        keep["mesh"] = m
    return m


def build_field(c, keep=None):
    m = build_mesh(c, keep)
    dt = float if c["dtype"] == "float" else INT_DTYPES[c["dtype"]]
    if dt is float:
        arr = np.array([fl(x) for x in c["vals"]], dtype=float).reshape(*c["n"], c["nvdim"])
    else:
        arr = np.array([int(F(x)) for x in c["vals"]], dtype=dt).reshape(*c["n"], c["nvdim"])
    valid = np.array(c["valid"], dtype=bool).reshape(*c["n"])
    vm = None if c.get("vmap") is None else {v: t for v, t in c["vmap"]}
    # same values, other memory layout / flags (Fortran order, strided view, read-only, negative strides)
    if c.get("squeeze") and c["nvdim"] == 1:
        arr = arr[..., 0]
    arr = relayout(arr, c.get("layout_vals"))
    valid = relayout(valid, c.get("layout_valid"))
    if c.get("assign") == "setter":
        f = df.Field(m, nvdim=c["nvdim"], value=np.zeros((*c["n"], c["nvdim"]), dtype=dt), vdims=as_repr(c["vdims"], c.get("vdims_repr")),
                     vdim_mapping=vm, dtype=dt, unit="A/m")
        f.array = arr
        f.valid = valid
        return f
    return df.Field(m, nvdim=c["nvdim"], value=arr, valid=valid, vdims=as_repr(c["vdims"], c.get("vdims_repr")),
                    vdim_mapping=vm,
                    dtype=dt, unit="A/m")


def build(c, level=None, keep=None):
    level = level or c["level"]
    if level == "region":
        return build_region(c)
    return {"mesh": build_mesh, "field": build_field}[level](c, keep)


def snap_region(r):
    return ([F(float(x)) for x in r.pmin], [F(float(x)) for x in r.pmax], [str(u) for u in r.units],
            [str(d) for d in r.dims])


def spelled_k(c):
    k = c["k"]
    bad = c.get("k_bad")
    if bad:
        return {"float": float(k), "str": str(k), "none": None, "npfloat": np.float64(k), "half": k + 0.5}[bad]
    if c.get("k_bool"):
        return bool(k)                         # True / False are the integers 1 / 0
    kt = c.get("k_type", "int")
    return k if kt == "int" else getattr(np, kt)(k)


def call(obj, c, inplace, k=None):
    ref = None if c["ref"] is None else as_repr(num_ref(c["ref"], c.get("ref_num", "float")), c.get("ref_repr"))
    if k is None:
        k = spelled_k(c)
    return obj.rotate90(c["a"], c["b"], k=k, reference_point=ref, inplace=inplace)


# --- observables (exact rationals)
def obs_region(r):
    return dict(pmin=[F(float(x)) for x in r.pmin], pmax=[F(float(x)) for x in r.pmax],
                dims=[str(x) for x in r.dims], units=[str(x) for x in r.units])


def obs_mesh(m):
    return dict(region=obs_region(m.region), n=[int(x) for x in m.n],
                subs=[[name, obs_region(s)] for name, s in m.subregions.items()], bc=str(m.bc))


def obs_field(f):
    vm = f.vdim_mapping
    return dict(mesh=obs_mesh(f.mesh), shape=list(f.array.shape),
                vals=[F(x) for x in f.array.reshape(-1).tolist()],
                valid=[bool(x) for x in f.valid.reshape(-1).tolist()], valid_shape=list(f.valid.shape),
                vdims=None if f.vdims is None else [str(x) for x in f.vdims],
                vmap=[[str(k_), v if v is None else str(v)] for k_, v in vm.items()], nvdim=int(f.nvdim), unit=f.unit,
                dtype=str(f.array.dtype))


def observe(x, level):
    return {"region": obs_region, "mesh": obs_mesh, "field": obs_field}[level](x)


def region_of(o, level):
    return o if level == "region" else (o["region"] if level == "mesh" else o["mesh"]["region"])


def mesh_of(o, level):
    return o if level == "mesh" else o["mesh"]


# --- tolerant comparison of observables (geometry within tol, everything else exact)
def geom_tol(c, scale):
    """Region.rotate90 uses the exact quarter-turn table: no error in the exact regime (dyadic / integer
    coordinates), a few ulps of the coordinate scale in the scale regime (independent of k)"""
    return F(0) if c["regime"] == "exact" else F(1, 10 ** 13) * scale


def close_l(a, b, tol):
    return len(a) == len(b) and all(abs(x - y) <= tol for x, y in zip(a, b))


def region_close(a, b, tol):
    return (close_l(a["pmin"], b["pmin"], tol) and close_l(a["pmax"], b["pmax"], tol)
            and a["dims"] == b["dims"] and a["units"] == b["units"])


def periodic_set(bc):
    """bc as the set of periodic axes (letter order is not significant); keywords name no axis"""
    return ("keyword", bc) if bc in ("neumann", "dirichlet") else frozenset(bc)


def mesh_close(a, b, tol):
    return (region_close(a["region"], b["region"], tol) and a["n"] == b["n"]
            and periodic_set(a["bc"]) == periodic_set(b["bc"])
            and [s[0] for s in a["subs"]] == [s[0] for s in b["subs"]]
            and all(region_close(x[1], y[1], tol) for x, y in zip(a["subs"], b["subs"])))


def field_close(a, b, tol):
    return (mesh_close(a["mesh"], b["mesh"], tol) and a["shape"] == b["shape"] and a["vals"] == b["vals"]
            and a["valid"] == b["valid"] and a["valid_shape"] == b["valid_shape"] and a["vdims"] == b["vdims"]
            and a["vmap"] == b["vmap"] and a["nvdim"] == b["nvdim"] and a["unit"] == b["unit"]
            and a["dtype"] == b["dtype"])


def obs_close(a, b, level, tol):
    return {"region": region_close, "mesh": mesh_close, "field": field_close}[level](a, b, tol)


# ------------------------------------------------------------------ the property as a predicate
def rot_point(p, R, i1, i2, cs):
    c, s = cs
    x, y = p[i1] - R[i1], p[i2] - R[i2]
    q = list(p)
    q[i1] = R[i1] + c * x - s * y
    q[i2] = R[i2] + s * x + c * y
    return q


def in_box(p, lo, hi):
    return all(l < x < h for x, l, h in zip(p, lo, hi))


def mapped_component(c, o0, ax):
    """index of the component mapped to axis ax by the field's vdim_mapping (None if there is none)"""
    hits = [v for v, t in o0["vmap"] if t == ax]
    if len(hits) != 1 or o0["vdims"] is None or hits[0] not in o0["vdims"]:
        return None
    return o0["vdims"].index(hits[0])


def oracle_forward(c, level, o0, o1, viol):
    """o0: observables before, o1: after one rotate90(a, b, k, ref).  Appends violated clauses."""
    k = c["k"]
    r0, r1 = region_of(o0, level), region_of(o1, level)
    dims = r0["dims"]
    i1, i2 = dims.index(c["a"]), dims.index(c["b"])
    nd = len(dims)
    cs = TURN[k % 4]
    odd = k % 2 == 1
    R = [F(x) for x in c["ref"]] if c["ref"] is not None else [(l + h) / 2 for l, h in zip(r0["pmin"], r0["pmax"])]
    scale = max([abs(x) for x in r0["pmin"] + r0["pmax"] + R])
    tol = geom_tol(c, scale)

    def swapped(l):
        l = list(l)
        if odd:
            l[i1], l[i2] = l[i2], l[i1]
        return l
    # --- region: the box is the image of the box
    q1, q2 = rot_point(r0["pmin"], R, i1, i2, cs), rot_point(r0["pmax"], R, i1, i2, cs)
    lo = [min(x, y) for x, y in zip(q1, q2)]
    hi = [max(x, y) for x, y in zip(q1, q2)]
    if not (close_l(lo, r1["pmin"], tol) and close_l(hi, r1["pmax"], tol)):
        viol.append("region-corners")
    if r1["units"] != swapped(r0["units"]):
        viol.append("units-swap-iff-odd")
    if r1["dims"] != r0["dims"]:
        viol.append("dims-kept")
    if level == "region":
        return
    m0, m1 = mesh_of(o0, level), mesh_of(o1, level)
    n0, n1 = m0["n"], m1["n"]
    if n1 != swapped(n0):
        viol.append("n-swap-iff-odd")
        return
    # periodicity turns with the cells: for odd k the periodic axes are the image of the periodic axes
    # under the exchange of the two in-plane axes; even k, 'neumann', 'dirichlet': unchanged
    p0, p1_ = periodic_set(m0["bc"]), periodic_set(m1["bc"])
    if isinstance(p0, frozenset) and odd:
        ex = {c["a"]: c["b"], c["b"]: c["a"]}
        p0 = frozenset(ex.get(ch, ch) for ch in p0)
    if p0 != p1_:
        viol.append("periodicity-turns-with-cells")
    if [s[0] for s in m0["subs"]] != [s[0] for s in m1["subs"]]:
        viol.append("subregion-names")
        return
    for (_, s1) in m1["subs"]:
        if s1["dims"] != r1["dims"] or s1["units"] != r1["units"]:
            viol.append("subregion-dims-units")
    cell0 = [(h - l) / k_ for l, h, k_ in zip(r0["pmin"], r0["pmax"], n0)]
    cell1 = [(h - l) / k_ for l, h, k_ in zip(r1["pmin"], r1["pmax"], n1)]
    if level == "field":
        nv = o0["nvdim"]
        if o1["shape"] != n1 + [nv] or o1["valid_shape"] != n1:
            viol.append("array-shape")
            return
        if (o1["vdims"], o1["vmap"], o1["nvdim"], o1["unit"], o1["dtype"]) != \
                (o0["vdims"], o0["vmap"], o0["nvdim"], o0["unit"], o0["dtype"]):
            viol.append("labels-kept")
        v1 = v2 = None
        if nv > 1:
            v1, v2 = mapped_component(c, o0, c["a"]), mapped_component(c, o0, c["b"])
        a0 = np.array(o0["vals"], dtype=object).reshape(*n0, nv)
        a1 = np.array(o1["vals"], dtype=object).reshape(*n1, nv)
        b0 = np.array(o0["valid"], dtype=bool).reshape(*n0)
        b1 = np.array(o1["valid"], dtype=bool).reshape(*n1)
    seen = set()
    for idx in itertools.product(*[range(k_) for k_ in n0]):
        p = [l + (i + F(1, 2)) * ce for l, i, ce in zip(r0["pmin"], idx, cell0)]
        P = rot_point(p, R, i1, i2, cs)
        # the cell of the rotated mesh that contains P
        tgt = tuple(math.floor((x - l) / ce) for x, l, ce in zip(P, r1["pmin"], cell1))
        if not all(0 <= t < k_ for t, k_ in zip(tgt, n1)):
            viol.append("covariance-geometry")
            return
        ctr = [l + (t + F(1, 2)) * ce for l, t, ce in zip(r1["pmin"], tgt, cell1)]
        if not close_l(ctr, P, tol):
            viol.append("covariance-geometry")
            return
        seen.add(tgt)
        for (_, s0), (_, s1) in zip(m0["subs"], m1["subs"]):
            if in_box(p, s0["pmin"], s0["pmax"]) != in_box(P, s1["pmin"], s1["pmax"]):
                viol.append("covariance-subregions")
        if level == "field":
            if bool(b1[tgt]) != bool(b0[idx]):
                viol.append("covariance-validity")
            want = list(a0[idx])
            if nv > 1:
                u, w = a0[idx][v1], a0[idx][v2]
                want[v1] = cs[0] * u - cs[1] * w
                want[v2] = cs[1] * u + cs[0] * w
            if list(a1[tgt]) != want:
                viol.append("covariance-values")
    if len(seen) != math.prod(n0):
        viol.append("covariance-geometry")


def diff_clause(c, viol):
    """f.rotate90(...).diff(image axis) == sign * f.diff(axis).rotate90(...) for a fully valid scalar
    field made of the case's first component (C05 proves the commutation; here the bc bookkeeping)"""
    k4 = c["k"] % 4
    a, b = c["a"], c["b"]
    image = {a: [(a, 1), (b, 1), (a, -1), (b, -1)][k4], b: [(b, 1), (a, -1), (b, -1), (a, 1)][k4]}
    nv = c["nvdim"]
    vals = np.array([fl(x) for x in c["vals"]], dtype=float).reshape(*c["n"], nv)[..., :1]
    try:
        for ax in (a, b):
            f = df.Field(build_mesh(c), nvdim=1, value=vals.copy())
            img, sgn = image[ax]
            lhs = call(df.Field(build_mesh(c), nvdim=1, value=vals.copy()), c, c["inplace"]).diff(img)
            rhs = call(f.diff(ax), c, False)
            scale = max(1.0, float(np.max(np.abs(rhs.array))))
            if lhs.array.shape != rhs.array.shape or not np.allclose(lhs.array, sgn * rhs.array, rtol=1e-9,
                                                                      atol=1e-9 * scale):
                viol.append("diff-commutes-with-turn")
            if periodic_set(lhs.mesh.bc) != periodic_set(rhs.mesh.bc):
                viol.append("periodicity-turns-with-cells")
    except Exception:  # noqa: BLE001
        viol.append("diff-commutes-with-turn")


def run_case(c):
    level, k = c["level"], c["k"]
    rec = dict(kind=f"{level}/{'inplace' if c['inplace'] else 'copy'}", case=c, oracle=[], tags=[])
    viol = []
    src = build(c)
    o0 = observe(src, level)
    # expectation from the property text
    dims0 = region_of(o0, level)["dims"]
    nd = len(dims0)
    malformed = c.get("bad") is not None
    unmapped = False
    if level == "field" and o0["nvdim"] > 1 and not malformed:
        unmapped = mapped_component(c, o0, c["a"]) is None or mapped_component(c, o0, c["b"]) is None
    # the call under test (copying form always; in-place form on a fresh, equal object)
    st_c, res_c = attempt(lambda: call(src, c, False))
    o0_after = observe(src, level)
    keep = {}
    src_ip = build(c, keep=keep)
    callers = []
    if keep.get("mesh") is not None:
        m_ip = keep["mesh"]
        stored = list(m_ip.subregions.values())
        # the mesh keeps its own Region objects: none of them is an object of the caller, none occurs twice
        if any(sv is cv for sv in stored for cv in keep["callers"]) or any(sv is m_ip.region for sv in stored) \
                or len({id(sv) for sv in stored}) != len(stored):
            viol.append("subregions-own-objects")
        callers = [(cv, snap_region(cv)) for cv in keep["callers"] if cv is not m_ip.region]
    st_i, res_i = attempt(lambda: call(src_ip, c, True))
    # an in-place turn of the mesh / field must not move the Region objects of the caller
    if any(snap_region(cv) != before for cv, before in callers):
        viol.append("caller-regions-unchanged")
    st, res = (st_i, res_i) if c["inplace"] else (st_c, res_c)
    # k given as True / False: Python counts them as the integers 1 / 0 and so does the code; an
    # implementation that refused Booleans would still satisfy the property (unspecified choice)
    bool_refused = bool(c.get("k_bool")) and st_c != "ok" and st_i != "ok"
    malformed = malformed or bool_refused
    if not obs_close(o0, o0_after, level, 0):
        viol.append("copy-leaves-original")
    if st_c != st_i:
        viol.append("inplace-eq-copy-acceptance")
    if not c.get("k_bad"):
        # k and k % 4 are the same turn: same acceptance, whatever the arguments
        st_m = attempt(lambda: call(build(c), c, c["inplace"], k=k % 4))[0]
        if (st_m == "ok") != (st == "ok"):
            viol.append("k-mod-4-acceptance")
    if c.get("k_bad") and (st_c == "ok" or st_i == "ok"):
        viol.append("non-integer-k-accepted")
    if st != "ok":
        if not malformed and not unmapped:
            if c.get("k_type", "int") != "int" and attempt(lambda: call(build(c), c, False, k=k))[0] == "ok":
                viol.append("integer-k-refused")       # the same call with k as a Python int is accepted
            else:
                viol.append("valid-call-refused")
        if st_i != "ok" and not obs_close(o0, observe(src_ip, level), level, 0) and False:
            pass  # state after a refused in-place call belongs to C13
        obs = dict(rejected=res)
        o1 = None
    else:
        o1 = observe(res, level)
        obs = o1
        if unmapped:
            viol.append("unmapped-not-refused")
        elif not malformed:
            oracle_forward(c, level, o0, o1, viol)
            r0 = region_of(o0, level)
            R = [F(x) for x in c["ref"]] if c["ref"] is not None else None
            scale = max([abs(x) for x in r0["pmin"] + r0["pmax"]] + ([abs(x) for x in R] if R else []))
            tol = geom_tol(c, scale)
            # in-place == copy, same object returned
            if st_c == "ok" and st_i == "ok":
                oc, oi = observe(res_c, level), observe(src_ip, level)
                if res_i is not src_ip:
                    viol.append("inplace-returns-self")
                if not obs_close(oc, oi, level, 0):
                    viol.append("inplace-eq-copy")  # same arithmetic about the same reference: identical
                # k and k mod 4 agree
                st4, r4 = attempt(lambda: call(build(c), c, False, k=k % 4))
                if st4 != "ok" or not obs_close(oc, observe(r4, level), level, 0):
                    viol.append("k-mod-4")         # k and k % 4 select the same table entry: identical
                # the turn followed by its reverse, and four quarter turns, are the identity
                refc = dict(c)
                if c["ref"] is None:
                    pass  # the centre is a fixed point of the rotation: default reference again
                stb, back = attempt(lambda: call(res_c, refc, False, k=-k))
                if stb != "ok" or not obs_close(o0, observe(back, level), level, 4 * tol):
                    viol.append("turn-then-reverse-identity")
                x = build(c)
                ok4 = True
                tol1 = tol
                for _ in range(4):
                    s4, x = attempt(lambda: call(x, c, False, k=1))
                    if s4 != "ok":
                        ok4 = False
                        break
                if not ok4 or not obs_close(o0, observe(x, level), level, 8 * tol1):
                    viol.append("four-turns-identity")
                # the three levels agree
                if level == "field":
                    sm, rm = attempt(lambda: call(build(c, "mesh"), c, c["inplace"]))
                    if sm != "ok" or not mesh_close(o1["mesh"], obs_mesh(rm), 2 * tol):
                        viol.append("levels-agree-mesh")
                if level in ("field", "mesh"):
                    sr, rr = attempt(lambda: call(build(c, "region"), c, c["inplace"]))
                    if sr != "ok" or not region_close(region_of(o1, level), obs_region(rr), 2 * tol):
                        viol.append("levels-agree-region")
                # behaviour of the turned periodicity: differentiating the turned scalar field along
                # the image axis equals turning the derivative (up to the sign of the axis direction);
                # a bc left on the old axis shows in the boundary cells
                if level == "field" and c["regime"] == "exact":
                    diff_clause(c, viol)
    rec["oracle"] = sorted(set(viol))

    # ---- Gallina encoding
    r0 = region_of(o0, level)
    head = (f'{g.b(c["regime"] == "exact")} {g.b(c["inplace"])} {g.ql(r0["pmin"])} {g.ql(r0["pmax"])} {g.sl(r0["dims"])} {g.sl(r0["units"])}')
    tail = (f'{g.s(c["a"])} {g.s(c["b"])} {g.z(k)} {g.opt(c["ref"], g.ql)}')

    def enc_region(o):
        return f'({g.ql(o["pmin"])}, {g.ql(o["pmax"])}, {g.sl(o["dims"])}, {g.sl(o["units"])})'

    def enc_subs(subs):
        return g.lst([f'({g.s(nm)}, ({g.ql(s["pmin"])}, {g.ql(s["pmax"])}))' for nm, s in subs])

    def enc_mesh(o):
        return f'({enc_region(o["region"])}, {g.zl(o["n"])}, {enc_subs(o["subs"])}, {g.s(o["bc"])})'

    def enc_vmap(vm):
        return g.lst([g.pair(g.s(a_), g.s(b_)) for a_, b_ in vm if isinstance(b_, str)])

    def enc_field(o):
        return (f'({enc_mesh(o["mesh"])}, {g.ql(o["vals"])}, {g.bl(o["valid"])}, '
                f'{g.sl(o["vdims"] or [])}, {enc_vmap(o["vmap"])})')

    if level == "region":
        coq = f'CRegion {head} {tail} {"None" if o1 is None else "(Some " + enc_region(o1) + ")"}'
    elif level == "mesh":
        coq = (f'CMesh {head} {g.zl(o0["n"])} {enc_subs(o0["subs"])} {g.s(o0["bc"])} {tail} '
               f'{"None" if o1 is None else "(Some " + enc_mesh(o1) + ")"}')
    else:
        m0 = o0["mesh"]
        coq = (f'CField {head} {g.zl(m0["n"])} {enc_subs(m0["subs"])} {g.s(m0["bc"])} {g.nat(o0["nvdim"])} {g.ql(o0["vals"])} '
               f'{g.bl(o0["valid"])} {g.sl(o0["vdims"] or [])} {enc_vmap(o0["vmap"])} {tail} '
               f'{"None" if o1 is None else "(Some " + enc_field(o1) + ")"}')
    refk = c.get("refkind")
    key = (f'{level}/{c["inplace"]}/{nd}/{dims0.index(c["a"]) if c["a"] in dims0 else -1}'
           f'{dims0.index(c["b"]) if c["b"] in dims0 else -1}/{k % 4}/{"neg" if k < 0 else "pos"}/{refk}/'
           f'{c.get("mapkind") if level == "field" else ""}/{c["dtype"] if level == "field" else ""}/'
           f'{c["regime"]}/{c.get("k_type")}/{c.get("ctype")}/{bool(c["subs"])}/{c.get("bad")}/{st}')
    if bool_refused or c.get("k_bad"):
        coq = None
    rec.update(obs=js(obs), coq=coq, key=key,
               size=(len(c["vals"]) if level == "field" else 0) + nd + abs(k), nontrivial=True)
    return rec


def stats(records):
    out = dict(accepted=0, rejected=0, refused_unmapped=0, by_level={}, by_kmod4={}, regimes={}, int_dtype=0,
               with_subregions=0, inplace=0, negative_k=0, default_reference=0)
    for r in records:
        c = r["case"]
        rej = isinstance(r["obs"], dict) and "rejected" in r["obs"]
        out["rejected" if rej else "accepted"] += 1
        if rej and r["obs"]["rejected"] == "RuntimeError":
            out["refused_unmapped"] += 1
        out["by_level"][c["level"]] = out["by_level"].get(c["level"], 0) + 1
        out["by_kmod4"][str(c["k"] % 4)] = out["by_kmod4"].get(str(c["k"] % 4), 0) + 1
        out["regimes"][c["regime"]] = out["regimes"].get(c["regime"], 0) + 1
        out["int_dtype"] += int(c["level"] == "field" and c["dtype"] != "float")
        out["int_beyond_2^53"] = out.get("int_beyond_2^53", 0) + int(c["level"] == "field" and c["dtype"] == "int64big")
        out["with_subregions"] += int(bool(c["subs"]) and c["level"] != "region")
        out["inplace"] += int(c["inplace"])
        out["negative_k"] += int(c["k"] < 0)
        out["default_reference"] += int(c["ref"] is None)
        kt = c.get("k_type", "int")
        out["numpy_k"] = out.get("numpy_k", 0) + int(kt != "int")
        out["periodic_inplane"] = out.get("periodic_inplane", 0) + int(
            c["level"] != "region" and c.get("bc", "") not in ("", "neumann", "dirichlet")
            and (c["a"] in c["bc"] or c["b"] in c["bc"]))
        out["bc_keyword"] = out.get("bc_keyword", 0) + int(c.get("bc", "") in ("neumann", "dirichlet"))
        out["shared_subregion_objects"] = out.get("shared_subregion_objects", 0) + int(
            c["level"] != "region" and bool(c.get("sub_share")))
        out["core"] = out.get("core", 0) + int(bool(c.get("core")))
        out["directed_big_k"] = out.get("directed_big_k", 0) + int(c.get("directed") == "big-k")
        out["big_k_with_subregions"] = out.get("big_k_with_subregions", 0) + int(
            abs(c["k"]) >= 250 and bool(c["subs"]) and c["level"] != "region")
        out["k_beyond_2^31"] = out.get("k_beyond_2^31", 0) + int(abs(c["k"]) >= 2 ** 31)
        out["non_integer_k"] = out.get("non_integer_k", 0) + int(bool(c.get("k_bad")))
        out["relayout"] = out.get("relayout", 0) + int(c["level"] == "field" and bool(c.get("layout_vals") or c.get("layout_valid")))
        out["scalar_without_component_axis"] = out.get("scalar_without_component_axis", 0) + int(
            c["level"] == "field" and bool(c.get("squeeze")))
        out["array_setter"] = out.get("array_setter", 0) + int(c["level"] == "field" and c.get("assign") == "setter")
        out["integer_corners"] = out.get("integer_corners", 0) + int(c.get("ctype", "float") != "float")
        out["integer_corners_fractional_ref"] = out.get("integer_corners_fractional_ref", 0) + int(
            c.get("ctype", "float") != "float" and c["ref"] is not None
            and any(F(x).denominator != 1 for x in c["ref"]))
    return out
