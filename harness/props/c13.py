"""C13 — geometric invariants and in-place == copy over transformation histories:
generators (valid / degenerate / malformed steps, mixed forms, regions, meshes with subregions,
fields), implementation runner (both forms at every step, identity / untouched observables),
Gallina encoding, property oracle (exact rational re-statement of the documented maps) and a
delta-debugging shrinker on the step list."""
import copy
import hashlib
from fractions import Fraction as F

import numpy as np

from harness import gallina as g
from harness.util import import_df, attempt

df = import_df()

DEFAULT_TF = 1e-12
REL = F(1, 10 ** 9)
UNITS_POOL = ["m", "nm", "s", "um", "rad"]
DIMS_POOL = {1: [["x"], ["t"]], 2: [["x", "y"], ["a", "b"], ["y", "x"]],
             3: [["x", "y", "z"], ["a", "b", "c"], ["z", "x", "y"]],
             4: [["x0", "x1", "x2", "x3"], ["x", "y", "z", "t"]]}


def S(x):
    if isinstance(x, (float, np.floating)) and not np.isfinite(x):
        return repr(float(x))
    return g.qs(x)


# ===================================================================== argument encoding
def seq(vals, as_="tuple"):
    return dict(t="seq", v=[S(v) if not isinstance(v, dict) else v for v in vals], **{"as": as_})


def nf_py(e):
    """a non-finite number as Python float / numpy float32 / numpy float64"""
    x = float(e["nf"])
    ty = e.get("ty", "py")
    return np.float32(x) if ty == "f32" else np.float64(x) if ty == "f64" else x


def arg_py(a):
    t = a["t"]
    if t == "none":
        return None
    if t == "scalar":
        x = F(a["v"])
        isint = a.get("int") and x.denominator == 1
        if a.get("np"):
            return np.int64(int(x)) if isint else np.float64(float(x))
        return int(x) if isint else float(x)
    if t == "nfscalar":
        return nf_py(a)
    if t == "badarray":
        nd_ = a["nd"]
        shape = {"col": (nd_, 1), "row": (1, nd_), "square": (nd_, nd_), "0d": (), "empty": (0,),
                 "cube": (nd_, 1, 1)}[a["shape"]]
        dt = int if a.get("dtype") == "i" else float
        if a["shape"] == "0d":
            return np.array(2, dtype=dt)
        return (np.arange(int(np.prod(shape)), dtype=dt).reshape(shape) + 1) if shape != (0,) else np.array([], dtype=dt)
    if t == "badtype":
        return {"str": "abc", "dict": {"a": 1}, "set": {1, 2}, "none": None, "obj": object()}[a["v"]]
    out = []
    for e in a["v"]:
        if isinstance(e, dict):
            if "bad" in e:
                out.append({"str": "a", "none": None, "complex": 1j}[e["bad"]])
            else:
                out.append(nf_py(e))
        else:
            x = F(e)
            out.append(int(x) if (a.get("int") and x.denominator == 1) else float(x))
    if a.get("as") == "list":
        return out
    if a.get("as") == "array":
        return np.array(out, dtype=float)
    if a.get("as") == "intarray" and all(isinstance(x, int) for x in out):
        return np.array(out, dtype=np.int64)
    if a.get("as") == "npscalars":
        return tuple(np.int64(x) if isinstance(x, int) else np.float64(x) for x in out)
    return tuple(out)


K_REPS = [None, None, None, "int8", "int32", "int64", "uint8", "uint64"]


def k_py(k):
    if k["t"] == "int":
        rep = k.get("rep")
        if rep is None:
            return int(k["v"])
        if rep.startswith("u"):          # 256 and 2**64 are multiples of 4: the same quarter turn
            return getattr(np, rep)(int(k["v"]) % 256)
        return getattr(np, rep)(int(k["v"]))
    return {"float": 1.0, "str": "1", "npfloat": np.float64(1.0), "none": None, "frac": 2.5}[k["v"]]


def elem_coq(e):
    return "EBad" if isinstance(e, dict) else f"(EReal {g.q(e)})"


def varg_coq(a):
    if a["t"] == "scalar":
        return f"(VScalar {g.q(a['v'])})"
    if a["t"] == "seq":
        return f"(VSeq {g.lst(a['v'], elem_coq)})"
    return "VBadType"          # includes None: not a vector / factor


def rarg_coq(a):
    if a["t"] == "none":
        return "RNone"
    if a["t"] == "scalar":
        return f"(RScalar {g.q(a['v'])})"
    if a["t"] == "seq":
        return f"(RSeq {g.lst(a['v'], elem_coq)})"
    return "RBadType"


def karg_coq(k):
    return f"(KInt {g.z(k['v'])})" if k["t"] == "int" else "KBad"


def step_coq(st):
    if st["op"] == "translate":
        return f"(HTranslate {varg_coq(st['v'])})"
    if st["op"] == "scale":
        return f"(HScale {varg_coq(st['f'])} {rarg_coq(st['ref'])})"
    return f"(HRot {g.s(st['ax1'])} {g.s(st['ax2'])} {karg_coq(st['k'])} {rarg_coq(st['ref'])})"


def call(obj, st, inplace):
    if st["op"] == "translate":
        return obj.translate(arg_py(st["v"]), inplace=inplace)
    if st["op"] == "scale":
        return obj.scale(arg_py(st["f"]), reference_point=arg_py(st["ref"]), inplace=inplace)
    return obj.rotate90(st["ax1"], st["ax2"], k=k_py(st["k"]), reference_point=arg_py(st["ref"]),
                        inplace=inplace)


# ===================================================================== exact re-statement (oracle side)
def _reals(a, nd, bad_is_reject=True):
    """sequence argument -> list of Fractions, or None when the documented validation refuses it"""
    if a["t"] != "seq" or len(a["v"]) != nd:
        return None
    if any(isinstance(e, dict) for e in a["v"]):
        return None
    return [F(e) for e in a["v"]]


def sim_region(r, st, centre=None):
    """r = dict(lo, hi, dims, units); returns the new dict, or None (step must be refused)"""
    lo, hi, nd = r["lo"], r["hi"], len(r["lo"])
    cen = centre if centre is not None else [(a + b) / 2 for a, b in zip(lo, hi)]
    units = list(r["units"])
    if st["op"] == "translate":
        a = st["v"]
        if a["t"] == "scalar":
            v = [F(a["v"])] if nd == 1 else None
        else:
            v = _reals(a, nd)
        if v is None:
            return None
        p1 = [x + d for x, d in zip(lo, v)]
        p2 = [x + d for x, d in zip(hi, v)]
    elif st["op"] == "scale":
        a = st["f"]
        fs = [F(a["v"])] * nd if a["t"] == "scalar" else _reals(a, nd)
        b = st["ref"]
        if b["t"] == "none":
            ref = cen
        elif b["t"] == "scalar":
            ref = [F(b["v"])] if nd == 1 else None
        else:
            ref = _reals(b, nd)
        if fs is None or ref is None:
            return None
        p1 = [R + s * (x - R) for R, s, x in zip(ref, fs, lo)]
        p2 = [R + s * (x - R) for R, s, x in zip(ref, fs, hi)]
    else:
        if st["ax1"] == st["ax2"] or st["k"]["t"] != "int":
            return None
        if st["ax1"] not in r["dims"] or st["ax2"] not in r["dims"]:
            return None
        a, b = r["dims"].index(st["ax1"]), r["dims"].index(st["ax2"])
        rf = st["ref"]
        if rf["t"] == "none":
            ref = cen
        elif rf["t"] != "seq" or len(rf["v"]) != nd:
            return None
        else:
            if isinstance(rf["v"][a], dict) or isinstance(rf["v"][b], dict):
                return None
            ref = [F(0) if isinstance(e, dict) else F(e) for e in rf["v"]]
        k = st["k"]["v"] % 4
        c, s = [(1, 0), (0, 1), (-1, 0), (0, -1)][k]

        def rot(p):
            q = list(p)
            xa, xb = p[a] - ref[a], p[b] - ref[b]
            q[a] = ref[a] + c * xa - s * xb
            q[b] = ref[b] + s * xa + c * xb
            return q
        p1, p2 = rot(lo), rot(hi)
        if st["k"]["v"] % 2 == 1:
            units[a], units[b] = units[b], units[a]
    if any(x == y for x, y in zip(p1, p2)):
        return None
    return dict(lo=[min(x, y) for x, y in zip(p1, p2)], hi=[max(x, y) for x, y in zip(p1, p2)],
                dims=r["dims"], units=units)


def sim_state(s, st):
    """s = dict(reg, n, subs=[(name, reg)], ashape, vshape, rmap, nvdim, type)"""
    cen = [(a + b) / 2 for a, b in zip(s["reg"]["lo"], s["reg"]["hi"])]
    if s["type"] == "field" and st["op"] == "rotate":
        d = s["reg"]["dims"]
        if st["ax1"] not in d or st["ax2"] not in d:
            return None
        if s["nvdim"] > 1 and (s["rmap"][d.index(st["ax1"])] is None or s["rmap"][d.index(st["ax2"])] is None):
            return None
    reg = sim_region(s["reg"], st)
    if reg is None:
        return None
    subs = []
    for name, sr in s["subs"]:
        x = sim_region(sr, st, centre=cen)
        if x is None:
            return None
        subs.append((name, x))
    out = dict(s, reg=reg, subs=subs)
    if st["op"] == "rotate" and st["k"]["v"] % 2 == 1 and s["type"] != "region":
        a, b = reg["dims"].index(st["ax1"]), reg["dims"].index(st["ax2"])
        for key in ("n", "ashape", "vshape"):
            if s[key]:
                v = list(s[key])
                v[a], v[b] = v[b], v[a]
                out[key] = v
    return out


# ===================================================================== implementation side
def corner(root, xs, keep=None):
    """corner values as the root asks for them: floats (default; as a caller-owned array when the arrays
    are tracked), Python ints, or an int64 array"""
    v = _corner(root, xs)
    if keep is not None and not root.get("int"):
        v = np.array(v, dtype=float)
    if keep is not None and isinstance(v, np.ndarray):
        keep["arrays"].append((v, v.copy()))
    return v


def _corner(root, xs):
    if not root.get("int"):
        return [float(F(x)) for x in xs]
    v = [int(F(x)) for x in xs]
    assert all(F(x).denominator == 1 for x in xs)
    if root["int"] == "array":
        return np.array(v, dtype=np.int64)
    return tuple(v) if root["int"] == "tuple" else v


def new_keep():
    return dict(arrays=[], regions=[], others=[])


def build(root, keep=None):
    """keep: what the caller still owns after construction - arrays handed to a constructor (with a pristine
    copy), Region objects handed in (region, subregions), other meshes built from the same objects"""
    region = df.Region(p1=corner(root, root["p1"], keep), p2=corner(root, root["p2"], keep),
                       dims=root["dims"], units=root["units"], tolerance_factor=DEFAULT_TF)
    if root["type"] == "region":
        return region
    same_as = root.get("same_as", {})           # name -> name whose Region OBJECT it re-uses
    subs = {}
    for name, (a, b) in root.get("subs", []):
        if name in same_as:
            subs[name] = subs[same_as[name]]
            continue
        # built with the mesh region's dims, units and tolerance factor (what a careful caller does)
        subs[name] = df.Region(p1=corner(root, a, keep), p2=corner(root, b, keep), dims=root["dims"],
                               units=root["units"], tolerance_factor=DEFAULT_TF)
    n_arg = root["n"]
    if keep is not None:
        n_arg = np.array(root["n"], dtype=int)
        keep["arrays"].append((n_arg, n_arg.copy()))
        # (the mesh keeps the caller's main Region object by design - known finding C13-shared-subobjects -
        # so only the subregion objects are tracked)
        keep["regions"] += [(name, sr, oreg(sr)) for name, sr in subs.items()]
    mesh = df.Mesh(region=region, n=n_arg, bc=root.get("bc", ""), subregions=subs)
    if keep is not None and subs:
        # a second mesh built from the first one's subregion dictionary, and one from the caller's objects
        r2 = df.Region(p1=corner(root, root["p1"]), p2=corner(root, root["p2"]), dims=root["dims"],
                       units=root["units"], tolerance_factor=DEFAULT_TF)
        keep["others"].append(df.Mesh(region=r2, n=list(root["n"]), subregions=mesh.subregions))
        keep["others"].append(df.Mesh(region=r2, n=list(root["n"]), subregions=subs))
    if root["type"] == "mesh":
        return mesh
    n, nv = root["n"], root["nvdim"]
    val = np.array(root["values"], dtype=float).reshape(*n, nv)
    valid = np.array(root["valid"], dtype=bool).reshape(*n)
    kw = {}
    if root.get("mapping") is not None:
        kw["vdim_mapping"] = {k: v for k, v in root["mapping"]}
    return df.Field(mesh, nvdim=nv, value=val, valid=valid, **kw)


def clone(obj):
    """private deep copy (single owner: the copy owns its own mesh / region / subregions)"""
    if isinstance(obj, df.Field):
        return df.Field(copy.deepcopy(obj.mesh), nvdim=obj.nvdim, value=obj.array.copy(), vdims=obj.vdims,
                        dtype=obj.dtype, unit=obj.unit, valid=obj.valid.copy(),
                        vdim_mapping=dict(obj.vdim_mapping))
    return copy.deepcopy(obj)


def parts(obj):
    """mutable state of an object: (arrays, sub-objects)"""
    k = "region" if isinstance(obj, df.Region) else "mesh" if isinstance(obj, df.Mesh) else "field"
    if k == "region":
        return [obj.pmin, obj.pmax], [obj]
    m = obj.mesh if k == "field" else obj
    arrs, objs = [m.n, m.region.pmin, m.region.pmax], [m, m.region]
    for sr in m.subregions.values():
        arrs += [sr.pmin, sr.pmax]
        objs.append(sr)
    if k == "field":
        arrs += [obj.array, obj.valid]
        objs.append(obj)
    return arrs, objs


def shares_state(a, b):
    """does object a share an array buffer or a sub-object with object b?"""
    aa, ao = parts(a)
    ba, bo = parts(b)
    if any(x is y for x in ao for y in bo):
        return True
    return any(isinstance(x, np.ndarray) and isinstance(y, np.ndarray) and np.shares_memory(x, y)
               for x in aa for y in ba)


def kind_of(obj):
    return "region" if isinstance(obj, df.Region) else "mesh" if isinstance(obj, df.Mesh) else "field"


def mesh_of(obj):
    return obj.mesh if kind_of(obj) == "field" else obj


def oreg(r):
    # corners are flattened: a corner array of the wrong rank still yields a comparable (wrong) observable
    return dict(pmin=[S(x) for x in np.asarray(r.pmin).reshape(-1).tolist()],
                pmax=[S(x) for x in np.asarray(r.pmax).reshape(-1).tolist()],
                dims=list(r.dims), units=list(r.units))


def observe(obj):
    k = kind_of(obj)
    if k == "region":
        return dict(reg=oreg(obj), n=[], subs=[], ashape=[], vshape=[])
    m = mesh_of(obj)
    o = dict(reg=oreg(m.region), n=[int(x) for x in m.n],
             subs=[[name, oreg(sr)] for name, sr in m.subregions.items()], ashape=[], vshape=[])
    if k == "field":
        o["ashape"] = [int(x) for x in obj.array.shape]
        o["vshape"] = [int(x) for x in obj.valid.shape]
    return o


def snapshot(obj):
    """everything a step may not touch when it is refused / when it copies"""
    o = observe(obj)
    k = kind_of(obj)
    r = obj if k == "region" else mesh_of(obj).region
    o["tf"] = repr(r.tolerance_factor)
    if k != "region":
        o["bc"] = mesh_of(obj).bc
        o["subtf"] = [repr(sr.tolerance_factor) for sr in mesh_of(obj).subregions.values()]
    if k == "field":
        o["array"] = hashlib.sha1(np.ascontiguousarray(obj.array).tobytes()).hexdigest()
        o["valid"] = hashlib.sha1(np.ascontiguousarray(obj.valid).tobytes()).hexdigest()
        o["vdtype"] = str(obj.valid.dtype)
        o["vdims"] = list(obj.vdims) if obj.vdims is not None else None
        o["mapping"] = sorted((str(a), str(b)) for a, b in obj.vdim_mapping.items())
    return o


def has_nan(o):
    def bad(s):
        try:
            F(s)
            return False
        except (ValueError, ZeroDivisionError):
            return True
    regs = [o["reg"]] + [x[1] for x in o["subs"]]
    return any(bad(v) for r in regs for v in r["pmin"] + r["pmax"])


def oreg_coq(r):
    return f"(mkOR {g.ql(r['pmin'])} {g.ql(r['pmax'])} {g.sl(r['dims'])} {g.sl(r['units'])})"


def ostate_coq(o):
    subs = g.lst([f"({g.s(name)}, {oreg_coq(r)})" for name, r in o["subs"]])
    return f"(mkO {oreg_coq(o['reg'])} {g.zl(o['n'])} {subs} {g.zl(o['ashape'])} {g.zl(o['vshape'])})"


def opt_ostate_coq(o):
    return "None" if o is None else f"(Some {ostate_coq(o)})"


def region_coq(r, tf):
    return f"(mkRegion {g.ql(r['pmin'])} {g.ql(r['pmax'])} {g.sl(r['dims'])} {g.sl(r['units'])} {g.q(tf)})"


def hstate_coq(obj, o):
    k = kind_of(obj)
    tf = F(DEFAULT_TF)
    if k == "region":
        return f"(SRegion {region_coq(o['reg'], tf)})"
    subs = g.lst([f"({g.s(name)}, {region_coq(r, tf)})" for name, r in o["subs"]])
    m = f"(mkMesh {region_coq(o['reg'], tf)} {g.zl(o['n'])} {g.s(mesh_of(obj).bc)} {subs})"
    if k == "mesh":
        return f"(SMesh {m})"
    rm = rmap_of(obj)
    rml = g.lst(["None" if x is None else f"(Some {g.nat(x)})" for x in rm])
    return f"(SField (mkF {m} {g.z(obj.nvdim)} {rml} {g.zl(o['ashape'])} {g.zl(o['vshape'])}))"


def rmap_of(f):
    rev = {v: k for k, v in f.vdim_mapping.items()}
    out = []
    for d in f.mesh.region.dims:
        c = rev.get(d)
        out.append(list(f.vdims).index(c) if (c is not None and f.vdims is not None and c in f.vdims) else None)
    return out


# ---------------------------------------------------------------- invariants of the property text
def invariants(obj, form):
    bad = []
    k = kind_of(obj)
    regs = [("", obj if k == "region" else mesh_of(obj).region)]
    if k != "region":
        regs += [(name, sr) for name, sr in mesh_of(obj).subregions.items()]
    for name, r in regs:
        pmin, pmax = np.asarray(r.pmin, dtype=float), np.asarray(r.pmax, dtype=float)
        if pmin.shape != (len(r.dims),) or pmax.shape != (len(r.dims),):
            bad.append("invariant-corner-shape")
        if not np.all(pmin < pmax):
            bad.append("degenerate-accepted-inplace" if form == "ip" else "degenerate-accepted-copy")
        if not (len(pmin) == len(pmax) == len(r.dims) == len(r.units)):
            bad.append("invariant-lengths")
        if len(set(r.dims)) != len(r.dims):
            bad.append("invariant-unique-dims")
        if not all(isinstance(u, str) for u in r.units) or not all(isinstance(d, str) for d in r.dims):
            bad.append("invariant-names")
    if k != "region":
        m = mesh_of(obj)
        n = np.asarray(m.n)
        if len(n) != m.region.ndim or not np.issubdtype(n.dtype, np.integer) or not np.all(n > 0):
            bad.append("invariant-n")
        else:
            e = np.asarray(m.region.edges, dtype=float)
            if np.all(np.isfinite(e)) and not np.allclose(np.asarray(m.cell) * n, e, rtol=1e-12, atol=0):
                bad.append("invariant-cell-times-n")
            # subregions: inside the region, whole cells of the lattice (1e-6 of a cell)
            cell = e / n
            for name, sr in m.subregions.items():
                for p in (np.asarray(sr.pmin, dtype=float), np.asarray(sr.pmax, dtype=float)):
                    q = (p - np.asarray(m.region.pmin, dtype=float)) / cell
                    if np.all(np.isfinite(q)) and (np.any(np.abs(q - np.round(q)) > 1e-6) or np.any(q < -1e-6)
                                                  or np.any(q > n + 1e-6)):
                        bad.append("invariant-subregion-lattice")
                if tuple(sr.dims) != tuple(m.region.dims) or tuple(sr.units) != tuple(m.region.units):
                    bad.append("invariant-subregion-names")
    if k == "field":
        if tuple(obj.array.shape) != (*[int(x) for x in obj.mesh.n], obj.nvdim):
            bad.append("invariant-array-shape")
        if tuple(obj.valid.shape) != tuple(int(x) for x in obj.mesh.n) or obj.valid.dtype != np.bool_:
            bad.append("invariant-validity")
    return bad


def sim_from_obs(o, typ, rmap=None, nvdim=0):
    def rg(r):
        return dict(lo=[F(x) for x in r["pmin"]], hi=[F(x) for x in r["pmax"]], dims=list(r["dims"]),
                    units=list(r["units"]))
    return dict(type=typ, reg=rg(o["reg"]), n=list(o["n"]), subs=[(name, rg(r)) for name, r in o["subs"]],
                ashape=list(o["ashape"]), vshape=list(o["vshape"]), rmap=rmap, nvdim=nvdim)


def close_list(xs, ys, exact, sc):
    if len(xs) != len(ys):
        return False
    if exact:
        return all(F(a) == b for a, b in zip(xs, ys))
    return all(abs(F(a) - b) <= REL * sc for a, b in zip(xs, ys))


def matches(o, s, exact, sc):
    def rg(r, e):
        return (close_list(r["pmin"], e["lo"], exact, sc) and close_list(r["pmax"], e["hi"], exact, sc)
                and list(r["dims"]) == list(e["dims"]) and list(r["units"]) == list(e["units"]))
    if not rg(o["reg"], s["reg"]):
        return False
    if s["type"] != "region" and list(o["n"]) != list(s["n"]):
        return False
    if len(o["subs"]) != len(s["subs"]):
        return False
    for (na, ra), (nb, rb) in zip(o["subs"], s["subs"]):
        if na != nb or not rg(ra, rb):
            return False
    if s["type"] == "field" and (list(o["ashape"]) != list(s["ashape"]) or list(o["vshape"]) != list(s["vshape"])):
        return False
    return True


def mag(s, st):
    vals = [abs(x) for x in s["reg"]["lo"] + s["reg"]["hi"]]
    for key in ("v", "ref"):
        a = st.get(key)
        if a and a["t"] == "seq":
            vals += [abs(F(e)) for e in a["v"] if not isinstance(e, dict)]
        elif a and a["t"] == "scalar":
            vals.append(abs(F(a["v"])))
    return max(vals + [F(1, 2 ** 40)])


def run_history(case):
    root, steps = case["root"], case["steps"]
    keep = new_keep()
    cur = build(root, keep)
    callers = keep["arrays"]
    typ = root["type"]
    o0 = observe(cur)
    s0 = hstate_coq(cur, o0)
    rmap = rmap_of(cur) if typ == "field" else None
    sim = sim_from_obs(o0, typ, rmap, root.get("nvdim", 0))
    oracle, trace, coq_steps, sig = [], [], [], []
    rot_seen = False
    nonfinite = False
    # the constructors must not keep the caller's arrays: scribble on them, the object must not move
    snap0 = snapshot(cur)
    for arr, pristine in callers:
        arr[...] = arr + 7 if arr.dtype.kind in "iu" else arr * 3 + 1
    if snapshot(cur) != snap0:
        oracle.append("constructor-aliases-caller-array")
    for arr, pristine in callers:
        arr[...] = pristine
    alive = []        # (object, snapshot, born): every earlier object of the chain stays alive and is re-checked
    # Region objects handed to the mesh constructor stay the caller's: the mesh must hold its own
    if typ != "region":
        m0 = mesh_of(cur)
        mine = list(m0.subregions.values())
        if len({id(x) for x in mine}) != len(mine):
            oracle.append("constructor-aliases-caller-region")       # one object under two names
        for name, robj, _ in keep["regions"]:
            if any(robj is x or shares_state(robj, x) for x in mine):
                oracle.append("constructor-aliases-caller-region")
        for other in keep["others"]:
            if shares_state(other, m0):
                oracle.append("constructor-aliases-caller-region")
            alive.append((other, snapshot(other), "other-mesh"))
    for idx, st in enumerate(steps):
        via_mesh = typ == "field" and st["op"] != "rotate"
        real_ip = bool(st["ip"] or via_mesh)
        # the form that continues the history runs on the chain's own object, the other one on a private clone
        other = clone(cur)
        c, oc = (cur, other) if real_ip else (other, cur)
        tgt_c = c.mesh if via_mesh else c
        tgt_cur = oc.mesh if via_mesh else oc
        before_cur = snapshot(oc)
        st_cp, new = attempt(lambda: call(tgt_cur, st, False))
        after_cur = snapshot(oc)
        before_c = snapshot(c)
        st_ip, ret = attempt(lambda: call(tgt_c, st, True))
        after_c = snapshot(c)
        here = []
        if after_cur != before_cur:
            here.append("copy-modified-original" if st_cp == "ok" else "rejected-step-modified-object")
        if st_ip != "ok" and after_c != before_c:
            here.append("rejected-step-modified-object")
        if st_ip == "ok" and ret is not tgt_c:
            here.append("inplace-returns-other-object")
        if (st_ip == "ok") != (st_cp == "ok"):
            here.append("forms-disagree-on-acceptance")
        if st_cp == "ok" and shares_state(tgt_cur, new):
            here.append("copy-shares-state-with-original")
        obs_ip = observe(c) if st_ip == "ok" else None
        if st_cp == "ok":
            obs_cp = observe(c) if (via_mesh and st_ip == "ok") else observe(new)
            new_root_obs = observe(new)
        else:
            obs_cp, new_root_obs = None, None
        if st_ip == "ok" and st_cp == "ok":
            # the in-place form leaves the object equal to what the copying form returns
            a = observe(tgt_c)
            exact_now = not (rot_seen or st["op"] == "rotate")
            if exact_now:
                if a != new_root_obs:
                    here.append("inplace-ne-copy")
                try:
                    same = bool(tgt_c == new)
                except Exception:  # noqa: BLE001
                    same = False
                if not same and not has_nan(a):
                    here.append("inplace-ne-copy")
            elif not has_nan(a) and not has_nan(new_root_obs):
                # after a quarter turn (cos/sin in floating point; Mesh.rotate90(inplace=True) reads the
                # default reference point after the region has been turned) both forms agree up to rounding
                scx = max([abs(F(x)) for x in a["reg"]["pmin"] + a["reg"]["pmax"]] + [F(1, 2 ** 40)])
                if not matches(a, dict(sim_from_obs(new_root_obs, kind_of(tgt_c)), rmap=None), False, scx):
                    here.append("inplace-ne-copy")
            if typ == "field" and not via_mesh:
                if not (np.array_equal(c.array, new.array) and np.array_equal(c.valid, new.valid)
                        and c.valid.dtype == new.valid.dtype and c.vdim_mapping == new.vdim_mapping
                        and c.vdims == new.vdims and c.unit == new.unit):
                    here.append("inplace-ne-copy")
        if st_ip == "ok":
            here += invariants(c, "ip")
        if st_cp == "ok":
            here += invariants(new, "cp")
        roundoff = bool(case.get("roundoff"))
        scale_regime = case.get("regime") == "scale"
        if roundoff:
            # rounding regime (far-away positions): which steps survive is decided by rounding, so only the
            # clauses that hold whatever the outcome are evaluated: untouched on refusal, both forms agree,
            # no degenerate region, shapes
            here = [c_ for c_ in here if c_ not in ("invariant-subregion-lattice", "invariant-cell-times-n")]
        # expectation from the documented maps
        nf = st.get("nonfinite", False)
        # a step with a non-finite (or overflowing) argument must be refused like any malformed step
        exp = None if nf else sim_state(sim, st)
        rot_now = rot_seen or st["op"] == "rotate"
        sc = mag(sim, st)
        for form, ok, o in (("ip", st_ip == "ok", obs_ip), ("cp", st_cp == "ok", obs_cp if not via_mesh else obs_ip)):
            if roundoff:
                continue
            if nf:
                if ok:
                    here.append("nonfinite-argument-accepted")
                continue
            if exp is None and ok:
                here.append("malformed-or-degenerate-step-accepted")
            elif exp is not None and not ok:
                here.append("valid-step-rejected")
            elif exp is not None and ok:
                sc2 = max([sc] + [abs(x) for x in exp["reg"]["lo"] + exp["reg"]["hi"]])
                if not matches(o, exp, not rot_now and not scale_regime, sc2):
                    here.append("affine-map")
        if via_mesh and st_cp == "ok" and exp is not None and not nf and not roundoff:
            sc2 = max([sc] + [abs(x) for x in exp["reg"]["lo"] + exp["reg"]["hi"]])
            if not matches(new_root_obs, dict(exp, type="mesh"), not rot_now and not scale_regime, sc2):
                here.append("affine-map")
        oracle += here
        trace.append(dict(step=idx, ip=st_ip, copy=st_cp, after_inplace=obs_ip, after_copy=new_root_obs,
                          clauses=sorted(set(here))))
        if roundoff or scale_regime or st.get("overflow") or any(o_ is not None and has_nan(o_) for o_ in (obs_ip, obs_cp)):
            nonfinite = True      # outside the Q model: the history stays oracle-only
        if not nonfinite:
            coq_steps.append(f"({g.b(st['ip'])}, {step_coq(st)}, {opt_ostate_coq(obs_ip)}, {opt_ostate_coq(obs_cp)})")
        sig.append((st["op"], st["ip"], st_ip == "ok", st.get("cls", "")))
        # continue the history with the form the step asks for; superseded objects stay alive
        adv_ok = st_ip == "ok" if real_ip else st_cp == "ok"
        if adv_ok:
            if not real_ip:
                alive.append((cur, before_cur, idx))
                cur = new
            rot_seen = rot_now
            if has_nan(observe(cur)):
                break
            if exp is not None and not nf:
                sim = exp
            else:
                sim = sim_from_obs(observe(cur), typ, rmap, root.get("nvdim", 0))
        # the copying form leaves the original untouched - also by every LATER step on its result
        for obj, snap, born in alive:
            if snapshot(obj) != snap:
                oracle.append("earlier-object-changed-by-later-step")
                trace[-1]["clauses"] = sorted(set(trace[-1]["clauses"] + ["earlier-object-changed-by-later-step"]))
                trace[-1]["changed_object_from_step"] = born
        for x_i, (obj, snap, born) in enumerate(alive):
            if shares_state(obj, cur):
                oracle.append("copy-shares-state-with-original")
        if typ != "region":
            for name, robj, snap in keep["regions"]:
                if oreg(robj) != snap:
                    oracle.append("caller-region-modified")
        if has_nan(observe(cur)):
            break
    if any(not np.array_equal(arr, pristine) for arr, pristine in callers):
        oracle.append("caller-array-modified")
    coq = None
    if not nonfinite:
        coq = f"C13Case {s0} {ostate_coq(o0)} {g.lst(coq_steps)}"
    return dict(oracle=sorted(set(oracle)), trace=trace, coq=coq, sig=sig, obs0=o0)


# ---------------------------------------------------------------- shrinking (ddmin on the step list)
def shrink(case, clauses):
    steps = list(case["steps"])

    def fails(ss):
        try:
            r = run_history(dict(case, steps=ss))
        except Exception:  # noqa: BLE001
            return False
        return set(clauses) <= set(r["oracle"])      # keep every violated clause while shrinking
    n = 2
    budget = 60
    while len(steps) >= 2 and budget > 0:
        chunk = max(1, len(steps) // n)
        reduced = False
        for i in range(0, len(steps), chunk):
            cand = steps[:i] + steps[i + chunk:]
            budget -= 1
            if cand and fails(cand):
                steps, n, reduced = cand, max(n - 1, 2), True
                break
            if budget <= 0:
                break
        if not reduced:
            if chunk == 1:
                break
            n = min(len(steps), n * 2)
    return dict(case, steps=steps, shrunk_from=len(case["steps"]))


# ===================================================================== directed streams (oracle only)
def run_aliased(case):
    rec = dict(kind="aliased", case=case, coq=None, oracle=[], tags=["C13-shared-subobjects"], size=1,
               key="aliased/" + case["which"])
    if case["which"] == "two-fields-one-mesh":
        m = df.Mesh(p1=(0, 0, 0), p2=(4, 2, 1), n=(4, 2, 1))
        f1 = df.Field(m, nvdim=1, value=1.0)
        f2 = df.Field(m, nvdim=1, value=2.0)
        st, _ = attempt(lambda: f1.rotate90("x", "y", inplace=True))
        bad = invariants(f1, "ip") + invariants(f2, "ip")
        rec["obs"] = dict(status=st, f2_shape=list(f2.array.shape), f2_mesh_n=[int(x) for x in f2.mesh.n])
    else:
        m = df.Mesh(p1=(0, 0, 0), p2=(4, 2, 1), n=(4, 2, 1),
                    subregions={"a": df.Region(p1=(0, 0, 0), p2=(2, 2, 1))})
        st, _ = attempt(lambda: m.region.translate((8, 0, 0), inplace=True))
        bad = invariants(m, "ip")
        rec["obs"] = dict(status=st, region=oreg(m.region), sub=oreg(m.subregions["a"]))
    if bad:
        rec["oracle"] = ["aliased-object-invariant"]
    rec["obs"]["clauses"] = sorted(set(bad))
    return rec


def run_partial_far(case):
    rec = dict(kind="mesh-partial-far", case=case, coq=None, oracle=[], tags=["C13-mesh-inplace-partial-far"],
               size=1, key="mesh-partial-far")
    m = df.Mesh(p1=(0, 0), p2=(4096, 1), n=(4096, 1), subregions={"a": df.Region(p1=(0, 0), p2=(1, 1))})
    before = snapshot(m)
    st, _ = attempt(lambda: m.translate((2.0 ** 60, 0), inplace=True))
    after = snapshot(m)
    st2, _ = attempt(lambda: df.Mesh(p1=(0, 0), p2=(4096, 1), n=(4096, 1),
                                     subregions={"a": df.Region(p1=(0, 0), p2=(1, 1))}).translate((2.0 ** 60, 0)))
    rec["obs"] = dict(inplace=st, copy=st2, region_after=after["reg"], sub_after=after["subs"])
    if st != "ok" and before != after:
        rec["oracle"].append("rejected-step-modified-object")
    if st == "ok":
        rec["oracle"] += [c for c in invariants(m, "ip")]
    return rec


def run_far_collapse(case):
    """rounding regime, oracle only: a step whose result collapses an edge at a far-away position must be
    refused by both forms and leave the object untouched"""
    rec = dict(kind="far-collapse", case=case, coq=None, oracle=[], tags=[], size=1, key="far-collapse/" + case["which"])
    r = df.Region(p1=(0, 0, 0), p2=(1, 1, 1))
    before = snapshot(r)
    if case["which"] == "translate":
        f = lambda ip: r.translate((1e20, 0, 0), inplace=ip)  # noqa: E731
    elif case["which"] == "rotate":
        f = lambda ip: r.rotate90("x", "y", reference_point=(1e20, 0, 0), inplace=ip)  # noqa: E731
    else:
        f = lambda ip: r.scale(2, reference_point=(1e20, 0, 0), inplace=ip)  # noqa: E731
    st_cp, _ = attempt(lambda: f(False))
    mid = snapshot(r)
    st_ip, _ = attempt(lambda: f(True))
    after = snapshot(r)
    rec["obs"] = dict(copy=st_cp, inplace=st_ip, after=after["reg"])
    if mid != before or (st_ip != "ok" and after != before):
        rec["oracle"].append("rejected-step-modified-object")
    if st_ip == "ok":
        rec["oracle"] += [c for c in invariants(r, "ip") if c.startswith("degenerate")]
    if (st_ip == "ok") != (st_cp == "ok"):
        rec["oracle"].append("forms-disagree-on-acceptance")
    rec["oracle"] = sorted(set(rec["oracle"]))
    return rec


# ===================================================================== generators
def fits(x, bits=40):
    """dyadic with a short mantissa: every product with the small factors used stays exact"""
    x = F(x)
    d = x.denominator
    if d & (d - 1):
        return False
    num = abs(x.numerator)
    while num and num % 2 == 0:
        num //= 2
    return num.bit_length() <= bits and abs(x) <= 2 ** 40


FACTORS = [F(2), F(1, 2), F(-1), F(-2), F(3), F(-1, 2), F(3, 2), F(1, 4), F(-3, 2), F(1), F(4), F(-3), F(3, 4)]


def gen_root(rng, typ, tier, integer=False):
    if typ == "region":
        nd = rng.choice([1, 2, 2, 3, 3, 3, 4])
    elif typ == "mesh":
        nd = rng.choice([1, 2, 2, 3, 3, 4])
    else:
        nd = rng.choice([2, 2, 3, 3, 3, 1])
    dims = rng.choice(DIMS_POOL[nd])
    units = [rng.choice(UNITS_POOL) for _ in range(nd)] if rng.random() < 0.7 else ["m"] * nd
    nmax = 4 if tier == "quick" else 6
    n = [rng.randint(1, nmax) for _ in range(nd)]
    if typ == "field":
        while int(np.prod(n)) > 60:
            n[rng.randrange(nd)] = 1
    with_subs = typ != "region" and rng.random() < 0.45
    cells = [F(rng.choice([1, 2, 3, 1, 1]), rng.choice([1, 2, 2, 4])) for _ in range(nd)] if with_subs else \
        [F(rng.choice([1, 3, 5, 7]), 2 ** rng.randint(0, 4)) for _ in range(nd)]
    lo = [F(rng.randint(-32, 32), 4) if with_subs else F(rng.randint(-128, 128), 8) for _ in range(nd)]
    if integer:
        cells = [F(rng.choice([1, 1, 2, 3])) for _ in range(nd)]
        lo = [F(rng.randint(-8, 8)) for _ in range(nd)]
    hi = [a + k * c for a, k, c in zip(lo, n, cells)]
    p1, p2 = list(lo), list(hi)
    for a in range(nd):
        if rng.random() < 0.4:
            p1[a], p2[a] = p2[a], p1[a]
    root = dict(type=typ, p1=[S(x) for x in p1], p2=[S(x) for x in p2], dims=dims, units=units)
    if integer:
        root["int"] = rng.choice(["list", "tuple", "array"])
    if typ == "region":
        return root
    root["n"] = n
    root["bc"] = ""
    subs = []
    if with_subs:
        for name in rng.sample(["a", "b", "core"], rng.randint(1, 2)):
            q1, q2 = [], []
            for a in range(nd):
                i = rng.randint(0, n[a] - 1)
                j = rng.randint(i + 1, n[a])
                q1.append(lo[a] + i * cells[a])
                q2.append(lo[a] + j * cells[a])
            subs.append([name, [[S(x) for x in q1], [S(x) for x in q2]]])
    root["subs"] = subs
    if typ == "mesh":
        return root
    flavour = rng.choice(["scalar", "vector", "vector", "unmapped", "partial"])
    mapping = None
    if flavour == "scalar":
        nv = 1
    elif flavour == "vector":
        nv = nd
    elif flavour == "unmapped":
        nv = nd + 1 if nd < 3 else 2
    else:
        nv = nd
        if nd >= 2:
            vd = ["x", "y", "z"][:nd] if nd <= 3 else [f"v{i}" for i in range(nd)]
            drop = rng.randrange(nd)
            mapping = [[v, (None if i == drop else d)] for i, (v, d) in enumerate(zip(vd, dims))]
    if nv == 1:
        mapping = None
    root["nvdim"] = nv
    root["mapping"] = mapping
    cnt = int(np.prod(n))
    root["values"] = [rng.randint(-8, 8) for _ in range(cnt * nv)]
    root["valid"] = [rng.random() < 0.8 for _ in range(cnt)]
    return root


def root_sim(root):
    p1, p2 = [F(x) for x in root["p1"]], [F(x) for x in root["p2"]]
    reg = dict(lo=[min(a, b) for a, b in zip(p1, p2)], hi=[max(a, b) for a, b in zip(p1, p2)],
               dims=list(root["dims"]), units=list(root["units"]))
    subs = []
    for name, (a, b) in root.get("subs", []):
        a, b = [F(x) for x in a], [F(x) for x in b]
        subs.append((name, dict(lo=[min(x, y) for x, y in zip(a, b)], hi=[max(x, y) for x, y in zip(a, b)],
                                dims=list(root["dims"]), units=list(root["units"]))))
    n = list(root.get("n", []))
    rmap = None
    if root["type"] == "field":
        nv, nd = root["nvdim"], len(n)
        if nv == 1:
            rmap = [None] * nd
        elif root.get("mapping") is not None:
            vd = [m[0] for m in root["mapping"]]
            rev = {m[1]: m[0] for m in root["mapping"] if m[1] is not None}
            rmap = [vd.index(rev[d]) if d in rev else None for d in root["dims"]]
        elif nv == nd:
            rmap = list(range(nd))
        else:
            rmap = [None] * nd
    return dict(type=root["type"], reg=reg, n=n, subs=subs,
                ashape=(n + [root["nvdim"]]) if root["type"] == "field" else [],
                vshape=list(n) if root["type"] == "field" else [], rmap=rmap, nvdim=root.get("nvdim", 0))


def rand_point(rng, s, tame, far_ok):
    nd = len(s["reg"]["lo"])
    mode = rng.choice(["near", "near", "corner", "origin", "far" if far_ok else "near"])
    out = []
    for a in range(nd):
        lo, hi = s["reg"]["lo"][a], s["reg"]["hi"][a]
        if mode == "corner":
            out.append(rng.choice([lo, hi]))
        elif mode == "origin":
            out.append(F(0))
        elif mode == "far":
            out.append(F(rng.choice([-1, 1]) * rng.randint(1, 7) * 2 ** rng.randint(12, 20)))
        else:
            out.append(F(rng.randint(-16, 16), 2 if tame else 4))
    return out


def gen_valid_step(rng, s, tame):
    nd = len(s["reg"]["lo"])
    dims = s["reg"]["dims"]
    ops = ["translate", "scale", "scale"] + (["rotate", "rotate"] if nd >= 2 else [])
    if s["type"] == "field" and nd >= 2:
        ops += ["rotate", "rotate"]
    op = rng.choice(ops)
    as_ = rng.choice(["tuple", "list", "array"])
    if op == "translate":
        if rng.random() < 0.12 and not tame:
            v = [F(rng.choice([-1, 1]) * rng.randint(1, 5) * 2 ** rng.randint(10, 20)) if rng.random() < 0.5 else F(0)
                 for _ in range(nd)]
            cls = "far"
        else:
            v = [F(rng.randint(-16, 16), 2 if tame else 4) for _ in range(nd)]
            cls = "near"
        if nd == 1 and rng.random() < 0.4:
            return dict(op=op, v=dict(t="scalar", v=S(v[0])), cls=cls + "-scalar")
        return dict(op=op, v=seq(v, as_), cls=cls)
    if op == "scale":
        if rng.random() < 0.5:
            f = dict(t="scalar", v=S(rng.choice(FACTORS)), int=rng.random() < 0.5)
            cls = "uniform"
        else:
            f = seq([rng.choice(FACTORS) for _ in range(nd)], as_)
            cls = "per-axis"
        if rng.random() < 0.45:
            ref = dict(t="none")
        else:
            ref = seq(rand_point(rng, s, tame, far_ok=not tame), rng.choice(["tuple", "list", "array"]))
            cls += "-ref"
            if nd == 1 and rng.random() < 0.4:
                ref = dict(t="scalar", v=ref["v"][0])
        fv = [F(f["v"])] if f["t"] == "scalar" else [F(x) for x in f["v"]]
        if any(x < 0 for x in fv):
            cls += "-neg"
        return dict(op=op, f=f, ref=ref, cls=cls)
    a1, a2 = rng.sample(dims, 2)
    k = rng.randint(-9, 9)
    if rng.random() < 0.5:
        ref = dict(t="none")
    else:
        # the implementation evaluates cos/sin(k*pi/2) in floating point (6e-17 residue times the
        # distance to the reference point): far reference points only where no tolerance test
        # (subregion setter) reads the result
        ref = seq(rand_point(rng, s, tame, far_ok=(not tame and not s["subs"])), rng.choice(["tuple", "list", "array"]))
    return dict(op="rotate", ax1=a1, ax2=a2, k=dict(t="int", v=k, rep=rng.choice(K_REPS)), ref=ref,
                cls=f"k{k % 4}" + ("-ref" if ref["t"] != "none" else ""))


INT_FACTORS = [F(2), F(-1), F(3), F(-2), F(1), F(-3), F(2), F(-1), F(1, 2), F(-1, 2)]


def int_arg(rng, vals):
    """values that are whole numbers travel as Python ints / numpy integers / an int64 array, others as
    floats / numpy floats, in a tuple, a list or an array"""
    as_ = rng.choice(["tuple", "list", "array", "intarray", "npscalars"])
    return dict(t="seq", v=[S(v) for v in vals], int=rng.random() < 0.85, **{"as": as_})


def int_scalar(rng, x):
    return dict(t="scalar", v=S(x), int=rng.random() < 0.85, np=rng.random() < 0.3)


def gen_int_step(rng, s):
    """steps of the integer-typed stream: whole-number vectors / factors / reference points (typed as
    ints), half-integer reference points, quarter turns whose image is not a whole number"""
    nd = len(s["reg"]["lo"])
    dims = s["reg"]["dims"]
    ops = ["translate", "scale"] + (["rotate"] * 3 if nd >= 2 else [])
    op = rng.choice(ops)

    def point():
        mode = rng.choice(["int", "int", "half", "corner", "origin"])
        out = []
        for a in range(nd):
            if mode == "corner":
                out.append(rng.choice([s["reg"]["lo"][a], s["reg"]["hi"][a]]))
            elif mode == "origin":
                out.append(F(0))
            elif mode == "half":
                out.append(F(2 * rng.randint(-6, 6) + (1 if rng.random() < 0.6 else 0), 2))
            else:
                out.append(F(rng.randint(-8, 8)))
        return out
    if op == "translate":
        v = [F(rng.randint(-8, 8)) for _ in range(nd)]
        if nd == 1 and rng.random() < 0.4:
            return dict(op=op, v=int_scalar(rng, v[0]), cls="int-scalar")
        return dict(op=op, v=int_arg(rng, v), cls="int")
    if op == "scale":
        if rng.random() < 0.5:
            f = int_scalar(rng, rng.choice(INT_FACTORS))
        else:
            f = int_arg(rng, [rng.choice(INT_FACTORS) for _ in range(nd)])
        ref = dict(t="none") if rng.random() < 0.3 else int_arg(rng, point())
        if ref["t"] == "seq" and nd == 1 and rng.random() < 0.4:
            ref = int_scalar(rng, F(ref["v"][0]))
        return dict(op=op, f=f, ref=ref, cls="int" + ("-ref" if ref["t"] != "none" else ""))
    a1, a2 = rng.sample(dims, 2)
    k = rng.randint(-9, 9)
    ref = dict(t="none") if rng.random() < 0.5 else int_arg(rng, point())
    return dict(op="rotate", ax1=a1, ax2=a2, k=dict(t="int", v=k), ref=ref,
                cls=f"int-k{k % 4}" + ("-ref" if ref["t"] != "none" else ""))


NF_VALUES = ["nan", "inf", "-inf"]
NF_TYPES = ["py", "f32", "f64"]


def nf_variants(s):
    """every place a non-finite number can enter a step of this state: (name, step without nf value)"""
    nd = len(s["reg"]["lo"])
    dims = s["reg"]["dims"]
    out = []

    def seq_with(e, pos, fill=F(1)):
        v = [S(fill)] * nd
        v[pos] = e
        return v
    for val in NF_VALUES:
        for ti, ty in enumerate(NF_TYPES):
            e = dict(nf=val, ty=ty)
            sc = dict(t="nfscalar", nf=val, ty=ty)
            pos = ti % nd
            as_ = ["tuple", "list", "tuple"][ti]
            out.append((f"factor-scalar/{val}/{ty}", dict(op="scale", f=sc, ref=dict(t="none"))))
            out.append((f"factor-axis/{val}/{ty}",
                        dict(op="scale", f=dict(t="seq", v=seq_with(e, pos, F(2)), **{"as": as_}),
                             ref=dict(t="seq", v=[S(0)] * nd, **{"as": "tuple"}))))
            out.append((f"factor-all/{val}/{ty}",
                        dict(op="scale", f=dict(t="seq", v=[e] * nd, **{"as": as_}), ref=dict(t="none"))))
            out.append((f"vector/{val}/{ty}",
                        dict(op="translate", v=dict(t="seq", v=seq_with(e, pos, F(0)), **{"as": as_}))))
            out.append((f"scale-ref/{val}/{ty}",
                        dict(op="scale", f=dict(t="scalar", v=S(2), int=True),
                             ref=dict(t="seq", v=seq_with(e, pos, F(0)), **{"as": as_}))))
            out.append((f"scale-ref-neg/{val}/{ty}",
                        dict(op="scale", f=dict(t="scalar", v=S(F(-1, 2))),
                             ref=dict(t="seq", v=seq_with(e, pos, F(0)), **{"as": as_}))))
            if nd == 1:
                out.append((f"vector-scalar/{val}/{ty}", dict(op="translate", v=sc)))
                out.append((f"scale-ref-scalar/{val}/{ty}",
                            dict(op="scale", f=dict(t="scalar", v=S(2)), ref=sc)))
            if nd >= 2:
                a, b = dims[ti % nd], dims[(ti + 1) % nd]
                for k in (1, 2):
                    # the non-finite element sits at one of the two axes the turn reads
                    out.append((f"rot-ref/{val}/{ty}/k{k}",
                                dict(op="rotate", ax1=a, ax2=b, k=dict(t="int", v=k),
                                     ref=dict(t="seq", v=seq_with(e, dims.index(a if k == 1 else b), F(0)),
                                              **{"as": as_}))))
    return out


def gen_nf_step(rng, s):
    name, st = rng.choice(nf_variants(s))
    st = dict(st, nonfinite=True, cls="nf-" + name.split("/")[0])
    return st


def directed_far():
    """fixed part of every run, rounding regime (oracle only): steps that carry a region / a mesh with several
    subregions / a field on such a mesh to far-away positions where edges or one-cell subregions collapse.
    Whatever rounding decides, the in-place form must refuse exactly when the copying form refuses, a refused
    step must leave every observable untouched, and no accepted result may be degenerate"""
    line_subs = [["a", [[S(0), S(0)], [S(1), S(1)]]], ["b", [[S(4095), S(0)], [S(4096), S(1)]]],
                 ["c", [[S(100), S(0)], [S(200), S(1)]]]]
    box_subs = [["a", [[S(0), S(0), S(0)], [S(1), S(1), S(1)]]], ["core", [[S(16), S(0), S(0)], [S(64), S(2), S(1)]]]]
    roots = [
        dict(type="region", p1=[S(0), S(0), S(0)], p2=[S(1), S(1), S(1)], dims=["x", "y", "z"],
             units=["m", "nm", "s"]),
        dict(type="region", p1=[S(0), S(0)], p2=[S(4096), S(1)], dims=["x", "y"], units=["m", "s"]),
        dict(type="mesh", p1=[S(0), S(0)], p2=[S(4096), S(1)], dims=["x", "y"], units=["m", "um"],
             n=[4096, 1], bc="", subs=line_subs),
        dict(type="mesh", p1=[S(0), S(0), S(0)], p2=[S(64), S(2), S(1)], dims=["x", "y", "z"],
             units=["m", "nm", "s"], n=[64, 2, 1], bc="", subs=box_subs),
        dict(_froot("xy", [4096, 1], [4096, 1], 1, subs=line_subs)),
        dict(_froot("xyz", [64, 2, 1], [64, 2, 1], 3, subs=box_subs)),
    ]
    cases = []
    for root in roots:
        nd = len(root["p1"])
        d = root["dims"]

        def vec(x, pos=0):
            v = [F(0)] * nd
            v[pos] = F(x)
            return seq(v, "tuple")
        steps = []
        for x in (2.0 ** 60, 2.0 ** 57, -2.0 ** 62, 1e20, 2.0 ** 53):
            steps.append(dict(op="translate", v=vec(x), cls="far-translate"))
        steps.append(dict(op="translate", v=vec(2.0 ** 60, nd - 1), cls="far-translate"))
        for x in (2.0 ** 60, 1e20, -2.0 ** 56):
            steps.append(dict(op="scale", f=dict(t="scalar", v=S(2), int=True), ref=vec(x), cls="far-scale"))
            steps.append(dict(op="scale", f=dict(t="scalar", v=S(-1), int=True), ref=vec(x), cls="far-scale"))
            for k in (1, 2):
                steps.append(dict(op="rotate", ax1=d[0], ax2=d[1], k=dict(t="int", v=k), ref=vec(x),
                                  cls="far-rotate"))
        steps.append(dict(op="rotate", ax1=d[1], ax2=d[0], k=dict(t="int", v=3), ref=vec(2.0 ** 58, 1),
                          cls="far-rotate"))
        back = dict(op="translate", v=seq([F(1)] * nd), cls="far-frame")
        for i, st in enumerate(steps):
            ip = i % 2 == 0
            cases.append(dict(kind="history", root=root, tame=False, roundoff=True, directed="far",
                              steps=[dict(st, ip=ip), dict(back, ip=not ip), dict(st, ip=not ip)]))
    return cases


def directed_large_k():
    """fixed part of every run: a quarter-turn count is a count modulo 4, however large (250 = np.uint8(-6),
    1002, 2**40+1, negative ones, numpy integer types): same acceptance and same state as k mod 4, on a region,
    on the mesh with subregions whose tolerance tests used to refuse k = 250, and on a field"""
    subs = [["b", [[S(F(-67, 2)), S(F(-1, 4))], [S(F(-35, 2)), S(F(15, 4))]]],
            ["a", [[S(F(-35, 2)), S(F(-25, 4))], [S(F(-3, 2)), S(F(-17, 4))]]]]
    roots = [
        dict(type="mesh", p1=[S(F(-67, 2)), S(F(-25, 4))], p2=[S(F(-3, 2)), S(F(15, 4))], dims=["x", "y"],
             units=["s", "um"], n=[2, 5], bc="", subs=subs),
        dict(type="region", p1=[S(0), S(0), S(0)], p2=[S(4), S(2), S(1)], dims=["x", "y", "z"],
             units=["m", "nm", "s"]),
        dict(type="region", p1=[S(F(-93, 8)), S(F(-57, 8)), S(-14)], p2=[S(F(-81, 8)), S(F(-25, 4)), S(F(-221, 16))],
             dims=["x", "y", "z"], units=["m", "m", "m"]),
        dict(_froot("xyz", [4, 2, 1], [4, 2, 1], 3,
                    subs=[["a", [[S(0), S(0), S(0)], [S(2), S(2), S(1)]]]])),
    ]
    counts = [(250, None), (250, "uint8"), (1002, None), (1002, "int32"), (2 ** 40 + 1, None), (2 ** 40 + 1, "int64"),
              (-(2 ** 40) - 1, None), (-1002, None), (251, "uint8"), (2 ** 40 + 2, "uint64")]
    cases = []
    for root in roots:
        d = root["dims"]
        nd = len(d)
        far = seq([F(-917504), F(8192)] + [F(-262144)] * (nd - 2), "list")
        for i, (k, rep) in enumerate(counts):
            for ref in ([dict(t="none"), far] if not root.get("subs") else [dict(t="none"), seq([F(1, 2)] * nd)]):
                kk = dict(t="int", v=k, rep=rep)
                if rep in ("uint8",):
                    kk = dict(t="int", v=k, rep=rep)      # k_py reduces modulo 256: same turn
                steps = [dict(op="rotate", ax1=d[0], ax2=d[1], k=kk, ref=ref, ip=(i % 2 == 0), cls="large-k"),
                         dict(op="rotate", ax1=d[1], ax2=d[0], k=dict(t="int", v=4, rep=None),
                              ref=seq([F(11, 4), F(3, 4)] + [F(9, 4)] * (nd - 2), "array"), ip=(i % 2 == 1),
                              cls="large-k"),
                         dict(op="rotate", ax1=d[0], ax2=d[1], k=dict(t="int", v=k % 4, rep=None), ref=ref,
                              ip=(i % 2 == 1), cls="large-k")]
                cases.append(dict(kind="history", root=root, steps=steps, tame=bool(root.get("subs")),
                                  directed="large-k"))
    return cases


def directed_chains():
    """fixed part of every run: a copying step followed by in-place steps on its RESULT (odd quarter turns in
    planes with different cell counts, scalings, moves); every earlier object of the chain is kept alive
    and must still equal its snapshot after every later step, and share no array / sub-object with its copy"""
    sub3 = [["a", [[S(0), S(0), S(0)], [S(2), S(2), S(1)]]], ["b", [[S(2), S(1), S(0)], [S(4), S(2), S(1)]]]]
    roots = [
        dict(type="mesh", p1=[S(0), S(0), S(0)], p2=[S(4), S(2), S(1)], dims=["x", "y", "z"],
             units=["m", "nm", "s"], n=[4, 2, 1], bc="", subs=sub3),
        dict(type="mesh", p1=[S(0), S(0)], p2=[S(3), S(1)], dims=["a", "b"], units=["m", "s"], n=[3, 2], bc="", subs=[]),
        dict(type="mesh", p1=[S(0), S(0), S(0)], p2=[S(2), S(3), S(5)], dims=["x", "y", "z"], units=["m"] * 3,
             n=[2, 3, 5], bc="", subs=[], int="array"),
        dict(type="region", p1=[S(0), S(0), S(0)], p2=[S(4), S(2), S(1)], dims=["x", "y", "z"],
             units=["m", "nm", "s"]),
        dict(_froot("xyz", [4, 2, 1], [4, 2, 1], 3, subs=sub3)),
        dict(_froot("xy", [3, 2], [3, 2], 1)),
    ]
    cases = []
    for root in roots:
        d = root["dims"]
        nd = len(d)
        mv = lambda ip: dict(op="translate", v=seq([F(1)] * nd), ip=ip, cls="chain")          # noqa: E731
        sc = lambda ip: dict(op="scale", f=dict(t="scalar", v=S(2), int=True), ref=seq([F(0)] * nd), ip=ip,  # noqa: E731
                             cls="chain")
        rot = lambda a, b, k, ip: dict(op="rotate", ax1=d[a], ax2=d[b], k=dict(t="int", v=k, rep=None),  # noqa: E731
                                       ref=dict(t="none"), ip=ip, cls="chain")
        planes = [(0, 1)] + ([(0, 2), (1, 2)] if nd >= 3 else [])
        for a, b in planes:
            for first in (mv(False), sc(False), rot(a, b, 2, False), rot(b, a, 1, False)):
                for k in (1, -1, 3):
                    cases.append(dict(kind="history", root=root, tame=bool(root.get("subs")), directed="chain",
                                      steps=[first, rot(a, b, k, True), mv(True)]))
            cases.append(dict(kind="history", root=root, tame=bool(root.get("subs")), directed="chain",
                              steps=[mv(False), sc(False), rot(a, b, 1, True), sc(True), rot(b, a, 1, False),
                                     rot(a, b, 3, True)]))
    return cases


def directed_bad_arrays():
    """fixed part of every run (seeded e2): numeric arrays of the wrong rank / shape ((ndim,1), (1,ndim),
    (ndim,ndim), 0-d, empty, (ndim,1,1); float and integer) as translation vector, scale factor and reference
    point of scale / rotate90, on regions (1-3 d), a mesh with subregions and a field: refused by both forms,
    nothing touched; accepted corners must stay 1-d of length ndim"""
    roots = dict(directed_roots())
    cases = []
    for name in ("region3", "region1", "mesh3-subs", "mesh2-subs", "field3-vector"):
        root = roots[name]
        s = root_sim(root)
        nd = len(root["p1"])
        d = root["dims"]
        steps = []
        for shape in BAD_SHAPES:
            for dt in ("f", "i"):
                a = dict(t="badarray", nd=nd, shape=shape, dtype=dt)
                steps.append(dict(op="translate", v=a, cls="bad-arr-shape"))
                steps.append(dict(op="scale", f=a, ref=dict(t="none"), cls="bad-f-arr-shape"))
                steps.append(dict(op="scale", f=dict(t="scalar", v=S(2), int=True), ref=a, cls="bad-ref-arr-shape"))
                if nd >= 2:
                    steps.append(dict(op="rotate", ax1=d[0], ax2=d[1], k=dict(t="int", v=1, rep=None), ref=a,
                                      cls="bad-ref-arr-shape"))
        steps = [dict(st, ip=(i % 2 == 0)) for i, st in enumerate(steps) if sim_state(s, st) is None]
        for i in range(0, len(steps), 6):
            cases.append(dict(kind="history", root=root, steps=steps[i:i + 6], tame=bool(s["subs"]),
                              directed="bad-arrays/" + name))
    return cases


def directed_shared_regions():
    """fixed part of every run (seeded e1): subregion dictionaries that contain one Region OBJECT under two
    names, built with the mesh region's dims / units / tolerance factor; the caller keeps its Region objects and
    two more meshes built from the same objects stay alive.  In-place steps must move every subregion once,
    equal the copying form, and leave the caller's objects and the other meshes alone"""
    cases = []
    a3 = [[S(0), S(0), S(0)], [S(2), S(2), S(1)]]
    b3 = [[S(2), S(1), S(0)], [S(4), S(2), S(1)]]
    roots = [
        dict(type="mesh", p1=[S(0), S(0), S(0)], p2=[S(4), S(2), S(1)], dims=["x", "y", "z"],
             units=["m", "nm", "s"], n=[4, 2, 1], bc="", subs=[["a", a3], ["twin", a3], ["b", b3]],
             same_as={"twin": "a"}),
        dict(type="mesh", p1=[S(-1), S(0)], p2=[S(2), S(2)], dims=["x", "y"], units=["m", "m"], n=[3, 1], bc="",
             subs=[["core", [[S(0), S(0)], [S(2), S(2)]]], ["again", [[S(0), S(0)], [S(2), S(2)]]]],
             same_as={"again": "core"}),
        dict(_froot("xyz", [4, 2, 1], [4, 2, 1], 3, subs=[["a", a3], ["twin", a3], ["b", b3]]),
             same_as={"twin": "a"}),
        dict(type="mesh", p1=[S(0), S(0), S(0)], p2=[S(4), S(2), S(1)], dims=["x", "y", "z"],
             units=["m", "m", "m"], n=[4, 2, 1], bc="", subs=[["a", a3], ["b", b3]]),
    ]
    for root in roots:
        d = root["dims"]
        nd = len(d)
        mv = dict(op="translate", v=seq([F(1)] * nd), cls="shared")
        sc = dict(op="scale", f=dict(t="scalar", v=S(2), int=True), ref=seq([F(0)] * nd), cls="shared")
        neg = dict(op="scale", f=seq([F(-1)] + [F(1)] * (nd - 1)), ref=dict(t="none"), cls="shared")
        r1 = dict(op="rotate", ax1=d[0], ax2=d[1], k=dict(t="int", v=1, rep=None), ref=dict(t="none"), cls="shared")
        r2 = dict(op="rotate", ax1=d[0], ax2=d[1], k=dict(t="int", v=2, rep=None), ref=seq([F(1)] * nd),
                  cls="shared")
        for st in (mv, sc, neg, r1, r2):
            for ip in (True, False):
                cases.append(dict(kind="history", root=root, tame=True, directed="shared-regions",
                                  steps=[dict(st, ip=ip), dict(mv, ip=True), dict(st, ip=not ip)]))
    return cases


def directed_scale_regime():
    """fixed part of every run (seeded e3), oracle only, decimal data: thin nm-scale films 0.1 - 1 mm from the
    origin whose subregions touch the faces of the mesh region, scaled by 1.5, 3, -1.3, 0.3, 1/3 about the
    origin / the centre in both forms: valid steps, must be accepted, corners within 1e-9 relative"""
    cases = []
    for x0 in (1e-4, 5e-4, 1e-3):
        for y0 in (0.0, 2e-4):
            p1 = [x0, y0, 0.0]
            p2 = [x0 + 100e-9, y0 + 50e-9, 5e-9]
            mid = x0 + 50e-9
            subs = [["left", [[S(p1[0]), S(p1[1]), S(0.0)], [S(mid), S(p2[1]), S(p2[2])]]],
                    ["right", [[S(mid), S(p1[1]), S(0.0)], [S(p2[0]), S(p2[1]), S(p2[2])]]]]
            root = dict(type="mesh", p1=[S(x) for x in p1], p2=[S(x) for x in p2], dims=["x", "y", "z"],
                        units=["m", "m", "m"], n=[20, 10, 1], bc="", subs=subs)
            froot = dict(root, type="field", nvdim=1, mapping=None, values=[(i % 5) - 2 for i in range(200)],
                         valid=[i % 7 != 3 for i in range(200)])
            for r in (root, froot) if y0 == 0.0 else (root,):
                for f in (1.5, 3.0, -1.3, 0.3, 1 / 3):
                    for ref in (dict(t="none"), seq([F(0)] * 3)):
                        for ip in (True, False):
                            st = dict(op="scale", f=dict(t="scalar", v=S(f)), ref=ref, ip=ip, cls="film")
                            cases.append(dict(kind="history", root=r, steps=[st], tame=False, regime="scale",
                                              directed="scale-regime"))
    return cases


def directed_core_misc():
    """fixed part of every run: one small group per earlier seeded mechanism that had no directed group yet"""
    cases = []
    sub3 = [["a", [[S(0), S(0), S(0)], [S(2), S(2), S(1)]]], ["b", [[S(2), S(1), S(0)], [S(4), S(2), S(1)]]]]
    reg3 = dict(type="region", p1=[S(0), S(0), S(0)], p2=[S(4), S(2), S(1)], dims=["x", "y", "z"],
                units=["m", "nm", "s"])
    mesh3 = dict(reg3, type="mesh", n=[4, 2, 1], bc="", subs=sub3)
    mesh1 = dict(type="mesh", p1=[S(-2)], p2=[S(6)], dims=["x"], units=["nm"], n=[8], bc="",
                 subs=[["l", [[S(-2)], [S(1)]]], ["r", [[S(1)], [S(6)]]]])
    fvec = dict(_froot("xyz", [4, 2, 1], [4, 2, 1], 3, subs=sub3))
    fvalid = dict(_froot("xyz", [4, 2, 3], [4, 2, 3], 3))
    fvalid["valid"] = [True] * 24
    fsvalid = dict(_froot("xy", [3, 2], [3, 2], 1))
    fsvalid["valid"] = [True] * 6
    fperm = dict(_froot("xyz", [4, 2, 1], [4, 2, 1], 3, mapping=[["x", "y"], ["y", "x"], ["z", "z"]]))
    fpart = dict(_froot("xyz", [2, 3, 2], [2, 3, 2], 3, mapping=[["x", "x"], ["y", "y"], ["z", None]]))

    def rot(d, a, b, k, ip, ref=None):
        return dict(op="rotate", ax1=d[a], ax2=d[b], k=dict(t="int", v=k, rep=None), ref=ref or dict(t="none"),
                    ip=ip, cls="core")

    def hist(root, steps, tag):
        cases.append(dict(kind="history", root=root, steps=steps, tame=bool(root.get("subs")), directed="core/" + tag))
    # a1: array-like factors with negative entries, in place
    for root in (reg3, mesh3, fvec):
        for fs in ([-1, 1, 1], [2, -3, 1], [-2, -1, -1], [F(1, 2), 1, -2]):
            for ref in (dict(t="none"), seq([F(0)] * 3), seq([F(1), F(-1), F(2)], "list")):
                for as_ in ("tuple", "list", "array"):
                    hist(root, [dict(op="scale", f=seq([F(x) for x in fs], as_), ref=ref, ip=True, cls="core"),
                                dict(op="translate", v=seq([F(1)] * 3), ip=False, cls="core")], "a1")
    # b1: full turns in the copying form return a new, equal object
    for root in (reg3, mesh3, fvec):
        d = root["dims"]
        for k in (0, 4, -4, 8):
            for ip in (False, True):
                hist(root, [rot(d, 0, 1, k, ip), rot(d, 0, 1, 1, True), rot(d, 1, 2, k, not ip)], "b1")
    # b2: the copy of a field keeps a non-default component-to-axis mapping
    for root, planes in ((fperm, [(0, 1), (1, 2), (0, 2)]), (fpart, [(0, 1)])):
        d = root["dims"]
        for a, b in planes:
            for k in (1, 2, 3):
                hist(root, [rot(d, a, b, k, False), rot(d, b, a, k, True), rot(d, a, b, 1, False)], "b2")
    # c3: fully valid masks turn with the field (planes with different cell counts)
    for root in (fvalid, fsvalid):
        d = root["dims"]
        for a, b in ([(0, 1), (1, 2), (0, 2)] if len(d) == 3 else [(0, 1)]):
            for k in (1, 3, -1):
                hist(root, [rot(d, a, b, k, True), rot(d, b, a, 1, False), rot(d, a, b, k, True)], "c3")
    # d1: cell after several in-place steps (anisotropic cells)
    aniso = dict(type="mesh", p1=[S(0), S(0), S(0)], p2=[S(4), S(1), S(3)], dims=["x", "y", "z"],
                 units=["m", "m", "m"], n=[2, 4, 1], bc="", subs=[])
    for root in (aniso, fvalid):
        d = root["dims"]
        for a, b in [(0, 1), (1, 2), (0, 2)]:
            hist(root, [rot(d, a, b, 1, True), rot(d, a, b, 1, True), rot(d, b, a, 3, True),
                        dict(op="scale", f=seq([F(2), F(1), F(3)]), ref=dict(t="none"), ip=True, cls="core"),
                        rot(d, a, b, -1, True)], "d1")
    # d2: falsy reference points (the origin as scalar 0, int 0, array, numpy scalar) with subregions
    for ref in (dict(t="scalar", v=S(0), int=True), dict(t="scalar", v=S(0)), dict(t="scalar", v=S(0), int=True, np=True),
                seq([F(0)], "array"), seq([F(0)], "list")):
        for f in (2, -1, 3):
            for ip in (True, False):
                hist(mesh1, [dict(op="scale", f=dict(t="scalar", v=S(f), int=True), ref=ref, ip=ip, cls="core")], "d2")
    for ref in (seq([F(0)] * 3, "array"), seq([F(0)] * 3, "intarray") | dict(int=True), seq([F(0)] * 3, "tuple"),
                seq([F(1), F(0), F(0)], "array")):
        for ip in (True, False):
            hist(mesh3, [dict(op="scale", f=dict(t="scalar", v=S(2), int=True), ref=ref, ip=ip, cls="core")], "d2")
            hist(fvec, [dict(op="scale", f=dict(t="scalar", v=S(-2), int=True), ref=ref, ip=ip, cls="core")], "d2")
    return cases


def directed_nonfinite():
    """fixed part of every run: NaN / +inf / -inf (Python float, numpy float32 / float64) in every argument
    position of every operation, on a region, a 1-d region, a mesh with subregions and two fields, in both
    forms, inside a short history (valid step, refused step, valid step: the refused one changes nothing);
    plus finite factors that overflow (oracle only: outside the rational model)"""
    cases = []
    roots = dict(directed_roots())
    pick = ["region3", "region1", "mesh3-subs", "field3-vector", "field3-scalar-subs"]
    for name in pick:
        root = roots[name]
        s = root_sim(root)
        nd = len(root["p1"])
        tame = bool(s["subs"])
        move = dict(op="translate", v=seq([F(1)] * nd), ip=True, cls="nf-frame")
        grow = dict(op="scale", f=dict(t="scalar", v=S(2), int=True), ref=dict(t="none"), ip=False, cls="nf-frame")
        vs = nf_variants(s)
        for i, (vn, st) in enumerate(vs):
            st = dict(st, nonfinite=True, cls="nf-" + vn.split("/")[0], ip=(i % 2 == 0))
            if i % 3 == 0:
                steps = [move, st, grow]
            elif i % 3 == 1:
                steps = [st, move]
            else:
                steps = [grow, st]
            cases.append(dict(kind="history", root=root, steps=steps, tame=tame, directed="nonfinite/" + name))
    # overflow: a finite factor whose product with the edges is not finite any more
    big = dict(type="region", p1=[S(0), S(0), S(0)], p2=[S(40), S(20), S(100)], dims=["x", "y", "z"],
               units=["m", "m", "m"])
    bigm = dict(big, type="mesh", n=[4, 2, 5], bc="", subs=[["a", [[S(0), S(0), S(0)], [S(20), S(20), S(40)]]]])
    for root in (big, bigm):
        for ip in (True, False):
            for f in (dict(t="scalar", v=S(F(1e308))),
                      dict(t="seq", v=[S(1), S(F(-1e308)), S(1)], **{"as": "tuple"}),
                      dict(t="seq", v=[S(F(1.7e308))] * 3, **{"as": "array"})):
                for ref in (dict(t="none"), dict(t="seq", v=[S(0)] * 3, **{"as": "tuple"})):
                    st = dict(op="scale", f=f, ref=ref, ip=ip, nonfinite=True, overflow=True, cls="nf-overflow")
                    cases.append(dict(kind="history", root=root, tame=False, directed="nonfinite/overflow",
                                      steps=[st, dict(op="translate", v=seq([F(1)] * 3), ip=ip, cls="nf-frame")]))
    return cases


BAD_SHAPES = ["col", "row", "square", "0d", "empty", "cube"]


def bad_array(rng, nd, shape=None, dtype=None):
    """a numeric numpy array that is not a 1-d array of length ndim"""
    return dict(t="badarray", nd=nd, shape=shape or rng.choice(BAD_SHAPES), dtype=dtype or rng.choice(["f", "i"]))


def gen_bad_step(rng, s):
    nd = len(s["reg"]["lo"])
    dims = s["reg"]["dims"]
    good = [F(rng.randint(-8, 8), 2) for _ in range(nd)]
    bade = dict(bad=rng.choice(["str", "none", "complex"]))
    op = rng.choice(["translate", "scale", "scale", "rotate", "rotate"])
    if op == "translate":
        cls = rng.choice(["len+", "len-", "elem", "type", "scalar-nd", "arr-shape"])
        if cls == "arr-shape":
            return dict(op=op, v=bad_array(rng, nd), cls="bad-arr-shape")
        if cls == "len+":
            v = seq(good + [F(1)])
        elif cls == "len-":
            v = seq(good[:-1])
        elif cls == "elem":
            x = list(good)
            x[rng.randrange(nd)] = bade
            v = seq(x, rng.choice(["tuple", "list"]))
        elif cls == "type":
            v = dict(t="badtype", v=rng.choice(["str", "dict", "none", "set"]))
        else:
            v = dict(t="scalar", v=S(2)) if nd > 1 else seq([F(1), F(2)])
        return dict(op=op, v=v, cls="bad-" + cls)
    if op == "scale":
        cls = rng.choice(["zero", "zero-axis", "f-len", "f-elem", "f-type", "ref-len", "ref-elem", "ref-type",
                          "ref-scalar-nd"])
        f = dict(t="scalar", v=S(2))
        ref = dict(t="none")
        if rng.random() < 0.12:
            if rng.random() < 0.5:
                return dict(op=op, f=bad_array(rng, nd), ref=ref, cls="bad-f-arr-shape")
            return dict(op=op, f=f, ref=bad_array(rng, nd), cls="bad-ref-arr-shape")
        if cls == "zero":
            f = dict(t="scalar", v=S(0), int=rng.random() < 0.5)
        elif cls == "zero-axis":
            x = [rng.choice(FACTORS) for _ in range(nd)]
            x[rng.randrange(nd)] = F(0)
            f = seq(x)
            if rng.random() < 0.5:
                ref = seq(good)
        elif cls == "f-len":
            f = seq([F(2)] * (nd + rng.choice([-1, 1])))
        elif cls == "f-elem":
            x = [F(2)] * nd
            x[rng.randrange(nd)] = bade
            f = seq(x, "list")
        elif cls == "f-type":
            f = dict(t="badtype", v=rng.choice(["str", "dict", "none"]))
        elif cls == "ref-len":
            ref = seq(good + [F(0)]) if rng.random() < 0.5 else seq(good[:-1])
        elif cls == "ref-elem":
            x = list(good)
            x[rng.randrange(nd)] = bade
            ref = seq(x)
        elif cls == "ref-type":
            ref = dict(t="badtype", v=rng.choice(["str", "dict", "set"]))
        else:
            ref = dict(t="scalar", v=S(1)) if nd > 1 else seq([F(1), F(2)])
        return dict(op=op, f=f, ref=ref, cls="bad-" + cls)
    cls = rng.choice(["same-axis", "unknown-axis", "k", "ref-scalar", "ref-type", "ref-len", "ref-elem"])
    if nd < 2 and cls in ("ref-elem",):
        cls = "unknown-axis"
    a1, a2 = (rng.sample(dims, 2) if nd >= 2 else (dims[0], "q"))
    k = dict(t="int", v=rng.randint(-5, 5))
    ref = dict(t="none")
    if nd >= 2 and rng.random() < 0.12:
        return dict(op="rotate", ax1=a1, ax2=a2, k=k, ref=bad_array(rng, nd), cls="bad-ref-arr-shape")
    if cls == "same-axis":
        a2 = a1
    elif cls == "unknown-axis":
        a2 = "q"
    elif cls == "k":
        k = dict(t="bad", v=rng.choice(["float", "str", "npfloat", "none", "frac"]))
    elif cls == "ref-scalar":
        ref = dict(t="scalar", v=S(1))
    elif cls == "ref-type":
        ref = dict(t="badtype", v=rng.choice(["str", "dict", "set"]))
    elif cls == "ref-len":
        ref = seq(good + [F(0)]) if rng.random() < 0.5 else seq(good[:-1])
    else:
        x = list(good)
        x[dims.index(rng.choice([a1, a2]))] = dict(bad=rng.choice(["str", "none"]))
        ref = seq(x, rng.choice(["tuple", "list"]))
    return dict(op="rotate", ax1=a1, ax2=a2, k=k, ref=ref, cls="bad-" + cls)


def state_ok(s, tame, rot_seen):
    regs = [s["reg"]] + [r for _, r in s["subs"]]
    for r in regs:
        for x in r["lo"] + r["hi"]:
            if tame:
                if abs(x) > 32 or not fits(x, 20):
                    return False
            elif not fits(x) and not rot_seen:
                return False
            elif abs(x) > 2 ** 40:
                return False
        for a, b in zip(r["lo"], r["hi"]):
            if tame and b - a < F(1, 8):
                return False
            if b - a < F(1, 2 ** 24):
                return False
            if not tame and (b - a) * 2 ** 30 < max(abs(a), abs(b)):
                return False      # keep edges well above the rounding of the corners
    return True


def gen_history(rng, typ, tier, length, p_bad, integer=False):
    root = gen_root(rng, typ, tier, integer)
    s = root_sim(root)
    tame = bool(s["subs"])
    steps = []
    rot_seen = False
    for _ in range(length):
        if typ == "field" and rng.random() < 0.2:
            st = unmapped_rot_step(rng, s)
            if st is not None:
                st["ip"] = rng.random() < 0.7
                steps.append(st)
                continue
        if rng.random() < p_bad:
            st = gen_nf_step(rng, s) if rng.random() < 0.25 else gen_bad_step(rng, s)
            st["ip"] = rng.random() < 0.5
            steps.append(st)
            continue
        for attempt_ in range(12):
            st = gen_int_step(rng, s) if (integer and rng.random() < 0.85) else gen_valid_step(rng, s, tame)
            nxt = sim_state(s, st)
            if nxt is not None and state_ok(nxt, tame, rot_seen or st["op"] == "rotate"):
                break
        else:
            st = dict(op="translate", v=seq([F(0)] * len(s["reg"]["lo"])), cls="zero-move")
            nxt = sim_state(s, st)
        st["ip"] = rng.random() < 0.55
        steps.append(st)
        if nxt is not None:
            if st["op"] == "rotate":
                rot_seen = True
            s = nxt
    return dict(kind="history", root=root, steps=steps, tame=tame)


def _froot(dims, p2, n, nv, mapping=None, subs=None, units=None):
    nd = len(dims)
    cnt = int(np.prod(n))
    return dict(type="field", p1=[S(0)] * nd, p2=[S(x) for x in p2], dims=list(dims),
                units=units or ["m", "nm", "s", "um"][:nd], n=list(n), bc="", subs=subs or [],
                nvdim=nv, mapping=mapping, values=[((7 * i) % 17) - 8 for i in range(cnt * nv)],
                valid=[i % 3 != 1 for i in range(cnt)])


def directed_roots():
    sub3 = [["a", [[S(0), S(0), S(0)], [S(2), S(2), S(1)]]], ["b", [[S(2), S(1), S(0)], [S(4), S(2), S(1)]]]]
    x4 = ["x0", "x1", "x2", "x3"]
    return [
        ("region3", dict(type="region", p1=[S(0), S(0), S(0)], p2=[S(4), S(2), S(1)], dims=["x", "y", "z"],
                         units=["m", "nm", "s"])),
        ("region1", dict(type="region", p1=[S(-1)], p2=[S(3)], dims=["x"], units=["nm"])),
        ("mesh3-subs", dict(type="mesh", p1=[S(0), S(0), S(0)], p2=[S(4), S(2), S(1)], dims=["x", "y", "z"],
                            units=["m", "nm", "s"], n=[4, 2, 1], bc="", subs=sub3)),
        ("mesh2-subs", dict(type="mesh", p1=[S(0), S(0)], p2=[S(F(3, 2)), S(2)], dims=["a", "b"],
                            units=["m", "s"], n=[3, 2], bc="",
                            subs=[["core", [[S(F(1, 2)), S(0)], [S(F(3, 2)), S(1)]]]])),
        ("field3-scalar-subs", _froot("xyz", [4, 2, 1], [4, 2, 1], 1, subs=sub3)),
        ("field3-vector", _froot("xyz", [4, 2, 1], [4, 2, 1], 3)),
        ("field2-nv3-unmapped", _froot("xy", [3, 2], [3, 2], 3)),
        ("field3-nv2-unmapped", _froot("xyz", [4, 2, 1], [4, 2, 1], 2, subs=sub3)),
        ("field3-partial-none", _froot("xyz", [2, 3, 2], [2, 3, 2], 3,
                                       mapping=[["x", "x"], ["y", "y"], ["z", None]])),
        ("field3-empty-mapping", _froot("xyz", [2, 2, 3], [2, 2, 3], 3, mapping=[])),
        ("field4-nv2-unmapped", _froot(x4, [2, 3, 1, 2], [2, 3, 1, 2], 2,
                                       subs=[["a", [[S(0), S(1), S(0), S(0)], [S(1), S(3), S(1), S(2)]]]])),
        ("field4-partial-none", _froot(x4, [2, 1, 3, 2], [2, 1, 3, 2], 4,
                                       mapping=[["v0", "x0"], ["v1", "x1"], ["v2", None], ["v3", "x3"]])),
        ("field2-partial-none", _froot("ab", [3, 2], [3, 2], 2, mapping=[["x", "a"], ["y", None]])),
    ]


def unmapped_rotations(s):
    """every ordered axis pair of a vector field that lacks a mapped component: must be refused"""
    out = []
    if s["type"] != "field" or s["nvdim"] <= 1:
        return out
    dims = s["reg"]["dims"]
    nd = len(dims)
    i = 0
    for a in range(nd):
        for b in range(nd):
            if a == b or (s["rmap"][a] is not None and s["rmap"][b] is not None):
                continue
            k = [1, 2, -3, 0, 5][i % 5]
            ref = dict(t="none") if i % 2 == 0 else seq([F(j + 1, 2) for j in range(nd)], ["tuple", "list", "array"][i % 3])
            out.append(dict(op="rotate", ax1=dims[a], ax2=dims[b], k=dict(t="int", v=k), ref=ref, ip=True,
                            cls="unmapped"))
            i += 1
    return out


def directed_refusals():
    """fixed part of every run: every refusal path of every operation, on every kind of root, in place
    (the runner executes both forms); a refusal must leave every observable untouched"""
    import random
    cases = []
    for name, root in directed_roots():
        s = root_sim(root)
        r = random.Random(20260930)
        seen = {}
        steps = unmapped_rotations(s)
        for _ in range(600):
            st = gen_bad_step(r, s)
            key = (st["op"], st["cls"])
            if seen.get(key, 0) >= 2:
                continue
            if sim_state(s, st) is not None:
                continue
            seen[key] = seen.get(key, 0) + 1
            st["ip"] = seen[key] == 1
            steps.append(st)
        for i in range(0, len(steps), 8):
            cases.append(dict(kind="history", root=root, steps=steps[i:i + 8], tame=bool(s["subs"]),
                              directed="refusals/" + name))
    return cases


def unmapped_rot_step(rng, s):
    c = unmapped_rotations(s)
    if not c:
        return None
    st = dict(rng.choice(c))
    st["k"] = dict(t="int", v=rng.randint(-9, 9), rep=rng.choice(K_REPS))
    return st


def directed_integer():
    """fixed part of every run: integer-typed corners whose image under a quarter turn / a scaling is not a
    whole number (in-plane edges of different parity about the default centre, non-integer reference point,
    factor 1/2), every k, both forms, on a region, a mesh with subregions and a field"""
    cases = []
    sub3 = [["a", [[S(0), S(0), S(0)], [S(2), S(1), S(1)]]], ["b", [[S(2), S(0), S(0)], [S(4), S(1), S(1)]]]]
    roots = [
        dict(type="region", p1=[S(0), S(0), S(0)], p2=[S(4), S(1), S(1)], dims=["x", "y", "z"],
             units=["m", "nm", "s"]),
        dict(type="region", p1=[S(3), S(-2)], p2=[S(-2), S(2)], dims=["a", "b"], units=["m", "s"]),
        dict(type="mesh", p1=[S(0), S(0), S(0)], p2=[S(4), S(1), S(1)], dims=["x", "y", "z"],
             units=["m", "nm", "s"], n=[4, 1, 1], bc="", subs=sub3),
        dict(type="mesh", p1=[S(-1), S(0)], p2=[S(2), S(2)], dims=["x", "y"], units=["m", "m"], n=[3, 1], bc="",
             subs=[["core", [[S(0), S(0)], [S(2), S(2)]]]]),
        dict(_froot("xyz", [4, 1, 1], [4, 1, 1], 3, subs=sub3)),
        dict(_froot("xy", [3, 2], [3, 2], 1)),
    ]
    for ri, root in enumerate(roots):
        nd = len(root["p1"])
        d = root["dims"]
        halfref = dict(t="seq", v=[S(F(1, 2))] + [S(0)] * (nd - 1), int=True, **{"as": "tuple"})
        intref = dict(t="seq", v=[S(1)] + [S(0)] * (nd - 1), int=True, **{"as": "list"})
        for kind in ("list", "tuple", "array"):
            r = dict(root, int=kind)
            for k in (1, 2, 3, -1):
                for ref in (dict(t="none"), halfref, intref):
                    ip = (k + ri) % 2 == 0
                    steps = [dict(op="rotate", ax1=d[0], ax2=d[1], k=dict(t="int", v=k), ref=ref, ip=ip,
                                  cls="int-directed"),
                             dict(op="translate", v=dict(t="seq", v=[S(1)] * nd, int=True, **{"as": "intarray"}),
                                  ip=not ip, cls="int-directed"),
                             dict(op="rotate", ax1=d[1], ax2=d[0], k=dict(t="int", v=k), ref=dict(t="none"),
                                  ip=ip, cls="int-directed")]
                    cases.append(dict(kind="history", root=r, steps=steps, tame=bool(root.get("subs")),
                                      directed="integer"))
            cases.append(dict(kind="history", root=r, tame=bool(root.get("subs")), directed="integer", steps=[
                dict(op="scale", f=dict(t="scalar", v=S(F(1, 2))), ref=intref, ip=True, cls="int-directed"),
                dict(op="scale", f=dict(t="scalar", v=S(-3), int=True), ref=halfref, ip=False, cls="int-directed"),
                dict(op="translate", v=dict(t="seq", v=[S(F(1, 2))] * nd, **{"as": "tuple"}), ip=True,
                     cls="int-directed")]))
    return cases


def generate(rng, tier):
    quick = tier == "quick"
    cases = (directed_refusals() + directed_integer() + directed_nonfinite() + directed_large_k() + directed_chains()
             + directed_bad_arrays() + directed_shared_regions() + directed_scale_regime() + directed_core_misc())
    # directed single steps: every factor sign x form x reference on a fixed region (exact regime)
    for f in [F(-1), F(-2), F(-1, 2), F(0), F(3)]:
        for ref in [dict(t="none"), seq([F(0), F(0), F(0)]), seq([F(2 ** 20), F(-3 * 2 ** 18), F(5)])]:
            for ip in (True, False):
                root = dict(type="region", p1=[S(0), S(0), S(0)], p2=[S(4), S(2), S(1)], dims=["x", "y", "z"],
                            units=["m", "nm", "s"])
                cases.append(dict(kind="history", root=root, tame=False, steps=[
                    dict(op="scale", f=dict(t="scalar", v=S(f)), ref=ref, ip=ip, cls="directed"),
                    dict(op="rotate", ax1="x", ax2="y", k=dict(t="int", v=1), ref=dict(t="none"), ip=ip, cls="directed"),
                    dict(op="translate", v=seq([F(1), F(-2), F(1, 2)]), ip=not ip, cls="directed")]))
    nh = 170 if quick else 1300
    lmax = 8 if quick else 40
    for i in range(nh):
        typ = ["region", "mesh", "mesh", "field"][i % 4]
        length = rng.randint(1, lmax) if rng.random() < 0.8 else rng.randint(1, 3)
        if typ == "field":
            length = min(length, 12)
        cases.append(gen_history(rng, typ, tier, length, p_bad=rng.choice([0.0, 0.15, 0.15, 0.4]),
                                 integer=(i % 3 == 1)))
    # known-finding streams, small and rare
    cases.append(dict(kind="aliased", which="two-fields-one-mesh"))
    cases.append(dict(kind="aliased", which="mesh-region-direct"))
    cases += directed_far()
    # spread heavy and light cases evenly over the Coq shards (fixed permutation: the directed core stays the same
    # set of cases in every run, tier and seed)
    import random
    random.Random(424242).shuffle(cases)
    return cases


def nonfinite_case(which):
    root = dict(type="region", p1=[S(0), S(0), S(0)], p2=[S(4), S(2), S(1)], dims=["x", "y", "z"],
                units=["m", "m", "m"])
    nan, inf, ninf = dict(nf="nan"), dict(nf="inf"), dict(nf="-inf")
    if which == "nan-factor":
        st = dict(op="scale", f=dict(t="seq", v=[nan, nan, nan], **{"as": "tuple"}), ref=dict(t="none"))
    elif which == "inf-factor":
        st = dict(op="scale", f=dict(t="seq", v=[inf, inf, inf], **{"as": "tuple"}), ref=dict(t="none"))
    elif which == "-inf-factor":
        st = dict(op="scale", f=dict(t="seq", v=[ninf, S(1), S(1)], **{"as": "tuple"}), ref=dict(t="none"))
    elif which == "nan-axis-factor":
        st = dict(op="scale", f=dict(t="seq", v=[S(2), nan, S(1)], **{"as": "tuple"}), ref=seq([F(0)] * 3))
    else:
        st = dict(op="translate", v=dict(t="seq", v=[nan, S(0), S(0)], **{"as": "tuple"}))
    st.update(ip=(which != "inf-factor"), nonfinite=True, cls=which)
    return dict(kind="nonfinite", which=which, root=root, steps=[st], tame=False)


# ===================================================================== entry points
def run_case(case):
    kind = case["kind"]
    if kind == "aliased":
        return run_aliased(case)
    tags = []
    r = run_history(case)
    if r["oracle"] and kind == "history" and len(case["steps"]) > 1:
        small = shrink(case, r["oracle"])
        if len(small["steps"]) < len(case["steps"]):
            r2 = run_history(small)
            if r2["oracle"]:
                case, r = small, r2
    root = case["root"]
    nd = len(root["p1"])
    sig = r["sig"]
    shape = f'{root["type"]}/{nd}/subs{len(root.get("subs", []))}/nv{root.get("nvdim", 0)}'
    ops = sorted({f"{op[0]}{'i' if ip else 'c'}{'+' if ok else '-'}" for op, ip, ok, _ in sig})
    classes = sorted({c for *_, c in sig})
    h = int(hashlib.sha1(repr(sig).encode()).hexdigest(), 16) % 5
    return dict(kind=kind, case=case, obs=dict(initial=r["obs0"], trace=r["trace"]), coq=r["coq"],
                oracle=r["oracle"], tags=tags, size=len(case["steps"]),
                key=f'{shape}/{"".join(ops)}/{",".join(classes)[:60]}/{h}',
                nsteps=len(sig), naccepted=sum(1 for _, _, ok, _ in sig if ok))


def decode_case(c):
    return c


def stats(records):
    out = dict(histories=0, steps=0, accepted=0, rejected=0, shrunk=0)
    for r in records:
        if r["kind"] in ("history", "nonfinite"):
            out["histories"] += 1
            out["steps"] += r.get("nsteps", 0)
            out["accepted"] += r.get("naccepted", 0)
            out["rejected"] += r.get("nsteps", 0) - r.get("naccepted", 0)
            if "shrunk_from" in r["case"]:
                out["shrunk"] += 1
        k = "roots/" + (r["case"].get("root", {}).get("type", r["kind"]))
        out[k] = out.get(k, 0) + 1
    return out
