"""C14 - subregions stay inside, aligned with and measured in cells of their mesh:
generators, implementation runner, Gallina encoding, property oracle.

Known findings exercised (tags):
  C14-abs-tolerance      Mesh.is_aligned / the setter use an ABSOLUTE tolerance (1e-12): with a cell
                         of <= 2e-12 every offset is 'aligned' (cases whose smallest cell is <= 2e-12)
"""
import math
import os
import random
import tempfile
from fractions import Fraction as F

import numpy as np

from harness import gallina as g
from harness.util import import_df, js, attempt

df = import_df()

ALIGN_TOL = F(1, 10 ** 12)
DEFAULT_TF = F(1, 10 ** 12)
SCALES = [1e-12, 1e-12, 1e-11, 1e-9, 1e-9, 1e-6, 1e-3, 1.0, 1.0]
DIMS = [["x", "y", "z", "t"], ["a", "b", "c", "d"], ["r", "s", "u", "v"]]
UNITS = [["m", "m", "m", "m"], ["nm", "s", "A", "K"]]
TAG_ABS = "C14-abs-tolerance"
TAG_GETTER = "C14-getter-dict-mutable"


def S(x):
    return g.qs(x)


def fl(s):
    return float(F(s))


def fls(xs):
    return [fl(x) for x in xs]


def Fs(xs):
    return [F(x) for x in xs]


NAMES = ["zeta", "alpha", "mid", "Beta", "k9", "_u", "omega", "a1", "Zz", "b"]


def nums(xs, st=None):
    """numbers handed to the implementation: floats, or - in the integer-typed stream, when every
    value is integral - Python ints / an int64 array"""
    fr = [F(x) for x in xs]
    if st is not None and st.get("ints") and all(f.denominator == 1 for f in fr):
        vals = [int(f) for f in fr]
        return np.array(vals, dtype=np.int64) if st.get("ctype") == "array" else vals
    return [float(f) for f in fr]


def spell_ref(c, st):
    """the reference point in the spelling the case asks for: list / tuple / ndarray, and for
    one-dimensional meshes a plain number or a numpy scalar"""
    if c.get("ref") is None:
        return None
    vals = list(nums(c["ref"], st))
    sp = c.get("refspell", "list")
    if sp == "tuple":
        return tuple(vals)
    if sp == "array":
        return np.array(vals)
    if sp == "scalar" and len(vals) == 1:
        return vals[0] if not isinstance(vals[0], np.generic) else vals[0].item()
    if sp == "npscalar" and len(vals) == 1:
        return np.float64(vals[0]) if isinstance(vals[0], float) else np.int64(vals[0])
    return vals


def typed(x, t):
    """a selection bound of the requested Python / numpy type (float when the type cannot hold it)"""
    f = F(x)
    if t == "int" and f.denominator == 1:
        return int(f)
    if t == "npint" and f.denominator == 1:
        return np.int64(int(f))
    if t == "np32" and F(float(np.float32(float(f)))) == f:
        return np.float32(float(f))
    if t == "np64":
        return np.float64(float(f))
    return float(f)


XTYPES = ["float", "float", "np64", "np32", "int", "npint"]


# ------------------------------------------------------------------ generators
def gen_state(rng, exact, nd=None, nsubs=None, scale=None, nmax=6, ints=False):
    nd = nd or rng.choice([1, 1, 2, 2, 3, 3, 3, 4])
    s = 1.0 if exact else (scale or rng.choice(SCALES))
    ints = bool(ints and exact)
    lo, hi, n = [], [], []
    for _ in range(nd):
        k = rng.randint(1, nmax)
        if ints:
            # integer-typed corners, possibly fractional cells (integral faces only at every 2nd index)
            c = rng.choice([F(1, 2), F(1, 2), F(1), F(2), F(3, 2)])
            if c.denominator == 2:
                k = 2 * rng.randint(1, 4)
            l = F(rng.randint(-20, 20))
            h = l + k * c
        elif exact:
            c = F(rng.choice([1, 3, 5, 7]), 2 ** rng.randint(0, 4))
            l = F(rng.randint(-256, 256), 8)
            h = l + k * c
        else:
            c = round(rng.uniform(0.5, 9.5), 1) * s
            l = rng.choice([0.0, round(rng.uniform(-20, 20), 1)]) * s
            h = l + k * c
            if not h > l:
                h = l + s
        lo.append(l)
        hi.append(h)
        n.append(k)
    p1, p2 = [], []
    for l, h in zip(lo, hi):
        if rng.random() < 0.3:
            l, h = h, l
        p1.append(l)
        p2.append(h)
    tf = F(1, 2 ** rng.choice([30, 36, 40])) if exact else DEFAULT_TF
    st = dict(exact=exact, p1=[S(x) for x in p1], p2=[S(x) for x in p2], n=n, tf=S(tf),
              dims=rng.choice(DIMS)[:nd], units=rng.choice(UNITS)[:nd], subs=[], sub_idx={},
              ints=ints, ctype=rng.choice(["list", "list", "array"]),
              # integer-typed mesh corners with subregions on ANY lattice face (half-integer corners
              # are then floats while the mesh stays int64) in half of the integer-typed states
              mixed=bool(ints and rng.random() < 0.5))
    k = rng.choice([0, 1, 1, 2, 2, 3]) if nsubs is None else nsubs
    for i in range(k):
        add_sub(rng, st)
    return st


def allowed_faces(st, a):
    """face indices a subregion corner may use (integer-typed stream: integral coordinates only)"""
    k = st["n"][a]
    if not st.get("ints") or st.get("mixed"):
        return list(range(k + 1))
    return [j for j in range(k + 1) if F(face(st, a, j)).denominator == 1]


def bounds(st):
    p1, p2 = Fs(st["p1"]), Fs(st["p2"])
    return [min(a, b) for a, b in zip(p1, p2)], [max(a, b) for a, b in zip(p1, p2)]


def face(st, a, j):
    """coordinate of lattice face j on axis a: exact Fraction (exact regime) or the float a user
    would compute (scale regime)"""
    lo, hi = bounds(st)
    k = st["n"][a]
    if st["exact"]:
        return lo[a] + j * (hi[a] - lo[a]) / k
    flo, fhi = float(lo[a]), float(hi[a])
    if j == 0:
        return flo
    if j == k:
        return fhi
    return flo + j * ((fhi - flo) / k)


def cellq(st):
    lo, hi = bounds(st)
    return [(h - l) / k for l, h, k in zip(lo, hi, st["n"])]


def rand_idx_box(rng, st, touching=None):
    box = []
    for a in range(len(st["n"])):
        al = allowed_faces(st, a)
        i1 = rng.randint(0, len(al) - 2)
        i2 = rng.randint(i1 + 1, len(al) - 1)
        if rng.random() < 0.3:
            i1, i2 = 0, len(al) - 1
        box.append([al[i1], al[i2]])
    if touching is not None:
        # share a face with the given box on one axis
        a = rng.randrange(len(box))
        j1, j2 = touching[a]
        al = allowed_faces(st, a)
        above = [j for j in al if j > j2]
        below = [j for j in al if j < j1]
        if above:
            box[a] = [j2, rng.choice(above)]
        elif below:
            box[a] = [rng.choice(below), j1]
    return box


def add_sub(rng, st, name=None):
    if name is None:
        name = rng.choice([x for x in NAMES if x not in st["sub_idx"]])
    prev = list(st["sub_idx"].values())
    box = rand_idx_box(rng, st, touching=rng.choice(prev) if prev and rng.random() < 0.5 else None)
    st["sub_idx"][name] = box
    st["subs"].append([name, [S(face(st, a, b[0])) for a, b in enumerate(box)],
                       [S(face(st, a, b[1])) for a, b in enumerate(box)]])


def gen_candidate(rng, st, name, cls):
    """a candidate box of the given class; returns [name, p1, p2, tf, cls]"""
    nd = len(st["n"])
    box = rand_idx_box(rng, st)
    cq = cellq(st)
    lo_ = [face(st, a, b[0]) for a, b in enumerate(box)]
    hi_ = [face(st, a, b[1]) for a, b in enumerate(box)]
    a = rng.randrange(nd)
    c = cq[a] if st["exact"] else float(cq[a])
    if cls == "aligned":
        pass
    elif cls == "shift-half":
        lo_[a] += c / 2
        hi_[a] += c / 2
        if box[a][1] == st["n"][a]:
            lo_[a] -= c
            hi_[a] -= c
    elif cls == "shift-quarter":
        lo_[a] += c / 4
        hi_[a] += c / 4
        if box[a][1] == st["n"][a]:
            lo_[a] -= c
            hi_[a] -= c
    elif cls in ("shift-below-tol", "shift-above-tol"):
        # offsets around the absolute alignment tolerance 1e-12 (2^-41 < 1e-12 < 2^-39)
        d = F(1, 2 ** 41) if cls == "shift-below-tol" else F(1, 2 ** 39)
        d = d if st["exact"] else float(d)
        sign = 1 if box[a][0] == 0 else rng.choice([1, -1])
        lo_[a] += sign * d
        if rng.random() < 0.5:
            hi_[a] += sign * d
    elif cls == "oversized":
        if rng.random() < 0.5:
            hi_[a] = face(st, a, st["n"][a]) + c * rng.choice([1, 2])
        else:
            lo_[a] = face(st, a, 0) - c * rng.choice([1, 2])
    elif cls == "fractional":
        hi_[a] = lo_[a] + (box[a][1] - box[a][0]) * c - c * rng.choice([F(1, 2), F(1, 4), F(3, 8)] if st["exact"] else [0.5, 0.25, 0.37])
        if not hi_[a] > lo_[a]:
            hi_[a] = lo_[a] + c / 2
    elif cls == "tiny":
        hi_[a] = lo_[a] + c / rng.choice([4, 1024])
    elif cls == "wrong-ndim":
        if nd > 1 and rng.random() < 0.5:
            lo_, hi_ = lo_[:-1], hi_[:-1]
        else:
            lo_, hi_ = lo_ + [0], hi_ + [1]
    elif cls == "whole-region":
        lo_ = [face(st, b, 0) for b in range(nd)]
        hi_ = [face(st, b, st["n"][b]) for b in range(nd)]
    else:
        raise ValueError(cls)
    p1, p2 = list(lo_), list(hi_)
    for b in range(len(p1)):
        if rng.random() < 0.25:
            p1[b], p2[b] = p2[b], p1[b]
    return [name, [S(x) for x in p1], [S(x) for x in p2], S(DEFAULT_TF), cls]


GOOD = ["aligned", "aligned", "aligned", "whole-region", "shift-below-tol"]
BAD = ["shift-half", "shift-quarter", "shift-above-tol", "oversized", "fractional", "tiny", "wrong-ndim"]


def gen_setter(rng, exact, scale=None, ints=False):
    st = gen_state(rng, exact, scale=scale, nsubs=0 if (scale or 0) >= 1e3 else None, ints=ints)
    k = rng.choice([1, 1, 2, 3])
    classes = [rng.choice(GOOD) for _ in range(k)]
    if rng.random() < 0.6:
        classes[rng.randrange(k)] = rng.choice(BAD)
    names = rng.sample(NAMES, k)
    cands = [gen_candidate(rng, st, names[i], cls) for i, cls in enumerate(classes)]
    via = "ctor" if (not st["subs"] and rng.random() < 0.5) else "setter"
    return dict(kind="setter", st=st, cands=cands, via=via)


def gen_overshoot(rng):
    """a long axis and a candidate whose lower corner is on the lattice while its upper corner overshoots
    a cell face by 2^-13 cell: inside, 'whole cells' within the 0.1 % slack, cell equal within rtol 1e-5 -
    only the upper-corner lattice test refuses it"""
    st = gen_state(rng, True, nsubs=rng.choice([0, 1]))
    cq = cellq(st)
    a = min(range(len(cq)), key=lambda b: cq[b])
    lo, hi = bounds(st)
    k = rng.randint(16, 40)
    st["p1"][a], st["p2"][a], st["n"][a] = S(lo[a]), S(lo[a] + k * cq[a]), k
    st["subs"], st["sub_idx"] = [], {}
    if rng.random() < 0.5:
        add_sub(rng, st)
    box = rand_idx_box(rng, st)
    j1 = rng.randint(0, k - 15)
    box[a] = [j1, rng.randint(j1 + 14, k - 1)]
    p1 = [face(st, b, x[0]) for b, x in enumerate(box)]
    p2 = [face(st, b, x[1]) for b, x in enumerate(box)]
    p2[a] += cq[a] / 8192
    cand = [rng.choice(NAMES), [S(x) for x in p1], [S(x) for x in p2], S(DEFAULT_TF), "pmax-overshoot"]
    return dict(kind="setter", st=st, cands=[cand], via="setter")


def gen_aligned(rng, exact, scale=None, ints=False, cls=None):
    st = gen_state(rng, exact, nsubs=0, scale=scale, ints=ints)
    nd = len(st["n"])
    lo, hi = bounds(st)
    cq = cellq(st)
    forced = cls is not None
    cls = cls or rng.choice(["same", "whole", "whole", "half", "quarter", "below-tol", "above-tol", "cell-differs",
                             "cell-slightly"])
    if not forced and not exact and float(min(cq)) <= 1e-11 and rng.random() < 0.5:
        cls = rng.choice(["half", "quarter", "cell-differs"])
    n2 = [rng.randint(1, 6) for _ in range(nd)]
    lo2, hi2 = [], []
    a_sp = rng.randrange(nd)
    for a in range(nd):
        c = cq[a] if exact else float(cq[a])
        l = (lo[a] if exact else float(lo[a])) + rng.randint(-4, 4) * c
        if a == a_sp:
            if cls == "half":
                l += c / 2
            elif cls == "quarter":
                l += c / 4
            elif cls == "below-tol":
                l += F(1, 2 ** 41) if exact else 2.0 ** -41
            elif cls == "above-tol":
                l += F(1, 2 ** 39) if exact else 2.0 ** -39
        c2 = c
        if a == a_sp and cls == "cell-differs":
            c2 = c * (F(3, 2) if exact else 1.5)
        if a == a_sp and cls == "cell-slightly":
            c2 = c * (1 + F(1, 2 ** 18) if exact else 1 + 2.0 ** -18)      # 3.8e-6 < rtol 1e-5
        h = l + n2[a] * c2
        lo2.append(l)
        hi2.append(h)
    tol = ALIGN_TOL
    if rng.random() < 0.15:
        tol = F(1, 2 ** rng.choice([30, 44])) if exact else F(rng.choice([1e-11, 1e-10, 1e-14]))
    return dict(kind="aligned", st=st, q1=[S(x) for x in lo2], q2=[S(x) for x in hi2], n2=n2, tol=S(tol), cls=cls)


def gen_op(rng, st, exact):
    nd = len(st["n"])
    lo, hi = bounds(st)
    kind = rng.choice(["translate", "translate", "scale", "scale", "rotate", "rotate"])
    if nd == 1 and kind == "rotate" and rng.random() < 0.7:
        kind = "scale"
    if st.get("ints") and rng.random() < 0.6:
        def num():
            return F(rng.randint(-8, 8))
    elif exact:
        def num():
            return F(rng.randint(-64, 64), 8)
    else:
        s = max(float(max(abs(x) for x in lo + hi)), 1e-300)

        def num():
            return round(rng.uniform(-1, 1), 2) * s
    ref = None
    if rng.random() < 0.5:
        ref = [S(num()) for _ in range(nd)]
        if rng.random() < 0.4:
            # reference points containing zeros (a falsy point is still a point)
            for b in range(nd):
                if rng.random() < 0.7:
                    ref[b] = S(0)
    refspell = rng.choice(["list", "tuple", "array", "array"] + (["scalar", "npscalar"] if nd == 1 and kind == "scale" else []))
    if kind == "translate":
        v = [S(num()) for _ in range(nd)]
        if rng.random() < 0.3:
            # whole cells: subregions left behind would still pass the setter
            v = [S(rng.randint(-2, 2) * (c_ if exact else float(c_))) for c_ in cellq(st)]
        if rng.random() < 0.08:
            v = v + [S(1)]
        return dict(op="translate", v=v)
    if kind == "scale":
        pool = [F(2), F(1, 2), F(3), F(-1), F(3, 2), F(-1, 4), F(1), F(5, 4)] if exact else \
               [2.0, 0.5, 3.0, -1.0, 1.5, 0.1, 1.0, 1e-3, 7.3, -0.3]
        scalar = rng.random() < 0.5
        if scalar:
            f = [rng.choice(pool)] * nd
        else:
            f = [rng.choice(pool) for _ in range(nd)]
        if rng.random() < 0.08:
            f[rng.randrange(nd)] = 0
            f = [f[0]] * nd if scalar else f
        return dict(op="scale", f=[S(x) for x in f], scalar=scalar, ref=ref, refspell=refspell)
    a = rng.randrange(nd)
    b = rng.randrange(nd)
    if a == b and rng.random() < 0.85 and nd > 1:
        b = (a + 1 + rng.randrange(nd - 1)) % nd
    if rng.random() < 0.05:
        b = nd      # unknown dimension name
    return dict(op="rotate", a=a, b=b, k=rng.randint(-3, 5), ref=ref, refspell=refspell)


def gen_sel_range(rng, st, exact):
    nd = len(st["n"])
    a = rng.randrange(nd)
    k = st["n"][a]
    i1 = rng.randint(0, k - 1)
    i2 = rng.randint(i1, k - 1)
    # directed: start / end exactly on a subregion face
    boxes = list(st["sub_idx"].values())
    if boxes and rng.random() < 0.6:
        j1, j2 = rng.choice(boxes)[a]
        if rng.random() < 0.5 and j2 < k:
            i1 = j2
            i2 = rng.randint(i1, k - 1)
        elif j1 > 0:
            i2 = j1 - 1
            i1 = rng.randint(0, i2)
    cq = cellq(st)[a]
    if exact:
        def val(i):
            r = rng.random()
            base = face(st, a, i)
            if r < 0.5:
                return base + cq / 2
            if r < 0.65:
                return base                      # lower face of cell i: belongs to cell i
            if r < 0.8:
                return base + cq / 1024
            return base + cq - cq / 1024
        x1, x2 = val(i1), val(i2)
        if rng.random() < 0.1:
            x2 = face(st, a, k)                  # pmax: last cell
            i2 = k - 1
        if rng.random() < 0.06:
            x2 = face(st, a, k) + cq             # outside
    else:
        c = float(cq)
        x1 = face(st, a, i1) + c * rng.uniform(0.15, 0.85)
        x2 = face(st, a, i2) + c * rng.uniform(0.15, 0.85)
        if rng.random() < 0.5:
            x1 = face(st, a, i1) + c / 2
            x2 = face(st, a, i2) + c / 2
    if rng.random() < 0.3:
        x1, x2 = x2, x1
    return dict(kind="sel-range", st=st, a=a, x1=S(x1), x2=S(x2), i1=i1, i2=i2,
                xtype=[rng.choice(XTYPES), rng.choice(XTYPES)], seq=rng.choice(["tuple", "list", "array"]))


def gen_sel_plane(rng, st, exact):
    nd = len(st["n"])
    a = rng.randrange(nd)
    k = st["n"][a]
    cq = cellq(st)[a]
    i = rng.randint(0, k - 1)
    r = rng.random()
    if r < 0.15 and (exact or k % 2 == 1):
        return dict(kind="sel-plane", st=st, a=a, x=None, i=None, xtype="float")
    if exact:
        base = face(st, a, i)
        x = rng.choice([base + cq / 2, base, base + cq / 1024, base + cq - cq / 1024])
        if rng.random() < 0.08:
            x = face(st, a, k)
        if rng.random() < 0.06:
            x = face(st, a, 0) - cq / 8
    else:
        x = face(st, a, i) + float(cq) * rng.uniform(0.15, 0.85)
    return dict(kind="sel-plane", st=st, a=a, x=S(x), i=i, xtype=rng.choice(XTYPES))


def generate(rng, tier):
    """first the seed-independent directed core (identical in every run, tier and seed), then the
    seeded random streams"""
    cases = directed_core()
    if os.environ.get("VERIF_C14_CORE_ONLY"):
        return cases
    return cases + random_streams(rng, 14 if tier == "quick" else 200)


def random_streams(rng, nm):
    cases = []
    for k in range(nm * 5):
        cases.append(gen_aligned(rng, exact=(k % 2 == 0), ints=(k % 6 == 0)))
    for k in range(nm * 6):
        cases.append(gen_setter(rng, exact=(k % 2 == 0), ints=(k % 6 == 0)))
    for k in range(nm):
        cases.append(gen_overshoot(rng))
    # picometre cells: the absolute tolerance decides
    for k in range(nm):
        cases.append(gen_setter(rng, exact=False, scale=1e-12))
        cases.append(gen_aligned(rng, exact=False, scale=1e-12))
    # large coordinates: decisions drown in rounding, outcomes still have to be consistent
    for k in range(nm // 2):
        cases.append(gen_setter(rng, exact=False, scale=rng.choice([1e3, 1e6])))
        cases.append(gen_aligned(rng, exact=False, scale=rng.choice([1e3, 1e6])))
    for k in range(nm * 3):
        exact = k % 2 == 0
        st = gen_state(rng, exact, nsubs=rng.choice([1, 2, 2, 3]), ints=(k % 4 == 0))
        for _ in range(2):
            cases.append(dict(kind="transform", st=st, inplace=rng.random() < 0.4, **gen_op(rng, st, exact)))
        for _ in range(2):
            cases.append(gen_sel_range(rng, st, exact))
        cases.append(gen_sel_plane(rng, st, exact))
        names = [x[0] for x in st["subs"]]
        cases.append(dict(kind="named", st=st, name=rng.choice(names + ["nope"] if rng.random() < 0.2 else names)))
        r = rng.random()
        if r < 0.35:
            cases.append(dict(kind="persist-h5", st=st))
        elif r < 0.8:
            mode = rng.choice(["same", "same-prev", "shifted-half", "bigger", "other"])
            cases.append(dict(kind="persist-json", st=st, dst=gen_dst(rng, st, mode), mode=mode))
    for k in range(nm):
        st = gen_state(rng, True, nsubs=rng.choice([0, 1, 2]), ints=(k % 3 == 0))
        cases.append(dict(kind="malformed", st=st, what=rng.choice(["list", "int-key", "tuple-value", "none-value",
                                                                    "str-value", "mesh-value", "bad-second"])))
    # one-dimensional meshes with subregions scaled about 0 (a plain number is a valid reference point
    # there) and reference points full of zeros in every spelling, copying and in-place
    for k in range(nm * 2):
        exact = k % 4 != 3
        st = gen_state(rng, exact, nd=1 if k % 2 == 0 else rng.choice([2, 3]), nsubs=rng.choice([1, 2]),
                       ints=(k % 8 == 0))
        nd_ = len(st["n"])
        pool = [F(2), F(1, 2), F(3), F(-1), F(3, 2)] if exact else [2.0, 0.5, 3.0, -1.0, 1.5, 7.3]
        f = rng.choice(pool)
        ref = [S(0)] * nd_
        if nd_ > 1 and exact and rng.random() < 0.5:
            ref[rng.randrange(nd_)] = S(F(rng.randint(-16, 16), 2))
        cases.append(dict(kind="transform", st=st, inplace=(k // 2) % 2 == 0, op="scale", f=[S(f)] * nd_,
                          scalar=rng.random() < 0.7, ref=ref,
                          refspell=rng.choice(["scalar", "npscalar", "list", "array", "tuple"] if nd_ == 1
                                              else ["list", "tuple", "array", "array"])))
    # files: subregions survive Field.to_file / Field.from_file in every format, each file keeps its own
    exts = ["ovf", "omf", "ohf", "vtk", "h5", "hdf5"]
    for k in range(nm * 2):
        st = gen_state(rng, True, nd=3 if k % 6 < 4 or rng.random() < 0.5 else None, nsubs=rng.choice([1, 2, 3]),
                       ints=(k % 3 == 0))
        st["units"] = ["m"] * len(st["n"])          # OVF stores one unit for all directions
        cases.append(dict(kind="files", st=st, ext=exts[k % 6], rep=rng.choice(["bin8", "txt"])))
    for k in range(nm):
        st = gen_state(rng, True, nd=3, nsubs=rng.choice([1, 2]), ints=(k % 3 == 0))
        st["units"] = ["m"] * 3
        st2 = dict(st)
        st2["subs"], st2["sub_idx"] = [], {}
        for _ in range(rng.choice([0, 1, 2, 3])):
            add_sub(rng, st2)
        pair = rng.sample(["ovf", "omf", "ohf", "vtk", "h5"], 2)
        cases.append(dict(kind="file-siblings", st=st, st2=st2, exts=pair))
    # aliasing: a stored subregion must be the mesh's own object
    for k in range(nm * 3):
        st = gen_state(rng, True, nsubs=rng.choice([1, 2, 3]), ints=(k % 4 == 0))
        cases.append(gen_alias(rng, st, ["same-twice", "dict-reuse", "caller-mutates"][k % 3]))
    # copying step (whole turns, zero translation, unit scale, ordinary steps), then an in-place step on
    # the result: the original must not notice
    for k in range(nm * 2):
        st = gen_state(rng, True, nd=rng.choice([2, 3, 3]) if k % 3 else None, nsubs=rng.choice([1, 2]),
                       ints=(k % 4 == 0))
        cases.append(gen_chain(rng, st, identity=(k % 3 != 2)))
    return cases


def op_translate(v):
    return dict(op="translate", v=[S(x) for x in v])


def op_scale(f, nd, ref=None, scalar=True, refspell="list"):
    return dict(op="scale", f=[S(f)] * nd, scalar=scalar, ref=None if ref is None else [S(x) for x in ref],
                refspell=refspell)


def op_rot(a, b, k, ref=None, refspell="list"):
    return dict(op="rotate", a=a, b=b, k=k, ref=None if ref is None else [S(x) for x in ref], refspell=refspell)


def valid_step(rng, st):
    nd = len(st["n"])
    cq = cellq(st)
    kind = rng.choice(["translate", "scale", "rotate"] if nd > 1 else ["translate", "scale"])
    if kind == "translate":
        v = [rng.randint(-3, 3) * c_ for c_ in cq]
        if all(x == 0 for x in v):
            v[0] = cq[0]
        return op_translate(v)
    if kind == "scale":
        return op_scale(rng.choice([F(2), F(1, 2), F(3), F(-1), F(3, 2)]), nd)
    a = rng.randrange(nd)
    b = (a + 1 + rng.randrange(nd - 1)) % nd
    return op_rot(a, b, rng.choice([1, 2, 3, -1, 5]))


def gen_chain(rng, st, identity=True):
    nd = len(st["n"])
    if identity:
        opts = ["zero-translate", "unit-scale"] + (["whole-turn"] * 3 if nd > 1 else [])
        w = rng.choice(opts)
        if w == "whole-turn":
            a = rng.randrange(nd)
            b = (a + 1 + rng.randrange(nd - 1)) % nd
            op1 = op_rot(a, b, rng.choice([0, 4, 8, -4]))
        elif w == "zero-translate":
            op1 = op_translate([0] * nd)
        else:
            op1 = op_scale(F(1), nd)
    else:
        op1 = valid_step(rng, st)
    return dict(kind="chain", st=st, op1=op1, op2=valid_step(rng, st))


def hand_state(p1, p2, n, subs=None, exact=True, ints=False, mixed=False, dims=None, units=None, corners=None):
    """a hand-written state; subs: name -> per-axis [j1, j2] face indices (corners: name -> literal
    (pmin, pmax) overriding the computed faces)"""
    nd = len(n)
    st = dict(exact=exact, p1=[S(x) for x in p1], p2=[S(x) for x in p2], n=list(n),
              tf=S(F(1, 2 ** 36) if exact else DEFAULT_TF), dims=list(dims or ["x", "y", "z", "t"][:nd]),
              units=list(units or ["m"] * nd), subs=[], sub_idx={}, ints=ints, ctype="list", mixed=mixed)
    for name, box in (subs or {}).items():
        st["sub_idx"][name] = [list(b) for b in box]
        if corners and name in corners:
            lo_, hi_ = corners[name]
        else:
            lo_ = [face(st, a, b[0]) for a, b in enumerate(box)]
            hi_ = [face(st, a, b[1]) for a, b in enumerate(box)]
        st["subs"].append([name, [S(x) for x in lo_], [S(x) for x in hi_]])
    return st


def until(make, pred, limit=400):
    for _ in range(limit):
        c = make()
        if pred(c):
            return c
    return c


def directed_core():
    """seed-independent directed cases: one small group per mechanism a seeded change (rounds a-e,
    /verif/seeded/C14-*) or a finding went through.  Built by hand or from a FIXED generator, so the
    list is identical in every run, tier and seed."""
    r = random.Random(424242)
    cases = []
    cand = lambda name, lo, hi, cls: [name, [S(x) for x in lo], [S(x) for x in hi], S(DEFAULT_TF), cls]

    # a1 - a rejected assignment keeps the previous dictionary (valid entries before the offending one)
    for i in range(6):
        st = gen_state(r, True, nsubs=r.choice([1, 2]), ints=(i % 3 == 0))
        names = r.sample(NAMES, 3)
        classes = [["aligned", "shift-half"], ["aligned", "aligned", "oversized"], ["whole-region", "fractional"],
                   ["aligned", "tiny"], ["aligned", "shift-above-tol", "aligned"], ["aligned", "shift-quarter"]][i]
        cases.append(dict(kind="setter", st=st, via="setter",
                          cands=[gen_candidate(r, st, names[j], cl) for j, cl in enumerate(classes)]))
    # e2 - misaligned candidates just above the absolute tolerance, and far from the origin of a long chain
    for i in range(4):
        st = gen_state(r, True, nsubs=r.choice([0, 1]))
        cases.append(dict(kind="setter", st=st, via=["setter", "ctor"][i % 2] if not st["subs"] else "setter",
                          cands=[gen_candidate(r, st, "k9", "shift-above-tol")]))
    long1 = hand_state([0], [50000], [50000])
    cases.append(dict(kind="setter", st=long1, via="setter",
                      cands=[cand("far", [F(400004, 10)], [F(400104, 10)], "shift-far-0.4")]))
    cases.append(dict(kind="setter", st=long1, via="ctor",
                      cands=[cand("far", [F(49000) + F(1, 4)], [F(49020) + F(1, 4)], "shift-far-quarter")]))
    cases.append(dict(kind="setter", st=long1, via="setter",
                      cands=[cand("ok", [F(49000)], [F(49020)], "aligned")]))
    strip = hand_state([0, 0], [40000, 2], [40000, 2])
    cases.append(dict(kind="setter", st=strip, via="setter",
                      cands=[cand("far", [F(399004, 10), 0], [F(399104, 10), 2], "shift-far-0.4")]))
    # c2 - only the upper corner is off the lattice (candidates and second meshes)
    for i in range(4):
        cases.append(gen_overshoot(r))
    for i in range(4):
        cases.append(gen_aligned(r, True, cls="cell-slightly"))
    # a2 - integer-typed corners, half-integer lattice, range selections whose clipped face is fractional
    a2 = hand_state([0, 0], [4, 2], [8, 2], subs={"a": [[0, 6], [0, 2]], "Zz": [[6, 8], [0, 2]]}, ints=True)
    for x1, x2, i1, i2 in [(F(5, 4), F(9, 4), 2, 4), (F(7, 4), F(9, 4), 3, 4), (F(3, 4), F(13, 4), 1, 6),
                           (F(1, 4), F(5, 4), 0, 2)]:
        cases.append(dict(kind="sel-range", st=a2, a=0, x1=S(x1), x2=S(x2), i1=i1, i2=i2,
                          xtype=["float", "np64"], seq="tuple"))
    for i in range(6):
        st = until(lambda: gen_state(r, True, nsubs=2, ints=True),
                   lambda s_: not s_["mixed"] and any(c_.denominator == 2 for c_ in cellq(s_)))
        cases.append(gen_sel_range(r, st, True))
        cases.append(gen_sel_plane(r, st, True))
    # d3 - range selections that end exactly on a subregion face in non-representable coordinates
    for hi_, n_, j, x1, x2, i1, i2 in [(0.9, 3, 1, 0.45, 0.75, 1, 2), (0.7, 2, 1, 0.5, 0.6, 1, 1),
                                        (2.1, 3, 1, 1.05, 1.75, 1, 2), (0.7, 4, 3, 0.0875, 0.4375, 0, 2)]:
        cell_ = hi_ / n_
        st = hand_state([0.0], [hi_], [n_], subs={"a": [[0, j]], "b": [[j, n_]]}, exact=False)
        cases.append(dict(kind="sel-range", st=st, a=0, x1=S(x1), x2=S(x2), i1=i1, i2=i2,
                          xtype=["float", "float"], seq="tuple"))
    for i in range(10):
        st = gen_state(r, False, nsubs=2, scale=r.choice([1e-9, 1e-6, 1e-3, 1.0]))
        cases.append(until(lambda: gen_sel_range(r, st, False),
                           lambda c_: any(b[c_["a"]][1] == c_["i1"] or b[c_["a"]][0] == c_["i2"] + 1
                                          for b in st["sub_idx"].values()), limit=60))
    # b1 - mesh[name] where edges / cell is not exact in binary floating point
    b1a = hand_state([0.0], [1.0], [10], subs={"mid": [[3, 7]]}, exact=False, corners={"mid": ([0.3], [0.7])})
    b1b = hand_state([0.0, 0.0], [10e-9, 1e-9], [10, 1], subs={"mid": [[3, 7], [0, 1]]}, exact=False,
                     corners={"mid": ([3e-9, 0.0], [7e-9, 1e-9])})
    b1c = hand_state([0.0], [0.9], [9], subs={"a1": [[0, 3]], "_u": [[3, 9]]}, exact=False,
                     corners={"a1": ([0.0], [0.3]), "_u": ([0.3], [0.9])})
    for st in (b1a, b1b, b1c):
        for nm_ in st["sub_idx"]:
            cases.append(dict(kind="named", st=st, name=nm_))
    for i in range(4):
        st = gen_state(r, i % 2 == 0, nsubs=2)
        cases.append(dict(kind="named", st=st, name=st["subs"][i % 2][0]))
    # a3 / d2 - HDF5: names in non-alphabetical order; integer-typed mesh with half-integer subregion corners
    h5a = hand_state([0, 0, 0], [6, 2, 2], [12, 4, 4], ints=True, mixed=True,
                     subs={"zeta": [[1, 5], [0, 4], [0, 4]], "alpha": [[5, 12], [1, 3], [0, 2]], "Beta": [[0, 2], [0, 1], [3, 4]]})
    h5b = hand_state([F(-3, 2), 0], [F(5, 2), 3], [8, 3], subs={"omega": [[0, 3], [0, 3]], "b": [[3, 8], [1, 2]], "a1": [[2, 6], [0, 1]]},
                     dims=["a", "b"], units=["nm", "s"])
    for st in (h5a, h5b):
        cases.append(dict(kind="persist-h5", st=st))
    for st, ext in ((h5a, "h5"), (h5a, "hdf5"), (h5a, "omf"), (h5a, "vtk")):
        cases.append(dict(kind="files", st=st, ext=ext, rep="bin8"))
    for i in range(4):
        st = gen_state(r, True, nsubs=3, ints=True)
        st["mixed"] = True
        st["subs"], st["sub_idx"] = [], {}
        for _ in range(3):
            add_sub(r, st)
        cases.append(dict(kind="persist-h5", st=st))
    # b3 - the side-car reader goes through the setter: foreign / stale side-cars, targets with subregions,
    #      files of meshes with custom dimension names
    for i, mode in enumerate(["shifted-half", "other", "same-prev", "same", "shifted-half", "other", "same-prev", "bigger"]):
        st = gen_state(r, True, nsubs=r.choice([1, 2]), ints=(i == 3))
        cases.append(dict(kind="persist-json", st=st, dst=gen_dst(r, st, mode), mode=mode))
    f3 = hand_state([0, 0, 0], [4, 3, 2], [4, 3, 2], dims=["r", "s", "u"],
                    subs={"zeta": [[0, 2], [0, 3], [0, 2]], "alpha": [[2, 4], [1, 2], [0, 1]]})
    for ext, rep_ in (("omf", "bin8"), ("ovf", "txt"), ("ohf", "bin8"), ("vtk", "bin8"), ("vtk", "txt")):
        cases.append(dict(kind="files", st=f3, ext=ext, rep=rep_))
    # d1 - files of one stem with different extensions keep their own side-car
    f3b = dict(f3)
    f3b["subs"], f3b["sub_idx"] = [], {}
    f3b = hand_state([0, 0, 0], [4, 3, 2], [4, 3, 2], dims=["r", "s", "u"], subs={"k9": [[1, 3], [0, 1], [1, 2]]})
    f3c = hand_state([0, 0, 0], [4, 3, 2], [4, 3, 2], dims=["r", "s", "u"])
    for s1, s2, pair in ((f3, f3b, ["omf", "vtk"]), (f3b, f3, ["vtk", "omf"]), (f3, f3b, ["ovf", "ohf"]),
                         (f3, f3c, ["omf", "vtk"]), (f3c, f3, ["ohf", "omf"]), (f3, f3b, ["h5", "omf"])):
        cases.append(dict(kind="file-siblings", st=s1, st2=s2, exts=pair))
    # b2 - aliasing
    for i in range(9):
        st = gen_state(r, True, nsubs=r.choice([1, 2]), ints=(i % 4 == 0))
        c_ = gen_alias(r, st, ["same-twice", "dict-reuse", "caller-mutates"][i % 3])
        c_["carry"], c_["inplace"] = True, i % 2 == 0
        cases.append(c_)
    # c1 - scaling about reference points that are falsy / full of zeros, every spelling, both forms
    c1 = hand_state([F(1)], [F(9)], [8], subs={"a": [[1, 4]], "Zz": [[4, 8]]})
    c1i = hand_state([2], [10], [16], subs={"mid": [[2, 8]]}, ints=True)
    for st in (c1, c1i):
        for sp in ("scalar", "npscalar", "list", "array"):
            for ip in (False, True):
                cases.append(dict(kind="transform", st=st, inplace=ip, **op_scale(F(2), 1, ref=[0], refspell=sp)))
    c1m = hand_state([1, -2, 0], [5, 2, 3], [4, 4, 3], subs={"a": [[0, 2], [1, 4], [0, 3]]})
    for sp in ("list", "tuple", "array"):
        for ip in (False, True):
            cases.append(dict(kind="transform", st=c1m, inplace=ip,
                              **op_scale(F(3, 2), 3, ref=[0, 0, 0], scalar=False, refspell=sp)))
            cases.append(dict(kind="transform", st=c1m, inplace=ip,
                              **op_scale(F(1, 2), 3, ref=[0, F(1, 2), 0], refspell=sp)))
    # c3 / e1 - in-place quarter turns of a mesh with subregions: every count, cells that differ along the
    #           two rotated axes (the cell is read before the turn)
    e1 = hand_state([0, 0, 0], [4, 8, 3], [4, 4, 3], subs={"a": [[0, 2], [1, 3], [0, 3]], "Zz": [[2, 4], [0, 4], [1, 2]]},
                    units=["nm", "s", "A"])
    for k_ in (1, 2, 3, 6, -1, 5):
        for ip in (True, False):
            cases.append(dict(kind="transform", st=e1, inplace=ip, **op_rot(0, 1, k_)))
    for k_ in (1, 2, 3):
        cases.append(dict(kind="transform", st=e1, inplace=True, **op_rot(2, 0, k_, ref=[1, 0, F(1, 2)])))
    e1b = hand_state([F(-1), F(1, 2)], [F(2), F(5, 2)], [6, 2], subs={"k9": [[1, 4], [0, 1]]})
    for k_ in (1, 2, 3, 4):
        cases.append(dict(kind="transform", st=e1b, inplace=True, **op_rot(0, 1, k_)))
    # e3 - whole turns (and other steps that change nothing) in the copying form, then an in-place step on
    #      the result
    for k_ in (0, 4, 8, -4):
        for op2 in (op_translate([1, 2, 0]), op_scale(F(2), 3), op_rot(0, 2, 1)):
            cases.append(dict(kind="chain", st=e1, op1=op_rot(0, 1, k_), op2=op2))
    cases.append(dict(kind="chain", st=e1, op1=op_translate([0, 0, 0]), op2=op_translate([1, 0, 0])))
    cases.append(dict(kind="chain", st=e1, op1=op_scale(F(1), 3), op2=op_scale(F(1, 2), 3)))
    for i in range(4):
        st = gen_state(r, True, nd=r.choice([2, 3]), nsubs=2, ints=(i == 0))
        cases.append(gen_chain(r, st, identity=True))
    # known findings: the picometre half-cell shift (C14-abs-tolerance) and item assignment into the
    # dictionary handed out by the getter (C14-getter-dict-mutable)
    pm = hand_state([0.0], [10e-12], [10], exact=False)
    cases.append(dict(kind="aligned", st=pm, q1=[S(0.5e-12)], q2=[S(10.5e-12)], n2=[10], tol=S(ALIGN_TOL), cls="half"))
    cases.append(dict(kind="setter", st=pm, via="setter", cands=[cand("a", [0.5e-12], [3.5e-12], "shift-half")]))
    cases.append(dict(kind="getter-dict",
                      st=dict(exact=True, p1=[S(0), S(0)], p2=[S(10), S(10)], n=[10, 10], tf=S(DEFAULT_TF),
                              dims=["x", "y"], units=["m", "m"], subs=[], sub_idx={}, ints=False, ctype="list"),
                      name="x", bad=[[S(F(1, 2)), S(0)], [S(F(7, 2)), S(10)]]))
    return cases


def gen_alias(rng, st, mode):
    """aliasing streams: the same Region under two names / a subregion dict reused for a second mesh /
    the caller's Region mutated after the assignment; then an in-place or copying transformation"""
    nd = len(st["n"])
    cq = cellq(st)
    if rng.random() < 0.5:
        v = [S(rng.randint(-3, 3) * c_) for c_ in cq]
        if all(F(x) == 0 for x in v):
            v[0] = S(cq[0])
        op = dict(op="translate", v=v)
    else:
        f = rng.choice([F(2), F(1, 2), F(3), F(-1), F(3, 2)])
        ref = None if rng.random() < 0.5 else [S(rng.choice([F(0), F(rng.randint(-16, 16), 2)])) for _ in range(nd)]
        op = dict(op="scale", f=[S(f)] * nd, scalar=True, ref=ref,
                  refspell=rng.choice(["list", "tuple", "array"] + (["scalar", "npscalar"] if nd == 1 else [])))
    a = rng.randrange(nd)
    mut = [S(cq[b] / 2 if b == a else 0) for b in range(nd)]
    return dict(kind="alias", st=st, mode=mode, carry=rng.random() < 0.75, inplace=rng.random() < 0.6,
                mutate=rng.choice(["translate", "scale"]), mut_v=mut, **op)


def gen_dst(rng, st, mode):
    exact = st["exact"]
    d = dict(st)
    d["subs"], d["sub_idx"] = [], {}
    if mode == "same":
        return d
    if mode == "same-prev":
        add_sub(rng, d)
        return d
    lo, hi = bounds(st)
    cq = cellq(st)
    nd = len(st["n"])
    if mode == "shifted-half":
        a = rng.randrange(nd)
        sh = [cq[b] / 2 if b == a else 0 for b in range(nd)]
        if not exact:
            sh = [float(x) for x in sh]
            lo, hi = [float(x) for x in lo], [float(x) for x in hi]
        d["p1"] = [S(l + s_) for l, s_ in zip(lo, sh)]
        d["p2"] = [S(h + s_) for h, s_ in zip(hi, sh)]
        d["ints"] = bool(d.get("ints")) and all(F(x).denominator == 1 for x in d["p1"] + d["p2"])
        add_sub(rng, d)
        return d
    if mode == "bigger":
        ex = [rng.randint(0, 2) for _ in range(nd)]
        if exact:
            d["p1"] = [S(l - e * c) for l, e, c in zip(lo, ex, cq)]
            d["p2"] = [S(h + e * c) for h, e, c in zip(hi, ex, cq)]
            d["n"] = [k + 2 * e for k, e in zip(st["n"], ex)]
            d["ints"] = bool(d.get("ints")) and all(F(x).denominator == 1 for x in d["p1"] + d["p2"])
            return d
        return d
    other = gen_state(rng, exact, nd=nd, nsubs=1, ints=st.get("ints", False))
    return other


# ------------------------------------------------------------------ implementation
def build(st, with_subs=True):
    region = df.Region(p1=nums(st["p1"], st), p2=nums(st["p2"], st), dims=list(st["dims"]), units=list(st["units"]),
                       tolerance_factor=fl(st["tf"]))
    subs = {x[0]: df.Region(p1=nums(x[1], st), p2=nums(x[2], st)) for x in st["subs"]} if with_subs else {}
    return df.Mesh(region=region, n=list(st["n"]), subregions=subs)


def snap_subs(mesh):
    return [[name, js(r.pmin), js(r.pmax), list(r.dims), list(r.units)] for name, r in mesh.subregions.items()]


def snap_mesh(mesh):
    return dict(pmin=js(mesh.region.pmin), pmax=js(mesh.region.pmax), n=[int(x) for x in mesh.n],
                dims=list(mesh.region.dims), units=list(mesh.region.units), subs=snap_subs(mesh))


def name_map(subs):
    """name -> (pmin, pmax, dims, units) of a snapshot, corners as exact rationals"""
    return {x[0]: (Fs(x[1]), Fs(x[2]), list(x[3]), list(x[4])) for x in subs}


def sub_obs_coq(subs):
    return g.lst(f"({g.s(x[0])}, ({g.ql(x[1])}, {g.ql(x[2])}), ({g.sl(x[3])}, {g.sl(x[4])}))" for x in subs)


def obs_coq(o):
    if o is None:
        return "None"
    return (f"(Some (mkObs {g.ql(o['pmin'])} {g.ql(o['pmax'])} {g.zl(o['n'])} {g.sl(o['dims'])} "
            f"{g.sl(o['units'])} {sub_obs_coq(o['subs'])}))")


def st_coq(st, subs=None):
    subs = st["subs"] if subs is None else subs
    sl_ = g.lst(f"({g.s(x[0])}, ({g.ql(x[1])}, {g.ql(x[2])}))" for x in subs)
    return (f"(mkSt {g.ql(st['p1'])} {g.ql(st['p2'])} {g.zl(st['n'])} {g.q(st['tf'])} {g.sl(st['dims'])} "
            f"{g.sl(st['units'])} {sl_})")


def op_coq(c):
    ref = "None" if c.get("ref") is None else f"(Some {g.ql(c['ref'])})"
    if c["op"] == "translate":
        return f"(TTranslate {g.ql(c['v'])})"
    if c["op"] == "scale":
        return f"(TScale {g.ql(c['f'])} {ref})"
    return f"(TRot {g.nat(c['a'])} {g.nat(c['b'])} {g.z(c['k'])} {ref})"


# ---- the property as a predicate on implementation outputs (exact rational arithmetic) ----
def lattice_dist(d, c):
    """distance of d to the nearest multiple of c"""
    r = d - math.floor(d / c) * c
    return min(r, c - r)


def invariant_violations(mesh_obs, slack_rel=F(1, 100)):
    """clauses violated by the subregions a mesh holds: inside / whole cells / on the lattice (each up to
    1 % of a cell: far beyond every documented tolerance, far below any real misplacement) and
    dims / units of the mesh"""
    out = []
    lo, hi = Fs(mesh_obs["pmin"]), Fs(mesh_obs["pmax"])
    n = mesh_obs["n"]
    cq = [(h - l) / k for l, h, k in zip(lo, hi, n)]
    for name, smin, smax, sdims, sunits in mesh_obs["subs"]:
        smin, smax = Fs(smin), Fs(smax)
        if len(smin) != len(lo) or len(smax) != len(lo):
            out.append("held-subregion-wrong-ndim")
            continue
        if list(sdims) != list(mesh_obs["dims"]) or list(sunits) != list(mesh_obs["units"]):
            out.append("held-subregion-dims-units")
        for a in range(len(lo)):
            sl = cq[a] * slack_rel
            if smin[a] < lo[a] - sl or smax[a] > hi[a] + sl:
                out.append("held-subregion-outside")
            e = smax[a] - smin[a]
            if e < cq[a] - sl or lattice_dist(e, cq[a]) > sl:
                out.append("held-subregion-not-whole-cells")
            if lattice_dist(smin[a] - lo[a], cq[a]) > cq[a] / 10:
                out.append("held-subregion-off-lattice")
    return sorted(set(out))


def abs_tol_tags(cells):
    """the absolute alignment tolerance (1e-12) is at least a tenth of the smallest cell"""
    return [TAG_ABS] if any(F(c) <= 10 * ALIGN_TOL for c in cells) else []


def maxabs(st):
    lo, hi = bounds(st)
    return max(abs(x) for x in lo + hi)


def noise_small(st):
    return maxabs(st) * F(1, 2 ** 49) <= ALIGN_TOL / 4


def classify_candidate(st, p1, p2):
    """'good' / 'bad' / None (undecided) by exact rational arithmetic on the float values"""
    lo, hi = bounds(st)
    cq = cellq(st)
    if len(p1) != len(lo) or len(p2) != len(lo):
        return "bad"
    smin = [min(a, b) for a, b in zip(p1, p2)]
    smax = [max(a, b) for a, b in zip(p1, p2)]
    good = noise_small(st)
    bad = False
    for a in range(len(lo)):
        c = cq[a]
        e = smax[a] - smin[a]
        if smin[a] < lo[a] - c / 100 or smax[a] > hi[a] + c / 100:
            bad = True
        if e < c * F(99, 100) or lattice_dist(e, c) > min(cq) / 100 + c / 100:
            bad = True
        noise4 = 4 * ALIGN_TOL + 4 * maxabs(st) * F(1, 2 ** 49)
        if lattice_dist(smin[a] - lo[a], c) > noise4 or lattice_dist(hi[a] - smax[a], c) > noise4:
            # either corner off the lattice by clearly more than the documented tolerance 1e-12
            # (d > 4e-12 implies c >= 2d > 8e-12, so the remainder test of the code sees it)
            bad = True
        if lattice_dist(smin[a] - lo[a], c) > c / 10:
            # (an absolute tolerance cannot see this when the cell is within a factor 10 of it: that
            #  is the known finding C14-abs-tolerance; such cases carry its tag)
            bad = True
        if not (lo[a] <= smin[a] and smax[a] <= hi[a]):
            good = False
        if e < c or lattice_dist(e, c) > min(cq) / 10000:
            good = False
        if lattice_dist(smin[a] - lo[a], c) > ALIGN_TOL / 4 or lattice_dist(hi[a] - smax[a], c) > ALIGN_TOL / 4:
            good = False
    return "bad" if bad else ("good" if good else None)


def key_of(*parts):
    return "/".join(str(p) for p in parts)


def run_case(c):
    kind = c["kind"]
    rec = dict(kind=kind, case=c, oracle=[], tags=[], coq=None)
    st = c["st"]
    exact = st["exact"]
    nd = len(st["n"])
    size = nd + sum(st["n"]) + 3 * len(st["subs"])

    if kind == "aligned":
        m1 = build(st, with_subs=False)
        m2 = df.Mesh(p1=nums(c["q1"], st), p2=nums(c["q2"], st), n=list(c["n2"]))
        tol = F(c["tol"])
        st_, res = attempt(lambda: bool(m1.is_aligned(m2, float(tol)) if tol != ALIGN_TOL else m1.is_aligned(m2)))
        if st_ != "ok":
            rec["oracle"].append("is-aligned-raised")
            res = False
        lo, hi = bounds(st)
        lo2 = [min(F(a), F(b)) for a, b in zip(c["q1"], c["q2"])]
        hi2 = [max(F(a), F(b)) for a, b in zip(c["q1"], c["q2"])]
        c1 = cellq(st)
        c2 = [(h - l) / k for l, h, k in zip(lo2, hi2, c["n2"])]
        cells_equal = all(abs(x - y) <= abs(y) / 10 ** 9 for x, y in zip(c1, c2))
        # (with an explicitly passed tolerance, differences below 2*tolerance are the caller's choice)
        cells_differ = any(abs(x - y) > abs(y) / 10 and (tol == ALIGN_TOL or abs(x - y) > 2 * tol + abs(y) / 1000)
                           for x, y in zip(c1, c2))
        dmin = [lattice_dist(abs(a - b), cc) for a, b, cc in zip(lo, lo2, c1)]
        dmax = [lattice_dist(abs(a - b), cc) for a, b, cc in zip(hi, hi2, c1)]
        noise = max(abs(x) for x in lo + hi + lo2 + hi2) * F(1, 2 ** 49)
        if res and (cells_differ or any(d > cc / 10 and (tol == ALIGN_TOL or d > 2 * tol)
                                        for d, cc in zip(dmin + dmax, c1 + c1))):
            rec["oracle"].append("misaligned-reported-aligned")
        # both corner differences, exact rationals: clearly beyond the tolerance in use on either corner
        # (d > 4*tol implies cell >= 2d > 8*tol, so the remainder test sees it)
        if res and any(d > 4 * tol + 4 * noise for d in dmin + dmax):
            rec["oracle"].append("misaligned-reported-aligned")
        if (not res) and cells_equal and noise <= tol / 4 and all(d <= tol / 4 for d in dmin + dmax) \
                and all(abs(x - y) <= tol / 4 for x, y in zip(c1, c2)):
            rec["oracle"].append("aligned-reported-misaligned")
        # symmetry of the verdict when cells are equal
        rec["tags"] = abs_tol_tags(c1 + c2)
        rec.update(obs=dict(aligned=res),
                   coq=(f"CAligned {g.b(exact)} {g.ql(st['p1'])} {g.ql(st['p2'])} {g.zl(st['n'])} "
                        f"{g.ql(c['q1'])} {g.ql(c['q2'])} {g.zl(c['n2'])} {g.q(tol)} {g.b(res)}"),
                   key=key_of("aligned", exact, nd, c["cls"], res, "deftol" if tol == ALIGN_TOL else "tol",
                              math.floor(math.log10(float(min(c1))))), size=size)
        return rec

    if kind == "chain":
        return run_chain(c, rec, size)

    if kind in ("files", "file-siblings"):
        return run_files(c, rec, size)

    if kind == "getter-dict":
        mesh = build(st)
        bad = df.Region(p1=fls(c["bad"][0]), p2=fls(c["bad"][1]))
        st_set, _ = attempt(lambda: setattr(mesh, "subregions", {c["name"]: bad}))
        st_item, _ = attempt(lambda: mesh.subregions.__setitem__(c["name"], bad))
        mobs = snap_mesh(mesh)
        if st_set == "ok":
            rec["oracle"].append("bad-candidate-accepted")
        rec["oracle"] += invariant_violations(mobs)
        rec["tags"] = [TAG_GETTER]
        rec.update(obs=dict(status=st_item, setter=st_set, subs=mobs["subs"]),
                   key=key_of("getter-dict", st_set, st_item, len(mobs["subs"])), size=size)
        return rec

    if kind == "alias":
        return run_alias(c, rec, size)

    if kind == "malformed":
        mesh = build(st)
        before = snap_subs(mesh)
        what = c["what"]
        good = df.Region(p1=nums(st["p1"], st), p2=nums(st["p2"], st))
        value = {"list": [good], "int-key": {1: good}, "tuple-value": {"a": tuple(fls(st["p1"]))},
                 "none-value": {"a": None}, "str-value": {"a": "region"}, "mesh-value": {"a": mesh},
                 "bad-second": {"ok": good, "bad": 3.5}}[what]
        st_, _ = attempt(lambda: setattr(mesh, "subregions", value))
        after = snap_subs(mesh)
        if st_ == "ok":
            rec["oracle"].append("malformed-subregions-accepted")
        if st_ != "ok" and name_map(after) != name_map(before):
            rec["oracle"].append("rejected-assignment-changed-subregions")
        rec.update(obs=dict(status=st_, subs=after), key=key_of("malformed", what, st_), size=size)
        return rec

    if kind == "setter":
        cands = c["cands"]
        cand_dict = {x[0]: df.Region(p1=nums(x[1], st), p2=nums(x[2], st), tolerance_factor=fl(x[3])) for x in cands}
        if c["via"] == "ctor":
            region = df.Region(p1=nums(st["p1"], st), p2=nums(st["p2"], st), dims=list(st["dims"]),
                               units=list(st["units"]), tolerance_factor=fl(st["tf"]))
            st_, mesh = attempt(lambda: df.Mesh(region=region, n=list(st["n"]), subregions=cand_dict))
            before = []
            after = snap_subs(mesh) if st_ == "ok" else []
            mobs = snap_mesh(mesh) if st_ == "ok" else None
        else:
            st0, mesh = attempt(lambda: build(st))
            if st0 != "ok":
                # previous subregions refused: only possible when rounding reaches the absolute 1e-12 test
                if exact or noise_small(st):
                    rec["oracle"].append("valid-subregions-rejected")
                rec.update(obs=dict(err=mesh), key=key_of(kind, "state-rejected"), size=size)
                return rec
            before = snap_subs(mesh)
            st_, _ = attempt(lambda: setattr(mesh, "subregions", cand_dict))
            after = snap_subs(mesh)
            mobs = snap_mesh(mesh)
        acc = st_ == "ok"
        cq = cellq(st)
        rec["tags"] = abs_tol_tags(cq)
        if not acc and name_map(after) != name_map(before):
            rec["oracle"].append("rejected-assignment-changed-subregions")
        if acc:
            want = [[x[0], js([min(F(a), F(b)) for a, b in zip(x[1], x[2])]),
                     js([max(F(a), F(b)) for a, b in zip(x[1], x[2])]), list(st["dims"]), list(st["units"])]
                    for x in cands]
            got = [[s_[0], [S(F(v)) for v in s_[1]], [S(F(v)) for v in s_[2]], s_[3], s_[4]] for s_ in after]
            want = [[w[0], [S(F(v)) for v in w[1]], [S(F(v)) for v in w[2]], w[3], w[4]] for w in want]
            if {x[0]: x[1:] for x in got} != {x[0]: x[1:] for x in want} or len(got) != len(want):
                rec["oracle"].append("accepted-subregions-differ-from-candidates")
        if mobs is not None:
            rec["oracle"] += invariant_violations(mobs)
        classes = [classify_candidate(st, Fs(x[1]), Fs(x[2])) for x in cands]
        if acc and "bad" in classes:
            rec["oracle"].append("bad-candidate-accepted")
        if (not acc) and all(k == "good" for k in classes):
            rec["oracle"].append("good-candidates-rejected")
        rec["oracle"] = sorted(set(rec["oracle"]))
        cands_coq = g.lst(f"({g.s(x[0])}, ({g.ql(x[1])}, {g.ql(x[2])}), {g.q(x[3])})" for x in cands)
        rec.update(obs=dict(accepted=acc, subs=after),
                   coq=f"CSetter {g.b(exact)} {st_coq(st)} {cands_coq} {g.b(acc)} {sub_obs_coq(after)}",
                   key=key_of("setter", exact, nd, c["via"], acc, "+".join(sorted(x[4] for x in cands)),
                              len(st["subs"]), math.floor(math.log10(float(min(cq))))), size=size + 3 * len(cands))
        return rec

    # ---- cases that start from an accepted state ----
    st0, mesh = attempt(lambda: build(st))
    if st0 != "ok":
        if exact or noise_small(st):
            rec["oracle"].append("valid-subregions-rejected")
        rec.update(obs=dict(err=mesh), key=key_of(kind, "state-rejected"), size=size)
        return rec
    held = snap_subs(mesh)
    held_in = [[x[0], x[1], x[2]] for x in held]
    scoq = st_coq(st, held_in)
    cq = cellq(st)
    tags_abs = abs_tol_tags(cq)
    lo, hi = bounds(st)

    if kind == "transform":
        inplace = c["inplace"]
        ex = exact

        _ = attempt(lambda: mesh.cell)          # the cell is read before the step (a cached value would go stale)
        st_, res = attempt(lambda: apply_op(mesh, c, st, inplace))
        obs = snap_mesh(res) if st_ == "ok" else None
        if st_ == "ok":
            if inplace and res is not mesh:
                rec["oracle"].append("inplace-returned-other-object")
            if not inplace and (res.region is mesh.region or shares(res.region, mesh.region)):
                rec["oracle"].append("copy-shares-region-with-original")
            rec["oracle"] += invariant_violations(obs)
            rec["oracle"] += post_checks(res, exact)
            if sorted(x[0] for x in obs["subs"]) != sorted(x[0] for x in held):
                rec["oracle"].append("subregion-names-changed")
            # independent rational transformation of every box
            want = transform_boxes(st, c, held)
            if want is not None:
                sc = max([abs(F(v)) for v in obs["pmin"] + obs["pmax"]] + [F(1, 10 ** 300)])
                gotd = {x[0]: x for x in obs["subs"]}
                for nm, wmin, wmax in want:
                    got = gotd.get(nm)
                    if got is None:
                        continue
                    if any(abs(F(a) - b) > sc / 10 ** 9 for a, b in zip(got[1], wmin)) or \
                            any(abs(F(a) - b) > sc / 10 ** 9 for a, b in zip(got[2], wmax)):
                        rec["oracle"].append("subregion-not-transformed-with-mesh")
        else:
            after = snap_subs(mesh)
            if name_map(after) != name_map(held):
                rec["oracle"].append("failed-transformation-changed-subregions")
            # a valid operation on a valid mesh must go through (in the copying form the transformed
            # subregions are validated again: only claimed where rounding cannot reach the 1e-12 test)
            want = transform_boxes(st, c, held)
            if want is not None:
                big = max([abs(v) for _, a_, b_ in want for v in a_ + b_] + [maxabs(st)])
                small = min([abs(y - x) for _, a_, b_ in want for x, y in zip(a_, b_)] + cq)
                # (scale regime: claimed only where the moved corners still resolve the cells and rounding
                #  cannot reach the absolute 1e-12 test)
                if exact or (big * F(1, 2 ** 49) <= ALIGN_TOL / 4 and big * F(1, 2 ** 49) <= small / 10 ** 6):
                    rec["oracle"].append("valid-transformation-rejected")
        rec["tags"] = tags_abs
        rec["oracle"] = sorted(set(rec["oracle"]))
        rec.update(obs=dict(status=st_, mesh=obs),
                   coq=f"CTransform {g.b(ex)} {scoq} {g.b(inplace)} {op_coq(c)} {obs_coq(obs)}",
                   key=key_of("transform", exact, nd, c["op"], inplace, st_, len(held), c.get("k", 0) % 4,
                              c.get("ref") is None), size=size)
        return rec

    if kind == "sel-range":
        a = c["a"]
        name = st["dims"][a]
        xt = c.get("xtype", ["float", "float"])
        x1, x2 = typed(c["x1"], xt[0]), typed(c["x2"], xt[1])
        rng_ = {"tuple": (x1, x2), "list": [x1, x2], "array": np.array([float(x1), float(x2)])}[c.get("seq", "tuple")]
        st_, res = attempt(lambda: mesh.sel(**{name: rng_}))
        obs = snap_mesh(res) if st_ == "ok" else None
        # expected by cell indices
        xs = sorted([F(c["x1"]), F(c["x2"])])
        inside = lo[a] <= xs[0] and xs[1] <= hi[a]
        touching = False
        if inside:
            if exact:
                i1 = min(st["n"][a] - 1, math.floor((xs[0] - lo[a]) / cq[a]))
                i2 = min(st["n"][a] - 1, math.floor((xs[1] - lo[a]) / cq[a]))
            else:
                i1, i2 = c["i1"], c["i2"]
            want = []
            for nm, smin, smax in held_in:
                j1, j2 = st["sub_idx"][nm][a]
                if j2 == i1 or j1 == i2 + 1:
                    touching = True
                if max(j1, i1) < min(j2, i2 + 1):
                    want.append((nm, max(j1, i1), min(j2, i2 + 1)))
            if st_ != "ok":
                rec["oracle"].append("sel-range-subregions")
            else:
                rec["oracle"] += invariant_violations(obs)
                sc = max(abs(lo[a]), abs(hi[a]), hi[a] - lo[a])
                got = {x[0]: x for x in obs["subs"]}
                if sorted(x[0] for x in obs["subs"]) != sorted(w[0] for w in want):
                    rec["oracle"].append("sel-range-subregions")
                else:
                    for nm, k1, k2 in want:
                        w1, w2 = F(face(st, a, k1)), F(face(st, a, k2))
                        if abs(F(got[nm][1][a]) - w1) > sc / 10 ** 9 or abs(F(got[nm][2][a]) - w2) > sc / 10 ** 9:
                            rec["oracle"].append("sel-range-clipping")
                        j = st["sub_idx"][nm]
                        for b in range(nd):
                            if b != a and (F(got[nm][1][b]) != F(face(st, b, j[b][0])) or
                                           F(got[nm][2][b]) != F(face(st, b, j[b][1]))):
                                rec["oracle"].append("sel-range-other-axes-changed")
                if abs(F(obs["pmin"][a]) - F(face(st, a, i1))) > sc / 10 ** 9 or \
                        abs(F(obs["pmax"][a]) - F(face(st, a, i2 + 1))) > sc / 10 ** 9 or obs["n"][a] != i2 + 1 - i1:
                    rec["oracle"].append("sel-range-region")
        elif st_ == "ok":
            rec["oracle"].append("outside-selection-accepted")
        rec["tags"] = tags_abs
        rec["oracle"] = sorted(set(rec["oracle"]))
        rec.update(obs=dict(status=st_, mesh=obs),
                   coq=f"CSelRange {g.b(exact)} {scoq} {g.nat(a)} {g.q(c['x1'])} {g.q(c['x2'])} {obs_coq(obs)}",
                   key=key_of("sel-range", exact, nd, st_, touching, len(held),
                              0 if obs is None else len(obs["subs"])), size=size)
        return rec

    if kind == "sel-plane":
        a = c["a"]
        name = st["dims"][a]
        if c["x"] is None:
            st_, res = attempt(lambda: mesh.sel(name))
            xq = (lo[a] + hi[a]) / 2
        else:
            xf = typed(c["x"], c.get("xtype", "float"))
            st_, res = attempt(lambda: mesh.sel(**{name: xf}))
            xq = F(c["x"])
        obs = snap_mesh(res) if st_ == "ok" else None
        inside = lo[a] <= xq <= hi[a]
        if st_ == "ok":
            rec["oracle"] += invariant_violations(obs)
            if not inside:
                rec["oracle"].append("outside-selection-accepted")
            if exact or c["i"] is not None:
                i = min(st["n"][a] - 1, math.floor((xq - lo[a]) / cq[a])) if exact else c["i"]
                want = [nm for nm, _, _ in held_in if st["sub_idx"][nm][a][0] <= i < st["sub_idx"][nm][a][1]]
                if sorted(x[0] for x in obs["subs"]) != sorted(want):
                    rec["oracle"].append("sel-plane-subregions")
                else:
                    for x in obs["subs"]:
                        j = st["sub_idx"][x[0]]
                        wmin = [F(face(st, b, j[b][0])) for b in range(nd) if b != a]
                        wmax = [F(face(st, b, j[b][1])) for b in range(nd) if b != a]
                        if Fs(x[1]) != wmin or Fs(x[2]) != wmax:
                            rec["oracle"].append("sel-plane-subregion-corners")
            if obs["dims"] != [d for b, d in enumerate(st["dims"]) if b != a]:
                rec["oracle"].append("sel-plane-dims")
        elif inside and nd > 1:
            rec["oracle"].append("sel-plane-rejected")
        rec["tags"] = tags_abs
        rec["oracle"] = sorted(set(rec["oracle"]))
        rec.update(obs=dict(status=st_, mesh=obs),
                   coq=(f"CSelPlane {g.b(exact)} {scoq} {g.nat(a)} "
                        f"{'None' if c['x'] is None else '(Some ' + g.q(c['x']) + ')'} {obs_coq(obs)}"),
                   key=key_of("sel-plane", exact, nd, st_, c["x"] is None, len(held),
                              0 if obs is None else len(obs["subs"])), size=size)
        return rec

    if kind == "named":
        st_, res = attempt(lambda: mesh[c["name"]])
        obs = snap_mesh(res) if st_ == "ok" else None
        known = c["name"] in [x[0] for x in held]
        if st_ == "ok":
            if not known:
                rec["oracle"].append("unknown-name-accepted")
            else:
                h = [x for x in held if x[0] == c["name"]][0]
                if Fs(obs["pmin"]) != Fs(h[1]) or Fs(obs["pmax"]) != Fs(h[2]):
                    rec["oracle"].append("named-extraction-region")
                if obs["dims"] != list(st["dims"]) or obs["units"] != list(st["units"]):
                    rec["oracle"].append("named-extraction-dims-units")
                j = st["sub_idx"][c["name"]]
                if obs["n"] != [b[1] - b[0] for b in j]:
                    rec["oracle"].append("named-extraction-n")
                rc = [(F(h_) - F(l_)) / k for l_, h_, k in zip(obs["pmin"], obs["pmax"], obs["n"])]
                if any(abs(x - y) > y / 10 ** 9 for x, y in zip(rc, cq)):
                    rec["oracle"].append("named-extraction-cell")
        elif known:
            rec["oracle"].append("named-extraction-rejected")
        rec["tags"] = tags_abs
        rec.update(obs=dict(status=st_, mesh=obs),
                   coq=f"CNamed {g.b(exact)} {scoq} {g.s(c['name'])} {obs_coq(obs)}",
                   key=key_of("named", exact, nd, st_, len(held), tuple(obs["n"]) if obs else None), size=size)
        return rec

    if kind == "persist-h5":
        with tempfile.TemporaryDirectory() as tmp:
            fn = os.path.join(tmp, "f.h5")
            field = df.Field(mesh, nvdim=1, value=1.0)

            def rt():
                field.to_file(fn)
                return df.Field.from_file(fn).mesh
            st_, res = attempt(rt)
        obs = snap_mesh(res) if st_ == "ok" else None
        if st_ != "ok":
            rec["oracle"].append("hdf5-roundtrip-failed")
        else:
            if name_map(obs["subs"]) != name_map(held) or len(obs["subs"]) != len(held):
                rec["oracle"].append("hdf5-subregions-changed")
            rec["oracle"] += invariant_violations(obs)
        rec["tags"] = tags_abs
        rec["oracle"] = sorted(set(rec["oracle"]))
        rec.update(obs=dict(status=st_, mesh=obs), coq=f"CPersistH5 {g.b(exact)} {scoq} {obs_coq(obs)}",
                   key=key_of("persist-h5", exact, nd, st_, len(held)), size=size)
        return rec

    if kind == "persist-json":
        dst = c["dst"]
        st1, mesh2 = attempt(lambda: build(dst))
        if st1 != "ok":
            if exact or noise_small(dst):
                rec["oracle"].append("valid-subregions-rejected")
            rec.update(obs=dict(err=mesh2), key=key_of(kind, "state-rejected"), size=size)
            return rec
        before = snap_subs(mesh2)
        with tempfile.TemporaryDirectory() as tmp:
            fn = os.path.join(tmp, "field.ovf")
            mesh.save_subregions(fn)
            st_, _ = attempt(lambda: mesh2.load_subregions(fn))
        after = snap_subs(mesh2)
        acc = st_ == "ok"
        if not acc and name_map(after) != name_map(before):
            rec["oracle"].append("rejected-assignment-changed-subregions")
        if c["mode"] in ("same", "same-prev"):
            if not acc:
                rec["oracle"].append("json-reload-rejected")
            elif name_map(after) != name_map(held) or len(after) != len(held):
                rec["oracle"].append("json-subregions-changed")
        rec["oracle"] += invariant_violations(snap_mesh(mesh2))
        rec["tags"] = sorted(set(tags_abs + abs_tol_tags(cellq(dst))))
        rec["oracle"] = sorted(set(rec["oracle"]))
        dcoq = st_coq(dst, [[x[0], x[1], x[2]] for x in before])
        rec.update(obs=dict(accepted=acc, subs=after),
                   coq=f"CPersistJson {g.b(exact)} {scoq} {dcoq} {g.b(acc)} {sub_obs_coq(after)}",
                   key=key_of("persist-json", exact, nd, c["mode"], acc, len(held), len(before)), size=size)
        return rec
    raise ValueError(kind)


def run_files(c, rec, size):
    """subregions through Field.to_file / Field.from_file (side-car for OVF and VTK, inside the file for
    HDF5): the reloaded ordered name -> box map must be exactly the one written; files of one stem with
    different extensions each keep their own subregions, whatever the order of writing"""
    oracle = []
    jobs = [(c["st"], c["ext"])] if c["kind"] == "files" else [(c["st"], c["exts"][0]), (c["st2"], c["exts"][1])]
    obs = []
    with tempfile.TemporaryDirectory() as tmp:
        written = []
        for st, ext in jobs:
            st0, mesh = attempt(lambda: build(st))
            if st0 != "ok":
                oracle.append("valid-subregions-rejected")
                continue
            fn = os.path.join(tmp, "state." + ext)
            field = df.Field(mesh, nvdim=3, value=(1.0, 0.0, -2.0))
            kw = {} if ext in ("h5", "hdf5") else dict(representation=("bin" if c.get("rep") == "bin8" else "txt")
                                                        if ext == "vtk" else c.get("rep", "bin8"))
            st1, err = attempt(lambda: field.to_file(fn, **kw))
            if st1 != "ok":
                oracle.append("file-write-failed")
                obs.append(dict(ext=ext, status=err))
                continue
            written.append((fn, ext, snap_subs(mesh)))
        for fn, ext, held in written:
            st2_, back = attempt(lambda: df.Field.from_file(fn).mesh)
            if st2_ != "ok":
                oracle.append("file-reload-failed")
                obs.append(dict(ext=ext, status=back))
                continue
            mo = snap_mesh(back)
            obs.append(dict(ext=ext, status="ok", subs=mo["subs"]))
            got = [(x[0], Fs(x[1]), Fs(x[2])) for x in mo["subs"]]
            want = [(x[0], Fs(x[1]), Fs(x[2])) for x in held]
            if got != want:
                oracle.append("file-subregions-changed" if dict((g_[0], g_[1:]) for g_ in got) !=
                              dict((w[0], w[1:]) for w in want) else "file-subregions-reordered")
            oracle += invariant_violations(mo)
    rec["oracle"] = sorted(set(oracle))
    nd = len(c["st"]["n"])
    rec.update(obs=dict(files=obs), key=key_of(c["kind"], c.get("ext") or "+".join(c["exts"]), nd, c["st"].get("ints"),
                                               c["st"].get("mixed"), len(c["st"]["subs"]),
                                               len(c.get("st2", {}).get("subs", []))), size=size)
    return rec


def apply_op(mesh, c, st, inplace):
    ref = spell_ref(c, st)
    if c["op"] == "translate":
        return mesh.translate(nums(c["v"], st), inplace=inplace)
    if c["op"] == "scale":
        f = nums(c["f"], st)
        return mesh.scale(f[0] if c["scalar"] else f, reference_point=ref, inplace=inplace)
    names = list(st["dims"]) + ["nope"]
    return mesh.rotate90(names[c["a"]], names[c["b"]], k=c["k"], reference_point=ref, inplace=inplace)


def post_checks(mesh, exact):
    """what a mesh must still do with the subregions it holds: its cell is edges / n, it accepts its own
    subregions again, mesh[name] is the subregion with the parent's cell and is aligned with the parent.
    Only claimed where rounding cannot reach the absolute 1e-12 test."""
    out = []
    mo = snap_mesh(mesh)
    lo, hi = Fs(mo["pmin"]), Fs(mo["pmax"])
    cq = [(h - l) / k for l, h, k in zip(lo, hi, mo["n"])]
    st_c, cell = attempt(lambda: [F(float(x)) for x in mesh.cell])
    if st_c != "ok" or len(cell) != len(cq) or any(abs(x - y) > y / 10 ** 9 for x, y in zip(cell, cq)):
        out.append("cell-is-not-edges-over-n")
    # (scale regime: the corners must also resolve the cell - a picometre mesh moved to coordinates of
    #  order 10 has corners spaced by ulp(10), far coarser than 1e-9 of its cell)
    noise = max(abs(x) for x in lo + hi) * F(1, 2 ** 49)
    quiet = exact or (noise <= ALIGN_TOL / 4 and noise <= min(cq) / 10 ** 9)
    if not quiet:
        return out
    for name, smin, smax, _, _ in mo["subs"]:
        st_n, sub = attempt(lambda: mesh[name])
        if st_n != "ok":
            out.append("named-extraction-rejected")
            continue
        so = snap_mesh(sub)
        if Fs(so["pmin"]) != Fs(smin) or Fs(so["pmax"]) != Fs(smax):
            out.append("named-extraction-region")
        sc = [(F(h) - F(l)) / k for l, h, k in zip(so["pmin"], so["pmax"], so["n"])]
        if any(abs(x - y) > y / 10 ** 9 for x, y in zip(sc, cq)):
            out.append("named-extraction-cell")
        st_a, al = attempt(lambda: bool(mesh.is_aligned(sub)))
        if st_a != "ok" or not al:
            out.append("named-extraction-not-aligned")
    st_s, _ = attempt(lambda: setattr(mesh, "subregions", dict(mesh.subregions)))
    if st_s != "ok":
        out.append("mesh-refuses-its-own-subregions")
    elif name_map(snap_subs(mesh)) != name_map(mo["subs"]):
        out.append("reassigning-own-subregions-changed-them")
    return out


def run_chain(c, rec, size):
    """copying step, then an in-place step on the RESULT; the ORIGINAL must not notice"""
    st = c["st"]
    oracle = []
    mesh = build(st)
    before = snap_mesh(mesh)
    st1, res = attempt(lambda: apply_op(mesh, c["op1"], st, False))
    if st1 != "ok":
        oracle.append("valid-transformation-rejected")
        rec["oracle"] = oracle
        rec.update(obs=dict(status=res), key=key_of("chain", "rejected"), size=size)
        return rec
    if res is mesh or res.region is mesh.region or shares(res.region, mesh.region):
        oracle.append("copy-shares-region-with-original")
    if any(shares(res.subregions[x], mesh.subregions[x]) for x in mesh.subregions if x in res.subregions):
        oracle.append("stored-subregion-is-not-the-meshs-own")
    st2, _ = attempt(lambda: apply_op(res, c["op2"], st, True))
    after = snap_mesh(mesh)
    if (Fs(after["pmin"]), Fs(after["pmax"]), after["n"], name_map(after["subs"])) != \
            (Fs(before["pmin"]), Fs(before["pmax"]), before["n"], name_map(before["subs"])):
        oracle.append("original-changed-through-its-copy")
    oracle += invariant_violations(after)
    oracle += post_checks(mesh, True)
    if st2 == "ok":
        oracle += invariant_violations(snap_mesh(res))
    rec["oracle"] = sorted(set(oracle))
    rec.update(obs=dict(status=st2, original=after), key=key_of("chain", c["op1"]["op"], c["op1"].get("k"),
                                                                c["op2"]["op"], len(st["n"]), st2), size=size)
    return rec


def shares(r1, r2):
    return bool(r1 is r2 or np.shares_memory(r1.pmin, r2.pmin) or np.shares_memory(r1.pmax, r2.pmax)
                or np.shares_memory(r1.pmin, r2.pmax) or np.shares_memory(r1.pmax, r2.pmin))


def run_alias(c, rec, size):
    st = c["st"]
    nd = len(st["n"])
    mode = c["mode"]
    kw = dict(dims=list(st["dims"]), units=list(st["units"]), tolerance_factor=fl(st["tf"])) if c["carry"] else {}
    oracle = []

    def caller_region(x):
        return df.Region(p1=nums(x[1], st), p2=nums(x[2], st), **kw)

    def transform(mesh):
        ref = spell_ref(c, st)
        if c["op"] == "translate":
            return mesh.translate(nums(c["v"], st), inplace=c["inplace"])
        return mesh.scale(nums(c["f"], st)[0], reference_point=ref, inplace=c["inplace"])

    def check_mesh(mesh_obs, want, label):
        out = [f"{x}" for x in invariant_violations(mesh_obs)]
        got = name_map(mesh_obs["subs"])
        if sorted(got) != sorted(w[0] for w in want):
            out.append("subregion-names-changed")
        for nm, wmin, wmax in want:
            if nm in got and (got[nm][0] != wmin or got[nm][1] != wmax):
                out.append("subregion-not-transformed-with-mesh" if label == "transformed"
                           else "other-holder-subregions-changed")
        return out

    others = []          # (mesh, snapshot) pairs that must stay as they are
    if mode == "same-twice":
        mesh = build(st, with_subs=False)
        r = caller_region(st["subs"][0])
        callers = {"n1": r, "n2": r}
        st_, _ = attempt(lambda: setattr(mesh, "subregions", callers))
        if st_ != "ok":
            oracle.append("valid-subregions-rejected")
    elif mode == "dict-reuse":
        mesh = build(st)
        callers = {}
        region2 = df.Region(p1=nums(st["p1"], st), p2=nums(st["p2"], st), dims=list(st["dims"]),
                            units=list(st["units"]), tolerance_factor=fl(st["tf"]))
        st_, mesh2 = attempt(lambda: df.Mesh(region=region2, n=list(st["n"]), subregions=mesh.subregions))
        if st_ != "ok":
            oracle.append("valid-subregions-rejected")
        else:
            others.append((mesh2, snap_mesh(mesh2)))
            for nm in mesh.subregions:
                if shares(mesh.subregions[nm], mesh2.subregions[nm]):
                    oracle.append("stored-subregion-is-not-the-meshs-own")
    else:
        mesh = build(st, with_subs=False)
        callers = {x[0]: caller_region(x) for x in st["subs"]}
        st_, _ = attempt(lambda: setattr(mesh, "subregions", callers))
        if st_ != "ok":
            oracle.append("valid-subregions-rejected")
    for nm, r in callers.items():
        if nm in mesh.subregions and shares(mesh.subregions[nm], r):
            oracle.append("stored-subregion-is-not-the-meshs-own")
    names = list(mesh.subregions)
    if any(shares(mesh.subregions[x], mesh.subregions[y]) for i, x in enumerate(names) for y in names[i + 1:]):
        oracle.append("stored-subregion-is-not-the-meshs-own")
    held = snap_subs(mesh)
    if mode == "caller-mutates":
        # the caller goes on using (and changing) their own Region objects
        for r in callers.values():
            if c["mutate"] == "translate":
                attempt(lambda: r.translate(nums(c["mut_v"], st), inplace=True))
            else:
                attempt(lambda: r.scale(0.5, inplace=True))
        if name_map(snap_subs(mesh)) != name_map(held):
            oracle.append("caller-mutation-changed-held-subregions")
        oracle += invariant_violations(snap_mesh(mesh))
    st_t, res = attempt(lambda: transform(mesh))
    want = transform_boxes(st, c, held)
    if st_t != "ok":
        oracle.append("valid-transformation-rejected")
        obs = None
    else:
        obs = snap_mesh(res)
        oracle += check_mesh(obs, want, "transformed")
        if not c["inplace"]:
            # the copying form leaves the original as it was
            oracle += check_mesh(snap_mesh(mesh), [(x[0], Fs(x[1]), Fs(x[2])) for x in held], "original")
    for m2, before in others:
        oracle += check_mesh(snap_mesh(m2), [(x[0], Fs(x[1]), Fs(x[2])) for x in before["subs"]], "other")
    rec["oracle"] = sorted(set(oracle))
    rec.update(obs=dict(status=st_t, mesh=obs), key=key_of("alias", mode, c["carry"], c["inplace"], c["op"], nd,
                                                           len(held), st_t), size=size)
    return rec


def transform_boxes(st, c, held):
    """the boxes an exact transformation of the mesh must produce (None: operation invalid)"""
    lo, hi = bounds(st)
    nd = len(lo)
    centre = [(l + h) / 2 for l, h in zip(lo, hi)]
    ref = centre if c.get("ref") is None else Fs(c["ref"])
    out = []
    for nm, smin, smax, _, _ in held:
        smin, smax = Fs(smin), Fs(smax)
        if c["op"] == "translate":
            v = Fs(c["v"])
            if len(v) != nd:
                return None
            a_, b_ = [x + y for x, y in zip(smin, v)], [x + y for x, y in zip(smax, v)]
        elif c["op"] == "scale":
            f = Fs(c["f"])
            if any(k == 0 for k in f) or len(ref) != nd:
                return None
            a_ = [r - (r - x) * k for r, x, k in zip(ref, smin, f)]
            b_ = [r - (r - x) * k for r, x, k in zip(ref, smax, f)]
        else:
            a, b, k = c["a"], c["b"], c["k"] % 4
            if a == b or a >= nd or b >= nd:
                return None
            cs, sn = [(1, 0), (0, 1), (-1, 0), (0, -1)][k]

            def rot(p):
                p = list(p)
                xa, xb = p[a] - ref[a], p[b] - ref[b]
                p[a] = ref[a] + cs * xa - sn * xb
                p[b] = ref[b] + sn * xa + cs * xb
                return p
            a_, b_ = rot(smin), rot(smax)
        out.append((nm, [min(x, y) for x, y in zip(a_, b_)], [max(x, y) for x, y in zip(a_, b_)]))
    return out


def stats(records):
    out = {}
    for r in records:
        obs = r.get("obs", {})
        status = obs.get("status")
        if status is None:
            if "accepted" in obs:
                status = "ok" if obs["accepted"] else "err"
            elif "aligned" in obs:
                status = "aligned" if obs["aligned"] else "not-aligned"
            else:
                status = "n/a"
        regime = "exact" if r["case"]["st"]["exact"] else "scale"
        k = f'{r["kind"]}/{regime}/{status}'
        out[k] = out.get(k, 0) + 1
        for t in r.get("tags", []):
            if r.get("oracle"):
                out["flagged:" + t] = out.get("flagged:" + t, 0) + 1
    return out
