"""C15 — norm getter/setter, orientation, constructor order, update after a norm:
generators, implementation runner, Gallina encoding, property oracle."""
import functools
import math
import os
import random
import time
from fractions import Fraction as F

import numpy as np

from harness import gallina as g
from harness.util import import_df, js, attempt, relayout, LAYOUTS

df = import_df()

ATOL = F(1e-8)           # numpy.isclose default atol, exact value of the binary64 number
LEN_MIN, LEN_MAX = F(1, 10 ** 6), F(10) ** 150
UNITS = [None, "A/m", "T", "J/m^3"]


def S(x):
    return g.qs(x)


def fl(x):
    return float(F(x))


# ------------------------------------------------------------------ vectors
def pyth(rng, k, big=6):
    """integer vector with k components whose Euclidean length is an integer
    (stereographic parametrisation: (2 s u, |u|^2 - s^2) has length |u|^2 + s^2)"""
    if k == 1:
        return [rng.choice([-1, 1]) * rng.randint(1, 40)]
    while True:
        u = [rng.randint(-big, big) for _ in range(k - 1)]
        s = rng.randint(0, big)
        v = [2 * s * x for x in u] + [sum(x * x for x in u) - s * s]
        if any(v):
            break
    rng.shuffle(v)
    if rng.random() < 0.5:
        v = [-x for x in v]
    return v


EXPS = [-19, -19, -12, -3, -1, 0, 0, 0, 1, 2, 7, 30, 60, -8, 3, 5]
BIG_EXPS = [100, 300, 480, 490]
TVALS = [F(0), F(1), F(1), F(2), F(1, 2), F(5), F(3, 4), F(7, 8), F(10), F(800000), F(3) * 2 ** 40,
         F(1, 2 ** 19), F(2) ** 490, F(3, 2 ** 19), F(12), F(1, 4)]


def gen_cell(rng, k, mode):
    """one cell vector as a list of Fractions"""
    r = rng.random()
    if r < 0.18:
        return [F(0)] * k
    v = pyth(rng, k)
    if mode == "sub" and rng.random() < 0.6:
        # lengths around the orientation threshold 1e-8 (1e-9 .. 1e-7)
        e = rng.randint(-37, -24)
    elif mode == "thr" and rng.random() < 0.6:
        # axis-aligned, length exactly at / next to the binary64 number 1e-8
        x = 1e-8
        c = rng.choice(["at", "up", "down", "up20", "down20"])
        if c == "up":
            x = float(np.nextafter(x, 1))
        elif c == "down":
            x = float(np.nextafter(x, 0))
        elif c == "up20":
            x = x * (1 + 2.0 ** -20)
        elif c == "down20":
            x = x * (1 - 2.0 ** -20)
        out = [F(0)] * k
        out[rng.randrange(k)] = F(x) * rng.choice([-1, 1])
        return out
    else:
        r2 = rng.random()
        e = rng.choice(EXPS) if r2 < 0.8 else (rng.choice(BIG_EXPS) if r2 < 0.9 else rng.randint(-19, 490))
    return [F(x) * F(2) ** e for x in v]


def gen_cells(rng, ncell, k, mode="std"):
    if mode == "uniform":
        c = gen_cell(rng, k, "std")
        return [list(c) for _ in range(ncell)]
    if mode == "allzero":
        return [[F(0)] * k for _ in range(ncell)]
    return [gen_cell(rng, k, mode) for _ in range(ncell)]


def gen_mesh(rng, tier):
    nd = rng.choice([1, 1, 2, 2, 3, 3, 3, 4])
    cap = 12 if tier == "quick" else 24
    while True:
        n = [rng.randint(1, 4 if nd < 4 else 2) for _ in range(nd)]
        if math.prod(n) <= cap:
            break
    p1, p2 = [], []
    for k in n:
        cell = F(rng.choice([1, 3, 5]), 2 ** rng.randint(0, 3))
        lo = F(rng.randint(-64, 64), 4)
        hi = lo + k * cell
        if rng.random() < 0.3:
            lo, hi = hi, lo
        p1.append(lo)
        p2.append(hi)
    return [S(x) for x in p1], [S(x) for x in p2], n


def gen_spec(rng, n, allow_bad=False):
    ncell = math.prod(n)
    r = rng.random()
    if allow_bad and r < 0.5:
        m = rng.choice([ncell + 1, ncell + 2, 2 * ncell + 1])
        return dict(kind="arr", ts=[S(rng.choice(TVALS)) for _ in range(m)], form="flat_bad")
    if r < 0.3:
        return dict(kind="const", t=S(rng.choice(TVALS)), form=rng.choice(["float", "float", "int_if_possible", "npfloat"]))
    if r < 0.6:
        ts = [rng.choice(TVALS) if rng.random() < 0.8 else F(rng.randint(0, 64), 8) for _ in range(ncell)]
        if rng.random() < 0.5:
            ts[rng.randrange(ncell)] = F(0)
        return dict(kind="arr", ts=[S(t) for t in ts], form=rng.choice(["n", "n1", "list_n", "n1"]),
                    layout=rng.choice(LAYOUTS))
    if r < 0.72:
        return dict(kind="field", variant=rng.choice(["same", "larger", "larger", "coarser", "finer"]), todo=True)
    forms = dict(cform=rng.choice(CFORMS), ret=rng.choice(RETS))
    if r < 0.76:
        return dict(kind="sumsq", c0=S(rng.choice([F(0), F(0), F(1), F(3, 4), F(10)])), **forms)
    if r < 0.88:
        cs = [F(rng.randint(-8, 8), 4) for _ in n]
        c0 = F(rng.randint(-16, 48), 4)
        return dict(kind="affine", c0=S(c0), cs=[S(c) for c in cs], shift=True, **forms)
    ax = rng.randrange(len(n))
    return dict(kind="step", ax=ax, x0=None, lo=S(rng.choice([F(0), F(0), F(1), F(3, 2)])),
                hi=S(rng.choice([F(0), F(2), F(5), F(1, 2 ** 19)])), **forms)


def fix_field(spec, p1, p2, n, rng):
    """a one-component Field used as norm specification: same mesh / same n on a larger containing
    region / coarser / finer mesh.  No centre of a target cell lies on a face of a spec cell (the
    sampled value is then the value of the containing spec cell, whichever way the code samples)."""
    lo = [min(F(a), F(b)) for a, b in zip(p1, p2)]
    hi = [max(F(a), F(b)) for a, b in zip(p1, p2)]
    cw = [(h - l) / m for l, h, m in zip(lo, hi, n)]
    variant = spec["variant"]
    slo, shi, ns = list(lo), list(hi), list(n)
    if variant == "larger":
        for _ in range(30):
            slo = [l - rng.choice([0, 0, 1, 2, 3, 5]) * c / 2 for l, c in zip(lo, cw)]
            shi = [h + rng.choice([0, 0, 1, 2, 3, 5]) * c / 2 for h, c in zip(hi, cw)]
            scw = [(h - l) / m for l, h, m in zip(slo, shi, n)]
            ties = any(((l + (j + F(1, 2)) * c - sl) / sc).denominator == 1
                       for l, c, sl, sc, m in zip(lo, cw, slo, scw, n) for j in range(m))
            if not ties and (slo != lo or shi != hi):
                break
        else:
            slo, shi, variant = list(lo), list(hi), "same"
    elif variant == "coarser":
        ns = [m // 2 if m % 2 == 0 else (m // 3 if m % 3 == 0 else m) for m in n]
        if ns == list(n):
            variant = "same"
    elif variant == "finer":
        ns = [3 * n[0]] + list(n[1:])
    spec["variant"] = variant
    nsc = math.prod(ns)
    form = "array"
    if variant in ("same", "larger") and ns[0] >= 2 and rng.random() < 0.3:
        # the spec field itself is built from a dictionary over a subregion of ITS mesh
        form = "dict"
        split = rng.randint(1, ns[0] - 1)
        ta, tb = rng.choice(TVALS), rng.choice(TVALS)
        stride = nsc // ns[0]
        vals = [ta if j // stride < split else tb for j in range(nsc)]
        spec.update(split=split, ta=S(ta), tb=S(tb))
    else:
        vals = [rng.choice(TVALS) if rng.random() < 0.7 else F(rng.randint(0, 64), 8) for _ in range(nsc)]
        if rng.random() < 0.4:
            vals[rng.randrange(nsc)] = F(0)
    swap = rng.random() < 0.3
    spec.update(p1=[S(x) for x in (shi if swap else slo)], p2=[S(x) for x in (slo if swap else shi)], ns=ns,
                vals=[S(x) for x in vals], form=form)
    return spec


def fix_step(spec, p1, p2, n, rng):
    """threshold of a step spec: a cell face or a cell centre of the chosen axis (dyadic);
    affine specs are shifted so that the smallest target is exactly zero or positive (negative
    targets are outside the property's quantifier)"""
    if spec["kind"] == "field" and spec.pop("todo", False):
        return fix_field(spec, p1, p2, n, rng)
    if spec["kind"] == "affine" and spec.pop("shift", False):
        lo = [min(F(a), F(b)) for a, b in zip(p1, p2)]
        cell = [abs(F(b) - F(a)) / k for a, b, k in zip(p1, p2, n)]
        vals = []
        for idx in np.ndindex(*n):
            p = [l + (i + F(1, 2)) * c for l, i, c in zip(lo, idx, cell)]
            vals.append(F(spec["c0"]) + sum(F(c) * x for c, x in zip(spec["cs"], p)))
        if min(vals) < 0:
            spec["c0"] = S(F(spec["c0"]) - min(vals))
        return spec
    if spec["kind"] != "step" or spec["x0"] is not None:
        return spec
    ax = spec["ax"]
    lo, hi = sorted([F(p1[ax]), F(p2[ax])])
    cell = (hi - lo) / n[ax]
    j = rng.randint(0, n[ax])
    x0 = lo + j * cell if rng.random() < 0.5 else lo + (min(j, n[ax] - 1) + F(1, 2)) * cell
    spec["x0"] = S(x0)
    return spec


def flat(cells):
    return [S(x) for c in cells for x in c]


def gen_hist(rng, tier, mode="std", nvdim=None, bad=False):
    p1, p2, n = gen_mesh(rng, tier)
    ncell = math.prod(n)
    k = nvdim or rng.choice([1, 2, 3, 3, 3, 4])
    vals = flat(gen_cells(rng, ncell, k, mode))
    norm0 = None
    if mode == "std" and rng.random() < 0.45:
        norm0 = fix_step(gen_spec(rng, n), p1, p2, n, rng)
    vr = rng.random()
    if vr < 0.4:
        v0 = dict(kind="all", form=rng.choice(["True", "None", "default"]))
    elif vr < 0.7:
        v0 = dict(kind="arr", l=[rng.random() < 0.7 for _ in range(ncell)])
    else:
        v0 = dict(kind="norm")
    ops = []
    nops = rng.choice([0, 1, 1, 2, 2, 3, 4]) if tier == "quick" else rng.choice([0, 1, 2, 3, 4, 6, 8])
    if mode in ("sub", "thr"):
        nops = rng.choice([0, 0, 1])
    for j in range(nops):
        r = rng.random()
        if mode in ("sub", "thr"):
            r = max(r, 0.56)
        if r < 0.55:
            ops.append(dict(op="setnorm", spec=fix_step(gen_spec(rng, n, allow_bad=bad and j == nops - 1), p1, p2, n, rng)))
        elif r < 0.85:
            m2 = rng.choice(["std", "std", "uniform", "allzero"])
            newvals = flat(gen_cells(rng, ncell, k, m2))
            if bad and j == nops - 1 and rng.random() < 0.5:
                newvals = newvals + newvals[:k]      # one cell too many
            ops.append(dict(op="update", vals=newvals, form=rng.choice(["array", "array", "update_array_attr"])))
        else:
            ops.append(dict(op="validnorm"))
    return dict(kind="hist", mode=mode, p1=p1, p2=p2, n=n, nvdim=k, unit=rng.choice(UNITS), vals=vals,
                norm0=norm0, v0=v0, ops=ops, bad=bad)


NEAR_DELTAS = [F(1, 2 ** 50), F(1, 2 ** 40), F(1, 2 ** 30), F(1, 2 ** 23), F(1, 2 ** 20), F(3, 2 ** 20)]
ABS_DELTAS = [F(1, 2 ** 10), F(1, 2 ** 9), F(1, 2 ** 8)]      # |n*delta| < 1e-8 for n of a few 1e-6


def variant(rng, v):
    """same length, other direction: permuted components with random signs"""
    w = list(v)
    rng.shuffle(w)
    return [x * rng.choice([-1, 1]) for x in w]


def gen_near(rng, tier):
    """every cell already has a length within delta (relative) of the target it is then given: a drift of
    delta has to be corrected by the assignment, for each kind of specification"""
    p1, p2, n = gen_mesh(rng, tier)
    ncell = math.prod(n)
    k = rng.choice([1, 2, 3, 3, 4])
    sk = rng.choice(["const", "arr", "affine", "step"])
    regime = rng.choice(["tiny", "mid", "mid", "mid", "large", "huge"])
    e = {"tiny": -19, "mid": rng.choice([-3, 0, 0, 1, 7]), "large": 60, "huge": rng.choice([480, 489])}[regime]
    deltas = NEAR_DELTAS + (ABS_DELTAS if regime == "tiny" else [])
    d_case = rng.choice(deltas) * rng.choice([-1, 1])
    same_delta = rng.random() < 0.6

    def delta():
        return d_case if same_delta else rng.choice(deltas) * rng.choice([-1, 1])

    def near(x):
        """binary64 number next to x*(1+delta)"""
        return F(float(x * (1 + delta())))

    sc = F(2) ** e
    if sk == "const":
        base = pyth(rng, k, big=3 if regime == "tiny" else 6)
        L = F(math.isqrt(sum(x * x for x in base))) * sc
        cells = [[F(x) * sc for x in variant(rng, base)] for _ in range(ncell)]
        spec = dict(kind="const", t=S(near(L)), form=rng.choice(["float", "npfloat"]))
    elif sk == "arr":
        cells, ts = [], []
        for _ in range(ncell):
            if rng.random() < 0.1:
                cells.append([F(0)] * k)
                ts.append(F(0))
                continue
            v = pyth(rng, k, big=3 if regime == "tiny" else 6)
            cells.append([F(x) * sc for x in v])
            ts.append(near(F(math.isqrt(sum(x * x for x in v))) * sc))
        spec = dict(kind="arr", ts=[S(t) for t in ts], form=rng.choice(["n", "n1", "list_n"]))
    elif sk == "step":
        ax = rng.randrange(len(n))
        spec = fix_step(dict(kind="step", ax=ax, x0=None, lo="0/1", hi="0/1"), p1, p2, n, rng)
        b_lo, b_hi = pyth(rng, k, big=3 if regime == "tiny" else 6), pyth(rng, k, big=3 if regime == "tiny" else 6)
        L_lo = F(math.isqrt(sum(x * x for x in b_lo))) * sc
        L_hi = F(math.isqrt(sum(x * x for x in b_hi))) * sc
        spec["lo"], spec["hi"] = S(near(L_lo)), S(near(L_hi))
        lo_c = [min(F(a), F(b)) for a, b in zip(p1, p2)]
        cw = [abs(F(b) - F(a)) / m for a, b, m in zip(p1, p2, n)]
        cells = []
        for idx in np.ndindex(*n):
            x = lo_c[ax] + (idx[ax] + F(1, 2)) * cw[ax]
            cells.append([F(c) * sc for c in variant(rng, b_lo if x < F(spec["x0"]) else b_hi)])
    else:
        # affine target (>= 1 everywhere); axis-aligned vectors whose length is the binary64 number next
        # to target*(1+delta)
        spec = dict(kind="affine", c0=S(F(rng.randint(4, 48), 4)), cs=[S(F(rng.randint(-8, 8), 4)) for _ in n])
        lo_c = [min(F(a), F(b)) for a, b in zip(p1, p2)]
        cw = [abs(F(b) - F(a)) / m for a, b, m in zip(p1, p2, n)]
        pts = [[l + (i + F(1, 2)) * c for l, i, c in zip(lo_c, idx, cw)] for idx in np.ndindex(*n)]
        tv = [F(spec["c0"]) + sum(F(c) * x for c, x in zip(spec["cs"], p)) for p in pts]
        if min(tv) < 1:
            spec["c0"] = S(F(spec["c0"]) + 1 - min(tv))
            tv = [t + 1 - min(tv) for t in tv]
        cells = []
        for t in tv:
            c = [F(0)] * k
            c[rng.randrange(k)] = near(t) * rng.choice([-1, 1])
            cells.append(c)
    in_ctor = rng.random() < 0.4
    ops = [] if in_ctor else [dict(op="setnorm", spec=spec)]
    if rng.random() < 0.3:
        ops.append(dict(op="validnorm"))
    vr = rng.random()
    v0 = dict(kind="all", form="default") if vr < 0.5 else (
        dict(kind="arr", l=[rng.random() < 0.7 for _ in range(ncell)]) if vr < 0.8 else dict(kind="norm"))
    return dict(kind="hist", mode="near", p1=p1, p2=p2, n=n, nvdim=k, unit=rng.choice(UNITS), vals=flat(cells),
                norm0=spec if in_ctor else None, v0=v0, ops=ops, bad=False, near=dict(spec=sk, regime=regime))


def axis_cell(rng, k):
    if rng.random() < 0.15:
        return [F(0)] * k
    c = [F(0)] * k
    c[rng.randrange(k)] = F(rng.randint(1, 40) * rng.choice([-1, 1])) * F(2) ** rng.choice([-19, -3, 0, 0, 1, 7, 60])
    return c


def gen_inplace(rng, tier):
    """histories with in-place writes into field.array interleaved with reads of norm / orientation,
    norm assignments, valid = 'norm' and updates"""
    p1, p2, n = gen_mesh(rng, tier)
    ncell = math.prod(n)
    k = rng.choice([1, 2, 3, 3, 4])
    style = rng.choice(["pyth", "pyth", "axis"])

    def cell():
        return axis_cell(rng, k) if style == "axis" else gen_cell(rng, k, "std")

    vals = flat([cell() for _ in range(ncell)])
    norm0 = fix_step(gen_spec(rng, n), p1, p2, n, rng) if rng.random() < 0.3 else None
    vr = rng.random()
    v0 = dict(kind="all", form="default") if vr < 0.4 else (
        dict(kind="arr", l=[rng.random() < 0.7 for _ in range(ncell)]) if vr < 0.7 else dict(kind="norm"))
    ops = []
    nops = rng.randint(3, 6) if tier == "quick" else rng.randint(3, 10)
    for j in range(nops):
        r = rng.random()
        if j == 0 and r < 0.7:
            r = 0.0
        if r < 0.25:
            ops.append(dict(op="read"))
        elif r < 0.62:
            wk = rng.choice(["scale", "scale", "cell", "cell", "comp", "slice"])
            if wk == "scale":
                w = dict(kind="scale", c=S(rng.choice([F(2), F(2), F(1, 2), F(4), F(1, 4), F(3), F(-1), F(-2), F(0)])))
            elif wk == "cell":
                w = dict(kind="cell", idx=[rng.randrange(m) for m in n], v=[S(x) for x in cell()])
            elif wk == "comp":
                if style == "axis":
                    w = dict(kind="comp", comp=rng.randrange(k), c=S(rng.choice([F(0), F(0), F(2), F(-1), F(1, 2)])),
                             mul=rng.random() < 0.5)
                    if not w["mul"] and F(w["c"]) != 0:
                        w["c"] = "0/1"      # assigning a non-zero component would leave the axis-aligned class
                else:
                    w = dict(kind="comp", comp=rng.randrange(k), c="-1/1", mul=True)
            else:
                w = dict(kind="slice", i=rng.randrange(n[0]), v=[S(x) for x in cell()])
            ops.append(dict(op="inplace", w=w))
        elif r < 0.82:
            ops.append(dict(op="setnorm", spec=fix_step(gen_spec(rng, n), p1, p2, n, rng)))
        elif r < 0.92:
            ops.append(dict(op="validnorm"))
        else:
            ops.append(dict(op="update", vals=flat([cell() for _ in range(ncell)]),
                            form=rng.choice(["array", "update_array_attr"])))
    return dict(kind="hist", mode="inpl", p1=p1, p2=p2, n=n, nvdim=k, unit=rng.choice(UNITS), vals=vals,
                norm0=norm0, v0=v0, ops=ops, bad=False)


def gen_dictspec(rng, tier):
    """norm = {subregion: value, 'default': value} on a mesh with a subregion (cells below a cell face
    along one axis): the targets are those of the step function"""
    p1, p2, n = gen_mesh(rng, tier)
    ncell = math.prod(n)
    k = rng.choice([1, 2, 3, 4])
    ax = rng.randrange(len(n))
    lo, hi = sorted([F(p1[ax]), F(p2[ax])])
    x0 = lo + rng.randint(1, n[ax]) * (hi - lo) / n[ax]
    spec = dict(kind="dict", ax=ax, x0=S(x0), lo=S(rng.choice(TVALS)), hi=S(rng.choice(TVALS)))
    in_ctor = rng.random() < 0.4
    return dict(kind="hist", mode="dict", p1=p1, p2=p2, n=n, nvdim=k, unit=rng.choice(UNITS),
                vals=flat(gen_cells(rng, ncell, k, "std")), norm0=spec if in_ctor else None,
                v0=dict(kind="all", form="default"), ops=[] if in_ctor else [dict(op="setnorm", spec=spec)],
                bad=False, subregion=dict(ax=ax, x0=S(x0)))


def full_mantissa(rng, e):
    """a binary64 number in [2^e, 2^(e+1)) with a random 52-bit mantissa"""
    return F(2 ** 52 + rng.getrandbits(52), 2 ** 52) * F(2) ** e


def gen_wide(rng, tier):
    """requested norms over a wide magnitude range, independent of the field's magnitude: huge fields set to
    far larger norms, tiny fields to far smaller ones, ordinary fields to both; then the array is scaled back
    in place by a power of two so that the result can be viewed"""
    p1, p2, n = gen_mesh(rng, tier)
    ncell = math.prod(n)
    k = rng.choice([1, 2, 3, 3, 4])
    regime = rng.choice(["over", "over", "under", "under", "mixed"])
    if regime == "over":
        e = rng.choice([480, 490, 490])
        cells = [gen_cell_at(rng, k, e) for _ in range(ncell)]
        te = rng.choice([540, 600, 700, 900, 1000, 1015])
    elif regime == "under":
        cells = []
        for _ in range(ncell):
            c = [F(0)] * k
            if rng.random() > 0.1:
                c[rng.randrange(k)] = F(rng.randint(1, 40) * rng.choice([-1, 1]), 2 ** 19)
            cells.append(c)
        te = rng.choice([-1020, -1019, -1018])
    else:
        e = rng.choice([-3, 0, 1, 7])
        cells = [gen_cell_at(rng, k, e) for _ in range(ncell)]
        te = rng.choice([-1000, -900, 900, 1000, 1015])
    t0 = full_mantissa(rng, te) if rng.random() < 0.7 or regime == "under" else F(2) ** te
    sk = rng.choice(["const", "arr", "step"])
    if sk == "const":
        spec = dict(kind="const", t=S(t0), form=rng.choice(["float", "npfloat"]))
    elif sk == "arr":
        ts = [rng.choice([t0, t0, t0 * 2, F(float(t0 * F(3, 2))), F(0)]) for _ in range(ncell)]
        spec = dict(kind="arr", ts=[S(t) for t in ts], form=rng.choice(["n", "n1", "list_n"]), layout=rng.choice(LAYOUTS))
    else:
        spec = fix_step(dict(kind="step", ax=rng.randrange(len(n)), x0=None, lo=S(t0), hi=S(rng.choice([t0 * 2, F(0), t0]))),
                        p1, p2, n, rng)
    back = F(2) ** (-te - (10 if regime == "under" else 0))
    in_ctor = rng.random() < 0.3
    ops = ([] if in_ctor else [dict(op="setnorm", spec=spec)]) + [dict(op="inplace", w=dict(kind="scale", c=S(back)))]
    if rng.random() < 0.3:
        ops.append(dict(op="setnorm", spec=dict(kind="const", t=S(rng.choice([F(1), F(5), F(3, 4)])), form="float")))
    vr = rng.random()
    v0 = dict(kind="all", form="default") if vr < 0.6 else dict(kind="arr", l=[rng.random() < 0.7 for _ in range(ncell)])
    return dict(kind="hist", mode="wide", p1=p1, p2=p2, n=n, nvdim=k, unit=rng.choice(UNITS), vals=flat(cells),
                norm0=spec if in_ctor else None, v0=v0, ops=ops, bad=False, near=dict(spec=sk, regime=regime))


def gen_cell_at(rng, k, e):
    if rng.random() < 0.12:
        return [F(0)] * k
    return [F(x) * F(2) ** e for x in pyth(rng, k)]


def gen_alias(rng, tier):
    """norm specifications (and new values) that are views of / derived from the field's own storage"""
    p1, p2, n = gen_mesh(rng, tier)
    ncell = math.prod(n)
    k = rng.choice([1, 2, 3, 3, 3, 4])

    def cells():
        return [[abs(x) for x in gen_cell(rng, k, "std")] for _ in range(ncell)]

    ops = []
    for j in range(rng.choice([1, 1, 2, 3])):
        r = rng.random()
        if r < 0.7:
            src = rng.choice(["comp", "comp", "comp1", "revcomp", "abscomp", "valid", "validf", "normarr", "normfield",
                              "compfield"])
            ops.append(dict(op="setnorm", spec=dict(kind="own", src=src, j=rng.randrange(k))))
        elif r < 0.85:
            ops.append(dict(op="setnorm", spec=fix_step(gen_spec(rng, n), p1, p2, n, rng)))
        else:
            ops.append(dict(op="update", vals=[], form=rng.choice(["alias_rev", "alias_rev", "alias_self"]),
                            via=rng.choice(["method", "setter"])))
    # new values taken from the field's own storage come first: the data are then still the exact
    # Pythagorean input (after a division the model could no longer take exact roots of them)
    ops.sort(key=lambda o: 0 if o["op"] == "update" else 1)
    vr = rng.random()
    v0 = dict(kind="all", form="default") if vr < 0.4 else (
        dict(kind="arr", l=[rng.random() < 0.7 for _ in range(ncell)]) if vr < 0.8 else dict(kind="norm"))
    return dict(kind="hist", mode="alias", p1=p1, p2=p2, n=n, nvdim=k, unit=rng.choice(UNITS), vals=flat(cells()),
                norm0=None, v0=v0, ops=ops, bad=False)


INT_DTYPES = ["int8", "int16", "int32", "int64", "uint8", "uint16", "uint32", "uint64"]


def int_cell(rng, k, dtype):
    """integer vector with an integer length whose largest component lies between sqrt(max) and max of
    the dtype (its square does not fit the dtype), sometimes small or zero"""
    info = np.iinfo(np.dtype(dtype))
    r = rng.random()
    if r < 0.12:
        return [0] * k
    v = pyth(rng, k, big=2 if info.max < 300 else 4)
    top = max(abs(x) for x in v)
    if info.max // top < 1:
        v = [0] * (k - 1) + [rng.randint(1, info.max)]
        rng.shuffle(v)
        top = max(v)
    lo = math.isqrt(info.max) + 1
    if r < 0.25:
        m = 1
    else:
        hi = info.max if rng.random() < 0.5 else min(info.max, 2 ** 53)
        target = int(math.exp(rng.uniform(math.log(lo), math.log(hi))))
        m = max(1, min(target // top, info.max // top))
    v = [x * m for x in v]
    if info.min == 0:
        v = [abs(x) for x in v]
    return v


def gen_intfield(rng, tier):
    """integer-typed fields: norm getter, orientation, valid = 'norm', updates (no norm assignment)"""
    p1, p2, n = gen_mesh(rng, tier)
    ncell = math.prod(n)
    k = rng.choice([1, 2, 3, 3, 4])
    dt = rng.choice(INT_DTYPES)
    vals = [S(x) for _ in range(ncell) for x in int_cell(rng, k, dt)]
    ops = []
    for _ in range(rng.choice([0, 0, 1, 2])):
        if rng.random() < 0.6:
            ops.append(dict(op="update", vals=[S(x) for _ in range(ncell) for x in int_cell(rng, k, dt)],
                            form=rng.choice(["array", "update_array_attr"])))
        else:
            ops.append(dict(op="validnorm"))
    vr = rng.random()
    v0 = dict(kind="all", form="default") if vr < 0.35 else (
        dict(kind="arr", l=[rng.random() < 0.7 for _ in range(ncell)]) if vr < 0.6 else dict(kind="norm"))
    return dict(kind="hist", mode="int", p1=p1, p2=p2, n=n, nvdim=k, unit=rng.choice(UNITS), vals=vals,
                norm0=None, v0=v0, ops=ops, bad=False, dtype=dt)


def rnd_float(rng, lo_exp, hi_exp):
    return rng.uniform(1, 10) * 10.0 ** rng.randint(lo_exp, hi_exp) * rng.choice([-1, 1])


def gen_rel(rng, tier):
    k = rng.choice([1, 2, 3, 3, 4])
    ncell = rng.randint(1, 8)
    cells, ts = [], []
    for _ in range(ncell):
        r = rng.random()
        if r < 0.15:
            v = [0.0] * k
        else:
            regime = rng.choice(["mid", "mid", "mid", "small", "small", "huge", "mixed", "mixed", "thr", "thr"])
            if regime == "mid":
                e = rng.randint(-3, 6)
                v = [rnd_float(rng, e, e) if rng.random() < 0.85 else 0.0 for _ in range(k)]
            elif regime == "small":
                v = [rnd_float(rng, -6, -6) * 1.5 for _ in range(k)]
            elif regime == "huge":
                v = [rnd_float(rng, 148, 148) * 0.4 for _ in range(k)]
            elif regime == "mixed":
                v = [rnd_float(rng, -5, 12) for _ in range(k)]
            else:
                s = rng.choice([1e-9, 3e-9, 1e-8 * (1 - 1e-6), 1e-8 * (1 + 1e-6), 1e-8, 3e-8, 1e-7])
                w = [rng.uniform(-1, 1) for _ in range(k)]
                nw = math.sqrt(sum(x * x for x in w)) or 1.0
                v = [x / nw * s for x in w]
            if not any(v):
                v[0] = 1.5
        cells.append(v)
        tr = rng.random()
        ts.append(0.0 if tr < 0.12 else (rnd_float(rng, -6, 149) if tr < 0.9 else 1.0))
        ts[-1] = abs(ts[-1])
    return dict(kind="rel", nvdim=k, vals=[S(x) for c in cells for x in c], ts=[S(t) for t in ts],
                const=(rng.random() < 0.25))


def gen_geom(rng, tier, pre_kind=None):
    """the geometry is changed in place (region / mesh / field level) and THEN a norm is assigned as a
    function of position: it has to be evaluated at the cell centres the mesh reports now"""
    while True:
        p1, p2, n = gen_mesh(rng, tier)
        if len(n) <= 3:
            break
    nd = len(n)
    kinds = ["region_scale", "region_scale", "region_translate", "mesh_scale", "mesh_translate"]
    if nd >= 2:
        kinds += ["region_rotate90", "mesh_rotate90", "field_rotate90"]
    kind = pre_kind if pre_kind in kinds else rng.choice(kinds)
    k = rng.choice([1, 2, 3, 3, 4])
    pre = dict(kind=kind)
    if kind.endswith("scale"):
        pre["factor"] = (S(rng.choice([F(2), F(1, 2), F(4), F(3), F(3, 2)])) if rng.random() < 0.6 else
                         [S(rng.choice([F(1), F(2), F(1, 2), F(3)])) for _ in n])
        if isinstance(pre["factor"], list) and all(F(x) == 1 for x in pre["factor"]):
            pre["factor"][0] = "2/1"
    elif kind.endswith("translate"):
        pre["vector"] = [S(F(rng.randint(-40, 40), 4)) for _ in n]
        if not any(F(x) for x in pre["vector"]):
            pre["vector"][0] = "5/2"
    else:
        a1, a2 = rng.sample(range(nd), 2)
        pre["ax"] = [a1, a2]
        pre["k"] = rng.choice([1, 1, 2, 3])
        if kind in ("mesh_rotate90", "region_rotate90"):
            # same cell count along both axes: the array still fits the rotated mesh and the cells of the
            # rotated region stay dyadic
            cw = abs(F(p2[a2]) - F(p1[a2])) / n[a2]
            n[a2] = n[a1]
            p2[a2] = S(F(p1[a2]) + n[a2] * cw * (1 if F(p2[a2]) > F(p1[a2]) else -1))
        if kind == "field_rotate90":
            k = rng.choice([1, nd])
    ncell = math.prod(n)
    forms = dict(cform=rng.choice(CFORMS), ret=rng.choice(RETS))
    sk = rng.choice(["affine", "affine", "sumsq", "step"])
    if sk == "affine":
        cs = [F(rng.randint(-8, 8), 4) for _ in n]
        if not any(cs):
            cs[0] = F(3, 4)
        spec = dict(kind="affine", c0=S(F(rng.randint(0, 48), 4)), cs=[S(x) for x in cs], shift=True, **forms)
    elif sk == "sumsq":
        spec = dict(kind="sumsq", c0=S(rng.choice([F(0), F(1), F(3, 4)])), **forms)
    else:
        spec = dict(kind="step", ax=rng.randrange(nd), x0=None, lo=S(rng.choice([F(0), F(1), F(3, 2)])),
                    hi=S(rng.choice([F(2), F(5)])), **forms)
    ops = [dict(op="setnorm", spec=spec)]
    if rng.random() < 0.3:
        ops.append(dict(op="validnorm"))
    vr = rng.random()
    v0 = dict(kind="all", form="default") if vr < 0.6 else dict(kind="arr", l=[rng.random() < 0.7 for _ in range(ncell)])
    return dict(kind="hist", mode="geom", p1=p1, p2=p2, n=n, nvdim=k, unit=rng.choice(UNITS),
                vals=flat(gen_cells(rng, ncell, k, "std")), norm0=None, v0=v0, ops=ops, bad=False, pre=pre)


def gen_big(rng):
    """a mesh with more than 100000 cells and a callable norm that reduces over the point's components
    (oracle only: no Coq literal of that size is written)"""
    if rng.random() < 0.5:
        n, p1, p2 = [48, 48, 48], [-6.0, -6.0, -6.0], [6.0, 6.0, 6.0]
    else:
        n, p1, p2 = [400, 300], [-25.0, 0.0], [25.0, 37.5]
    return dict(kind="big", n=n, p1=p1, p2=p2, nvdim=rng.choice([1, 2, 3]),
                fn=rng.choice(["norm_lt", "all_lt", "dot", "maxabs"]), vec=[S(x) for x in pyth(rng, 3)])


def gen_intdtype(rng):
    k = rng.choice([2, 3])
    return dict(kind="intdtype", nvdim=k, vals=[S(x) for x in pyth(rng, k)])


def gen_rejected(rng):
    k = rng.choice([1, 2, 3])
    return dict(kind="rejected", nvdim=k, vals=[S(x) for x in pyth(rng, k)],
                bad=rng.choice(["str", "shape", "vector"]))


def _pick(gen, pred, count, limit=4000):
    out = []
    for _ in range(limit):
        c = gen()
        if pred(c):
            out.append(c)
            if len(out) == count:
                break
    return out


def _cells_of(c):
    k = c["nvdim"]
    v = [F(x) for x in c["vals"]]
    return [v[j:j + k] for j in range(0, len(v), k)]


def _has(c, op):
    return any(o["op"] == op for o in c["ops"])


def core_cases():
    """DIRECTED CORE: the same list in every run, tier and seed (own fixed generator).  One group per
    mechanism / blind spot that a seeded change of rounds a-e went through (seeded/C15-*/meta.json)."""
    r = random.Random(424242)
    t = "quick"
    core = []
    for k in (1, 2, 3, 4):
        core.append(dict(kind="hist", mode="std", p1=["0/1"], p2=["2/1"], n=[2], nvdim=k, unit="T",
                         vals=flat([[F(0)] * k, [F(3)] + [F(0)] * (k - 1)]),
                         norm0=dict(kind="const", t="5/1", form="float"), v0=dict(kind="norm"), ops=[], bad=False))
    std = lambda: gen_hist(r, t, "std")                                            # noqa: E731
    # a1: every cell within delta of its target (constant / array / callable specs, all scales)
    core += [gen_near(r, t) for _ in range(28)]
    # a2: integer dtypes whose squares overflow
    core += [gen_intfield(r, t) for _ in range(20)]
    # a3: a tiny COMPONENT (<= 1e-8) in a vector of ordinary length (orientation is per cell, not per component)
    for tiny in (5e-9, -3e-10, 1e-8, 2e-12):
        for vec in ([tiny, 3.0, 4.0], [1.5, tiny], [0.0, 12.0, tiny, 5.0], [tiny, 2.5e-3, 6e-3]):
            core.append(dict(kind="rel", nvdim=len(vec), vals=[S(x) for x in vec + [2.0] * len(vec)],
                             ts=[S(1.0), S(2.0)], const=False))
    core += [gen_rel(r, t) for _ in range(16)]
    # b1: in-place writes between reads / assignments (no stale lengths)
    core += [gen_inplace(r, t) for _ in range(30)]
    # b2: scalar fields with exact zeros given a norm
    core += _pick(std, lambda c: c["nvdim"] == 1 and (c["norm0"] or _has(c, "setnorm")) and
                  any(not any(v) for v in _cells_of(c)), 8)
    # b3: Field-typed specifications, in particular the same n on a larger region
    for variant in ["larger"] * 8 + ["same", "same", "coarser", "coarser", "finer", "finer"]:
        core += _pick(std, lambda c: len(c["n"]) <= 3, 1)
        c = core[-1]
        c["norm0"] = None
        c["ops"] = [dict(op="setnorm", spec=fix_step(dict(kind="field", variant=variant, todo=True),
                                                     c["p1"], c["p2"], c["n"], r))]
    core += [gen_dictspec(r, t) for _ in range(4)]
    # c1: requested norms far from the field's magnitude (product not representable, result is)
    core += [gen_wide(r, t) for _ in range(20)]
    # alias stream (round c): specifications / new values that are views of the field's own storage
    core += [gen_alias(r, t) for _ in range(16)]
    # c2, e2: non-zero vectors in cells marked not valid: orientation, norm getter, norm assignment
    core += _pick(std, lambda c: c["v0"]["kind"] == "arr" and _has(c, "setnorm") and
                  any((not b) and any(v) for b, v in zip(c["v0"]["l"], _cells_of(c))), 10)
    # d1: vectors many orders of magnitude shorter than the longest one of the same field, given a norm
    def spread(c):
        ls = [sum(x * x for x in v) for v in _cells_of(c) if any(v)]
        return len(ls) >= 2 and max(ls) > min(ls) * F(2) ** 120 and (c["norm0"] or _has(c, "setnorm"))
    core += _pick(std, spread, 10)
    # d2: a norm in the constructor followed by updates
    core += _pick(std, lambda c: c["norm0"] is not None and _has(c, "update"), 10)
    # e1 (and the threshold itself): lengths 1e-9 .. 1e-7 and exactly at / next to 1e-8
    core += [gen_hist(r, t, "sub") for _ in range(14)] + [gen_hist(r, t, "thr") for _ in range(14)]
    # e3: geometry changed in place, then a norm as function of position (every kind of change, 3 each)
    for pk in ["region_scale", "region_translate", "region_rotate90", "mesh_scale", "mesh_translate", "mesh_rotate90",
               "field_rotate90"]:
        core += _pick(lambda: gen_geom(r, t, pk), lambda c: c["pre"]["kind"] == pk, 4 if pk.startswith("region") else 2)
    # d3: meshes above 100000 cells with norm functions that reduce over the point (oracle only)
    core.append(dict(kind="big", n=[400, 300], p1=[-25.0, 0.0], p2=[25.0, 37.5], nvdim=2, fn="norm_lt",
                     vec=["3/1", "4/1", "0/1"]))
    core.append(dict(kind="big", n=[48, 48, 48], p1=[-6.0, -6.0, -6.0], p2=[6.0, 6.0, 6.0], nvdim=1, fn="maxabs",
                     vec=["-5/1", "0/1", "0/1"]))
    # malformed / integer-dtype streams and general histories
    core += [gen_hist(r, t, "std", bad=True) for _ in range(8)]
    core += [gen_intdtype(r) for _ in range(2)] + [gen_rejected(r) for _ in range(3)]
    core += [std() for _ in range(30)]
    for c in core:
        c["core"] = True
    return core


def generate(rng, tier):
    quick = tier == "quick"
    core = core_cases()
    if os.environ.get("VERIF_C15_CORE_ONLY"):
        return core
    cases = []
    for _ in range(230 if quick else 3800):
        cases.append(gen_hist(rng, tier, "std"))
    for _ in range(35 if quick else 800):
        cases.append(gen_hist(rng, tier, "sub"))
    for _ in range(35 if quick else 800):
        cases.append(gen_hist(rng, tier, "thr"))
    for _ in range(25 if quick else 500):
        cases.append(gen_hist(rng, tier, "std", bad=True))
    for _ in range(100 if quick else 2300):
        cases.append(gen_rel(rng, tier))
    for _ in range(45 if quick else 950):
        cases.append(gen_near(rng, tier))
    for _ in range(25 if quick else 600):
        cases.append(gen_intfield(rng, tier))
    for _ in range(60 if quick else 1000):
        cases.append(gen_inplace(rng, tier))
    for _ in range(8 if quick else 150):
        cases.append(gen_dictspec(rng, tier))
    for _ in range(25 if quick else 450):
        cases.append(gen_wide(rng, tier))
    for _ in range(35 if quick else 700):
        cases.append(gen_alias(rng, tier))
    for _ in range(40 if quick else 750):
        cases.append(gen_geom(rng, tier))
    for _ in range(0 if quick else 4):
        cases.append(gen_big(rng))
    for _ in range(1):
        cases.append(gen_intdtype(rng))
    # the same cases in every run; only their ORDER is mixed with the random ones, so that the expensive
    # kinds are spread evenly over the Coq shards
    cases = core + cases
    rng.shuffle(cases)
    return cases


# ------------------------------------------------------------------ implementation side
def lower_part(p1, p2, ax, x0):
    """Region covering the part of [p1, p2] below x0 along axis ax (floats)"""
    lo = [min(fl(a), fl(b)) for a, b in zip(p1, p2)]
    hi = [max(fl(a), fl(b)) for a, b in zip(p1, p2)]
    hi[ax] = fl(x0)
    return df.Region(p1=lo, p2=hi)


def mk_mesh(c):
    kw = {}
    if c.get("subregion"):
        sr = c["subregion"]
        kw["subregions"] = {"a": lower_part(c["p1"], c["p2"], sr["ax"], sr["x0"])}
    return df.Mesh(p1=[fl(x) for x in c["p1"]], p2=[fl(x) for x in c["p2"]], n=c["n"], **kw)


def arr_of(vals, n, k, dtype=None):
    if dtype:
        return np.array([int(F(x)) for x in vals], dtype=np.dtype(dtype)).reshape(*n, k)
    return np.array([fl(x) for x in vals], dtype=float).reshape(*n, k)


def py_spec(spec, n):
    """the Python object handed to `field.norm = …`"""
    kind = spec["kind"]
    if kind == "const":
        t = F(spec["t"])
        if spec["form"] == "int_if_possible" and t.denominator == 1 and abs(t) < 2 ** 62:
            return int(t)
        if spec["form"] == "npfloat":
            return np.float64(float(t))
        return float(t)
    if kind == "arr":
        a = np.array([fl(t) for t in spec["ts"]], dtype=float)
        form = spec["form"]
        if form == "flat_bad":
            return a
        if form == "n":
            return relayout(a.reshape(*n), spec.get("layout"))
        if form == "n1":
            return relayout(a.reshape(*n, 1), spec.get("layout"))
        return a.reshape(*n).tolist()
    if kind in ("affine", "step", "sumsq"):
        return make_callable(spec)
    if kind == "field":
        ns = spec["ns"]
        kw = {}
        if spec["form"] == "dict":
            lo = [min(fl(a), fl(b)) for a, b in zip(spec["p1"], spec["p2"])]
            cw0 = abs(fl(spec["p2"][0]) - fl(spec["p1"][0])) / ns[0]
            kw["subregions"] = {"a": lower_part(spec["p1"], spec["p2"], 0, lo[0] + spec["split"] * cw0)}
        sm = df.Mesh(p1=[fl(x) for x in spec["p1"]], p2=[fl(x) for x in spec["p2"]], n=ns, **kw)
        if spec["form"] == "dict":
            return df.Field(sm, nvdim=1, value={"a": fl(spec["ta"]), "default": fl(spec["tb"])})
        return df.Field(sm, nvdim=1, value=np.array([fl(x) for x in spec["vals"]], dtype=float).reshape(*ns, 1))
    if kind == "dict":
        return {"a": fl(spec["lo"]), "default": fl(spec["hi"])}
    raise ValueError(kind)


def _aff(p, c0, cs):
    p = np.atleast_1d(p)
    return c0 + sum(c * float(x) for c, x in zip(cs, p))


def _step(p, ax, x0, lo, hi):
    p = np.atleast_1d(p)
    return lo if float(p[ax]) < x0 else hi


def _sumsq(p, c0):
    p = np.atleast_1d(np.asarray(p, dtype=float))
    return c0 + float(p @ p)          # a reduction over the point's components


class _CallableNorm:
    """a callable class instance as norm specification"""

    def __init__(self, fn):
        self.fn = fn

    def __call__(self, point):
        return self.fn(point)


CFORMS = ["def", "def", "lambda", "partial", "instance", "ufunc"]
RETS = ["float", "float", "npfloat", "arr0", "arr1", "list1"]


def make_callable(spec):
    """the position function of an affine / step / sum-of-squares specification, in the form
    (def, lambda, functools.partial, callable instance, numpy-ufunc expression) and with the return
    type (Python float, numpy scalar, 0-d array, 1-element array / list) the case asks for"""
    kind = spec["kind"]
    if kind == "affine":
        args = dict(c0=fl(spec["c0"]), cs=[fl(x) for x in spec["cs"]])
        base = _aff
    elif kind == "step":
        args = dict(ax=spec["ax"], x0=fl(spec["x0"]), lo=fl(spec["lo"]), hi=fl(spec["hi"]))
        base = _step
    else:
        args = dict(c0=fl(spec["c0"]))
        base = _sumsq
    ret = {"float": float, "npfloat": np.float64, "arr0": lambda x: np.array(float(x)),
           "arr1": lambda x: np.array([float(x)]), "list1": lambda x: [float(x)]}[spec.get("ret", "float")]
    cform = spec.get("cform", "def")
    if cform == "ufunc":
        # numpy expressions on the point as an array
        if kind == "affine":
            def core(p):
                return np.add(args["c0"], np.dot(np.asarray(args["cs"], dtype=float), np.atleast_1d(np.asarray(p, dtype=float))))
        elif kind == "step":
            def core(p):
                return np.where(np.less(np.atleast_1d(np.asarray(p, dtype=float))[args["ax"]], args["x0"]), args["lo"], args["hi"])
        else:
            def core(p):
                return np.add(args["c0"], np.sum(np.square(np.atleast_1d(np.asarray(p, dtype=float)))))
    else:
        core = functools.partial(base, **args)
    if cform == "partial" and spec.get("ret", "float") == "float":
        return core if cform != "ufunc" else functools.partial(core)
    if cform == "lambda":
        return lambda point: ret(core(point))
    if cform == "instance":
        return _CallableNorm(lambda point: ret(core(point)))
    if cform == "partial":
        return functools.partial(lambda point, wrap: wrap(core(point)), wrap=ret)

    def norm_function(point):
        return ret(core(point))
    return norm_function


def coq_spec(spec):
    kind = spec["kind"]
    if kind == "sumsq":
        return f"(SSumSq {g.q(spec['c0'])})"
    if kind == "field":
        return f"(SField {g.ql(spec['p1'])} {g.ql(spec['p2'])} {g.zl(spec['ns'])} {g.ql(spec['vals'])})"
    if kind == "const":
        return f"(SConst {g.q(spec['t'])})"
    if kind == "arr":
        return f"(SArr {g.ql(spec['ts'])})"
    if kind == "affine":
        return f"(SAffine {g.q(spec['c0'])} {g.ql(spec['cs'])})"
    return f"(SStep {g.nat(spec['ax'])} {g.q(spec['x0'])} {g.q(spec['lo'])} {g.q(spec['hi'])})"


def spec_values(spec, mesh):
    """per-cell targets in C order as Fractions (evaluated exactly at the exact cell centres)"""
    n = tuple(int(x) for x in mesh.n)
    ncell = math.prod(n)
    kind = spec["kind"]
    if kind == "const":
        return [F(spec["t"])] * ncell
    if kind == "arr":
        return [F(t) for t in spec["ts"]]
    pmin = [F(float(x)) for x in np.atleast_1d(mesh.region.pmin)]
    pmax = [F(float(x)) for x in np.atleast_1d(mesh.region.pmax)]
    cell = [(hi - lo) / m for lo, hi, m in zip(pmin, pmax, n)]      # NOT mesh.cell: corners as read back now
    out = []
    if kind == "field":
        # the spec field sampled at the cell centre = value of the spec cell containing the centre
        ns = spec["ns"]
        slo = [min(F(a), F(b)) for a, b in zip(spec["p1"], spec["p2"])]
        scw = [abs(F(b) - F(a)) / m for a, b, m in zip(spec["p1"], spec["p2"], ns)]
        sv = [F(x) for x in spec["vals"]]
        for idx in np.ndindex(*n):
            p = [lo + (i + F(1, 2)) * c for lo, i, c in zip(pmin, idx, cell)]
            j = 0
            for x, l, w, m in zip(p, slo, scw, ns):
                j = j * m + min(max(math.floor((x - l) / w), 0), m - 1)
            out.append(sv[j])
        return out
    for idx in np.ndindex(*n):
        p = [lo + (i + F(1, 2)) * c for lo, i, c in zip(pmin, idx, cell)]
        if kind == "affine":
            out.append(F(spec["c0"]) + sum(F(c) * x for c, x in zip(spec["cs"], p)))
        elif kind == "sumsq":
            out.append(F(spec["c0"]) + sum(x * x for x in p))
        else:
            out.append(F(spec["lo"]) if p[spec["ax"]] < F(spec["x0"]) else F(spec["hi"]))
    return out


def sumsq(v):
    return sum(x * x for x in v)


def in_range(s):
    """squared length within the quantifier's range of lengths [1e-6, 1e150]"""
    return LEN_MIN * LEN_MIN <= s <= LEN_MAX * LEN_MAX


def scaled_ok(v, v2, t, tol=F(1, 10 ** 12)):
    """v2 = c*v with c*t >= 0 and |v2| = |t| within tol (relative); exact rational test"""
    s, s2 = sumsq(v), sumsq(v2)
    if abs(s2 - t * t) > 2 * tol * t * t:
        return "length"
    bound = tol * tol * s * s2
    for i in range(len(v)):
        for j in range(i + 1, len(v)):
            c = v2[i] * v[j] - v2[j] * v[i]
            if c * c > bound:
                return "direction"
    d = sum(a * b for a, b in zip(v2, v))
    if t * d < 0 or (t != 0 and d == 0):
        return "direction"
    return None


def cells_frac(a, k):
    """cells as exact Fractions (integer dtypes are NOT routed through float)"""
    return [[F(x) for x in row] for row in np.asarray(a).reshape(-1, k).tolist()]


def result_representable(v, s, t):
    """every non-zero component of (t/|v|) v is a normal binary64 number (|.| in 2^-1020 .. 2^1023): the
    requested norm itself may be anything ('all norm specifications'), only the field's lengths are bounded"""
    if t == 0:
        return True
    if abs(t) > F(2) ** 1023:
        return False
    lim = s * F(1, 2 ** 2040)
    return all(x == 0 or t * t * x * x >= lim for x in v)


def own_spec(f, spec):
    """norm specifications that alias (or are derived from) the target field's own storage; returns the
    object to assign and the per-cell targets it holds at the time of the assignment"""
    src, j = spec["src"], spec.get("j", 0)
    if src == "comp":
        obj = f.array[..., j]
    elif src == "comp1":
        obj = f.array[..., j:j + 1]
    elif src == "revcomp":
        obj = f.array[::-1, ..., j]
    elif src == "abscomp":
        obj = np.abs(f.array[..., j])
    elif src == "valid":
        obj = f.valid
    elif src == "validf":
        obj = f.valid.astype(float)
    elif src == "normarr":
        obj = f.norm.array
    elif src == "normfield":
        obj = f.norm
    else:
        obj = df.Field(f.mesh, nvdim=1, value=f.array[..., j])
    vals = obj.array if isinstance(obj, df.Field) else obj
    ts = [F(x) for x in np.array(vals, dtype=float).reshape(-1).tolist()]
    return obj, ts


def oracle_setnorm(before, after, ts, out):
    for v, v2, t in zip(before, after, ts):
        s = sumsq(v)
        if s == 0:
            if any(x != 0 for x in v2):
                out.append("zero-cell-not-zero-after-norm")
        elif in_range(s) and result_representable(v, s, t):
            bad = scaled_ok(v, v2, t)
            if bad == "length":
                out.append("set-norm-length")
            elif bad == "direction" and t >= 0:
                out.append("set-norm-direction")
            elif bad == "direction":
                out.append("set-norm-direction-negative-target")


def oracle_views(f, out):
    """norm getter / orientation clauses on the current state of field f"""
    k = f.nvdim
    cells = cells_frac(f.array, k)
    nf = f.norm
    if nf.nvdim != 1 or nf.array.shape != (*f.mesh.n, 1):
        out.append("norm-not-one-component")
    if not (nf.mesh == f.mesh):
        out.append("norm-mesh-differs")
    if nf.unit != f.unit:
        out.append("norm-unit-differs")
    if not np.array_equal(nf.valid, f.valid) or nf.valid.dtype != np.bool_:
        out.append("norm-validity-differs")
    if np.shares_memory(nf.valid, f.valid):
        out.append("norm-validity-aliased")
    nv = [F(x) for x in nf.array.reshape(-1).tolist()]
    tol = F(1, 10 ** 12)
    for v, nn in zip(cells, nv):
        s = sumsq(v)
        if k == 1 and abs(nn - abs(v[0])) > F(1, 10 ** 15) * abs(v[0]):
            out.append("scalar-norm-not-abs")
        if nn < 0 or abs(nn * nn - s) > 2 * tol * s:
            out.append("norm-not-euclidean-length")
    orf = f.orientation
    if orf.nvdim != k or not (orf.mesh == f.mesh) or not np.array_equal(orf.valid, f.valid):
        out.append("orientation-metadata")
    oc = cells_frac(orf.array, k)
    for v, o, nn in zip(cells, oc, nv):
        s = sumsq(v)
        if s == 0 or nn <= ATOL * (1 - F(1, 10 ** 9)):
            if any(x != 0 for x in o):
                out.append("orientation-not-zero-below-threshold")
        elif nn >= ATOL * (1 + F(1, 10 ** 9)):
            if scaled_ok(v, o, F(1)):
                out.append("orientation-not-unit")
    # orientation * norm reproduces the field (library multiplication)
    st, prod = attempt(lambda: (orf * nf).array)
    if st != "ok":
        out.append("orientation-times-norm-raised")
    else:
        pc = cells_frac(prod, k)
        for v, p_, nn in zip(cells, pc, nv):
            lim = tol * sum(abs(x) for x in v) if nn > ATOL * (1 + F(1, 10 ** 9)) else ATOL * (1 + F(1, 10 ** 6))
            if any(abs(a - b) > lim for a, b in zip(v, p_)):
                out.append("orientation-times-norm")
    return nf, orf


def coq_vspec(v0):
    if v0["kind"] == "all":
        return "VAll"
    if v0["kind"] == "arr":
        return f"(VArr {g.bl(v0['l'])})"
    return "VNorm"


def apply_pre(f, pre):
    """change the geometry of the field's mesh in place, the way a user can"""
    kind = pre["kind"]
    dims = list(f.mesh.region.dims)
    if kind.endswith("scale"):
        arg = [fl(x) for x in pre["factor"]] if isinstance(pre["factor"], list) else fl(pre["factor"])
    elif kind.endswith("translate"):
        arg = [fl(x) for x in pre["vector"]]
    target = {"region": f.mesh.region, "mesh": f.mesh, "field": f}[kind.split("_")[0]]
    if kind.endswith("scale"):
        st, _ = attempt(lambda: target.scale(arg, inplace=True))
    elif kind.endswith("translate"):
        st, _ = attempt(lambda: target.translate(arg, inplace=True))
    else:
        a1, a2 = dims[pre["ax"][0]], dims[pre["ax"][1]]
        st, _ = attempt(lambda: target.rotate90(a1, a2, k=pre.get("k", 1), inplace=True))
    return st


def run_hist(c):
    rec = dict(kind="hist-" + c["mode"] + ("-bad" if c.get("bad") else ""), case=c, oracle=[], tags=[])
    n, k = c["n"], c["nvdim"]
    mesh = mk_mesh(c)
    out = rec["oracle"]
    kw = {}
    v0 = c["v0"]
    if v0["kind"] == "arr":
        kw["valid"] = np.array(v0["l"], dtype=bool).reshape(*n)
    elif v0["kind"] == "norm":
        kw["valid"] = "norm"
    elif v0["form"] == "None":
        kw["valid"] = None
    elif v0["form"] == "True":
        kw["valid"] = True
    dt = c.get("dtype")
    if dt:
        kw["dtype"] = np.dtype(dt)
    init_arr = arr_of(c["vals"], n, k, dt)
    if c["norm0"] is not None:
        kw["norm"] = py_spec(c["norm0"], n)
    st, f = attempt(lambda: df.Field(mesh, nvdim=k, value=init_arr.copy(), unit=c["unit"], **kw))
    rejected = st != "ok"
    nsetnorm = 0
    broken = False
    geo = None
    rt = {}          # values only known at run time (specifications / updates taken from the field itself)
    if not rejected:
        if c["norm0"] is not None:
            nsetnorm += 1
            oracle_setnorm(cells_frac(init_arr, k), cells_frac(f.array, k), spec_values(c["norm0"], mesh), out)
        elif not np.array_equal(f.array, init_arr):
            out.append("values-not-verbatim")
        if v0["kind"] == "norm":
            # validity = "norm" in the constructor is decided on the values the field ends up with
            # (values, then norm, then validity)
            nv0 = [F(x) for x in f.norm.array.reshape(-1).tolist()]
            for nn, vb in zip(nv0, f.valid.reshape(-1).tolist()):
                if (nn <= ATOL * (1 - F(1, 10 ** 9)) and vb) or (nn >= ATOL * (1 + F(1, 10 ** 9)) and not vb):
                    out.append("constructor-validity-not-from-final-norm")
        if not np.all(np.isfinite(f.array)):
            out.append("set-norm-result-not-finite")
            broken = True
        if c.get("pre") and not broken:
            st_pre = apply_pre(f, c["pre"])
            nn = [int(x) for x in f.mesh.n]
            if st_pre != "ok" or tuple(f.array.shape) != (*nn, k):
                # refused, or the object is left with an array that no longer fits its mesh: nothing
                # the property speaks about can be observed
                rec.update(obs=dict(pre=st_pre, skipped=True), coq=None, key=f'geom/{c["pre"]["kind"]}/skipped',
                           size=len(c["vals"]), nontrivial=False)
                return rec
            n, mesh = nn, f.mesh
            geo = dict(p1=js([F(float(x)) for x in np.atleast_1d(mesh.region.pmin)]),
                       p2=js([F(float(x)) for x in np.atleast_1d(mesh.region.pmax)]),
                       vals=js(f.array.reshape(-1)), valid=[bool(b) for b in f.valid.reshape(-1)])
            for o in c["ops"]:
                if o["op"] == "setnorm":
                    # thresholds / offsets of the position function refer to the geometry as it is NOW
                    fix_step(o["spec"], geo["p1"], geo["p2"], n, random.Random(7))
        for oi, o in enumerate([] if broken else c["ops"]):
            before = f.array.copy()
            if o["op"] == "setnorm":
                if o["spec"]["kind"] == "own":
                    sp, own_ts = own_spec(f, o["spec"])
                    rt[oi] = [S(t) for t in own_ts]
                else:
                    sp, own_ts = py_spec(o["spec"], n), None
                st, _ = attempt(lambda: setattr(f, "norm", sp))
                if st != "ok":
                    rejected = True
                    if not np.array_equal(f.array, before):
                        out.append("rejected-norm-changed-values")
                    break
                nsetnorm += 1
                if not np.all(np.isfinite(f.array)):
                    out.append("set-norm-result-not-finite")
                    broken = True
                    break
                oracle_setnorm(cells_frac(before, k), cells_frac(f.array, k),
                               own_ts if own_ts is not None else spec_values(o["spec"], mesh), out)
            elif o["op"] == "update" and o["form"] in ("alias_rev", "alias_self"):
                # the new values are a view of the field's own storage
                view = f.array[::-1] if o["form"] == "alias_rev" else f.array
                new = np.array(view, copy=True)
                rt[oi] = js(new.reshape(-1))
                if o.get("via") == "method":
                    st, _ = attempt(lambda: f.update_field_values(view))
                else:
                    st, _ = attempt(lambda: setattr(f, "array", view))
                if st != "ok":
                    rejected = True
                    break
                if not np.array_equal(f.array, new):
                    out.append("update-from-own-view-not-verbatim")
            elif o["op"] == "update":
                try:
                    new = arr_of(o["vals"], n, k, dt)
                except ValueError:
                    new = np.array([fl(x) for x in o["vals"]], dtype=float).reshape(-1, k)
                if o["form"] == "array" or new.shape != (*n, k):
                    st, _ = attempt(lambda: f.update_field_values(new.copy()))
                else:
                    st, _ = attempt(lambda: setattr(f, "array", new.copy()))
                if st != "ok":
                    rejected = True
                    if not np.array_equal(f.array, before):
                        out.append("rejected-update-changed-values")
                    break
                # an earlier norm is not re-applied
                if not np.array_equal(f.array, new):
                    out.append("update-after-norm-not-verbatim")
            elif o["op"] == "read":
                # reading the views in the middle of a history: checked like the final ones, and they
                # must not change the values
                oracle_views(f, out)
                if not np.array_equal(f.array, before):
                    out.append("reading-views-changed-values")
            elif o["op"] == "inplace":
                w = o["w"]
                a = f.array            # the array the getter hands out; written in place
                if w["kind"] == "scale":
                    a[...] *= fl(w["c"])
                elif w["kind"] == "cell":
                    a[tuple(w["idx"])] = [fl(x) for x in w["v"]]
                elif w["kind"] == "comp":
                    if w["mul"]:
                        a[..., w["comp"]] *= fl(w["c"])
                    else:
                        a[..., w["comp"]] = fl(w["c"])
                else:
                    a[w["i"]] = [fl(x) for x in w["v"]]
                if f.array is not a:
                    out.append("array-getter-returns-copy")
            else:
                st, _ = attempt(lambda: setattr(f, "valid", "norm"))
                if st != "ok":
                    rejected = True
                    break
                if not np.array_equal(f.array, before):
                    out.append("valid-setter-changed-values")
    # Gallina
    ops_c = []
    for oi, o in enumerate(c["ops"]):
        if o["op"] == "read":
            continue
        if o["op"] == "inplace":
            w = o["w"]
            if w["kind"] == "scale":
                ops_c.append(f"PWrite (WScale {g.q(w['c'])})")
            elif w["kind"] == "cell":
                j = 0
                for i, m in zip(w["idx"], n):
                    j = j * m + i
                ops_c.append(f"PWrite (WCell {g.nat(j)} {g.ql(w['v'])})")
            elif w["kind"] == "comp":
                ops_c.append(f"PWrite (WComp {g.nat(w['comp'])} {g.q(w['c'])} {g.b(w['mul'])})")
            else:
                stride = math.prod(n[1:])
                ops_c.append(f"PWrite (WSlice {g.nat(w['i'] * stride)} {g.nat((w['i'] + 1) * stride)} {g.ql(w['v'])})")
            continue
        if o["op"] == "setnorm" and o["spec"]["kind"] == "own":
            ops_c.append(f"PSetNorm (SArr {g.ql(rt.get(oi, []))})")
        elif o["op"] == "setnorm":
            ops_c.append(f"PSetNorm {coq_spec(o['spec'])}")
        elif o["op"] == "update" and o["form"] in ("alias_rev", "alias_self"):
            ops_c.append(f"PUpdate {g.ql(rt.get(oi, []))}")
        elif o["op"] == "update":
            ops_c.append(f"PUpdate {g.ql(o['vals'])}")
        else:
            ops_c.append("PSetValid VNorm")
    if geo is not None:
        # the model starts from the state read back after the in-place change of the geometry
        head = (f'CHist {g.ql(geo["p1"])} {g.ql(geo["p2"])} {g.zl(n)} {g.nat(k)} {g.opt(c["unit"], g.s)} '
                f'{g.ql(geo["vals"])} None (VArr {g.bl(geo["valid"])}) {g.lst(ops_c)} ')
    else:
        head = (f'CHist {g.ql(c["p1"])} {g.ql(c["p2"])} {g.zl(n)} {g.nat(k)} {g.opt(c["unit"], g.s)} '
                f'{g.ql(c["vals"])} {"None" if c["norm0"] is None else "(Some " + coq_spec(c["norm0"]) + ")"} '
                f'{coq_vspec(v0)} {g.lst(ops_c)} ')
    if broken:
        rec.update(obs=dict(nonfinite=True), coq=None)
    elif rejected:
        rec.update(obs=dict(rejected=True), coq=head + "None")
        if not c.get("bad"):
            out.append("well-formed-history-rejected")
    else:
        nf, orf = oracle_views(f, out)
        pmin = [F(float(x)) for x in np.atleast_1d(nf.mesh.region.pmin)]
        pmax = [F(float(x)) for x in np.atleast_1d(nf.mesh.region.pmax)]
        obs = dict(arr=js(f.array.reshape(-1)), valid=[bool(b) for b in f.valid.reshape(-1)],
                   norm=js(nf.array.reshape(-1)), norm_nvdim=int(nf.nvdim), norm_n=[int(x) for x in nf.mesh.n],
                   norm_pmin=js(pmin), norm_pmax=js(pmax), norm_unit=nf.unit,
                   norm_valid=[bool(b) for b in nf.valid.reshape(-1)],
                   orient=js(orf.array.reshape(-1)), orient_nvdim=int(orf.nvdim),
                   orient_valid=[bool(b) for b in orf.valid.reshape(-1)])
        o_c = (f'(Some (mkObs {g.ql(obs["arr"])} {g.bl(obs["valid"])} {g.ql(obs["norm"])} {g.nat(obs["norm_nvdim"])} '
               f'{g.zl(obs["norm_n"])} {g.ql(obs["norm_pmin"])} {g.ql(obs["norm_pmax"])} {g.opt(obs["norm_unit"], g.s)} '
               f'{g.bl(obs["norm_valid"])} {g.ql(obs["orient"])} {g.nat(obs["orient_nvdim"])} {g.bl(obs["orient_valid"])}))')
        rec.update(obs=obs, coq=head + o_c)
    rec["oracle"] = sorted(set(out))
    rec["tags"] = sorted(set(rec["tags"]))
    nzero = sum(1 for j in range(0, len(c["vals"]), k) if all(F(x) == 0 for x in c["vals"][j:j + k]))
    skinds = "".join((o.get("spec", {}).get("kind", o["op"])[0]) for o in c["ops"])
    extra = c.get("dtype") or (c.get("near") or {}).get("regime", "") or (c.get("pre") or {}).get("kind", "")
    rec["key"] = (f'hist/{c["mode"]}{extra}/{len(n)}d/{k}/{(c["norm0"] or {}).get("kind")}/{v0["kind"]}/{skinds}/'
                  f'z{min(nzero, 2)}/{"rej" if rejected else "ok"}/{hash(tuple(c["vals"])) % 7}')
    rec["size"] = len(c["vals"]) * (1 + len(c["ops"]))
    rec["nontrivial"] = bool(nsetnorm or nzero or c["mode"] != "std")
    return rec


def run_rel(c):
    rec = dict(kind="rel", case=c, oracle=[], tags=[])
    k = c["nvdim"]
    ncell = len(c["ts"])
    mesh = df.Mesh(p1=0.0, p2=float(ncell), n=ncell)
    a = np.array([fl(x) for x in c["vals"]], dtype=float).reshape(ncell, k)
    ts = [F(t) for t in c["ts"]]
    if c["const"]:
        ts = [ts[0]] * ncell
    f = df.Field(mesh, nvdim=k, value=a.copy())
    out = rec["oracle"]
    nf, orf = oracle_views(f, out)
    before = cells_frac(f.array, k)
    spec = float(ts[0]) if c["const"] else np.array([float(t) for t in ts])
    f.norm = spec
    oracle_setnorm(before, cells_frac(f.array, k), ts, out)
    obs = dict(norm=js(nf.array.reshape(-1)), set=js(f.array.reshape(-1)), orient=js(orf.array.reshape(-1)))
    rec.update(obs=obs, coq=(f'CRel {g.nat(k)} {g.ql(c["vals"])} {g.ql([S(t) for t in ts])} {g.ql(obs["norm"])} '
                             f'{g.ql(obs["set"])} {g.ql(obs["orient"])}'))
    rec["oracle"] = sorted(set(out))
    rec["key"] = f'rel/{k}/{ncell}/{c["const"]}/{hash(tuple(c["vals"])) % 50}'
    rec["size"] = len(c["vals"])
    return rec


def run_big(c):
    rec = dict(kind="big", case=c, oracle=[], tags=[], coq=None)
    n, k = c["n"], c["nvdim"]
    nd = len(n)
    mesh = df.Mesh(p1=c["p1"], p2=c["p2"], n=n)
    v = [float(F(x)) for x in c["vec"]][:k]
    if not any(v):
        v[0] = 2.0
    f = df.Field(mesh, nvdim=k, value=v if k > 1 else v[0])
    # exact cell centres (dyadic mesh): lo + (i + 1/2) * cell
    lo = np.minimum(c["p1"], c["p2"])
    cw = (np.maximum(c["p1"], c["p2"]) - lo) / np.array(n)
    axes = [lo[a] + (np.arange(n[a]) + 0.5) * cw[a] for a in range(nd)]
    pts = np.stack(np.meshgrid(*axes, indexing="ij"), axis=-1)
    r = np.sqrt(np.sum(pts * pts, axis=-1))
    fn = c["fn"]
    if fn == "norm_lt":
        R = 0.61803 * float(r.max())
        while np.min(np.abs(r - R)) < 1e-9 * R:
            R *= 1.0000001
        spec = lambda p: 3.0 if np.linalg.norm(p) < R else 1.5      # noqa: E731
        want = np.where(r < R, 3.0, 1.5)
    elif fn == "all_lt":
        a = float(axes[0][n[0] // 2] + cw[0] / 4)

        def spec(p):
            return 2.0 if np.all(np.asarray(p) < a) else 0.5
        want = np.where(np.all(pts < a, axis=-1), 2.0, 0.5)
    elif fn == "dot":
        def spec(p):
            p = np.asarray(p, dtype=float)
            return 1.0 + np.sum(np.square(p))
        want = 1.0 + np.sum(pts * pts, axis=-1)
    else:
        def spec(p):
            return 0.25 + np.max(np.abs(p))          # Chebyshev length of the point
        want = 0.25 + np.max(np.abs(pts), axis=-1)
    before = f.array.copy()
    t0 = time.time()
    st, _ = attempt(lambda: setattr(f, "norm", spec))
    obs = dict(status=st, seconds=round(time.time() - t0, 2), cells=int(np.prod(n)),
               distinct_targets=int(len(np.unique(want))))
    if st != "ok":
        rec["oracle"].append("required-call-raised")
    else:
        got = f.array
        if not np.all(np.isfinite(got)):
            rec["oracle"].append("set-norm-result-not-finite")
        else:
            length = np.sqrt(np.sum(got * got, axis=-1))
            if np.any(np.abs(length - want) > 1e-12 * want):
                rec["oracle"].append("set-norm-length")
                j = np.unravel_index(int(np.argmax(np.abs(length - want))), want.shape)
                obs["worst_cell"] = [int(x) for x in j]
                obs["worst_got_want"] = [float(length[j]), float(want[j])]
            n0 = math.sqrt(sum(x * x for x in v))
            if np.any(np.abs(got * n0 - before * want[..., np.newaxis]) > 1e-12 * n0 * want[..., np.newaxis]):
                rec["oracle"].append("set-norm-direction")
    rec.update(obs=obs, key=f"big/{len(n)}d/{k}/{fn}/{st}", size=int(np.prod(n)))
    return rec


def run_intdtype(c):
    rec = dict(kind="intdtype", case=c, oracle=[], tags=[], coq=None)
    k = c["nvdim"]
    mesh = df.Mesh(p1=0.0, p2=2.0, n=2)
    f = df.Field(mesh, nvdim=k, value=[int(F(x)) for x in c["vals"]], dtype=np.int64)
    st, r = attempt(lambda: f.orientation.array)
    obs = dict(status=st)
    if st != "ok":
        rec["oracle"].append("orientation-raised-int-dtype")
        obs["err"] = r
    else:
        v = [F(x) for x in c["vals"]]
        for o in cells_frac(r, k):
            if scaled_ok(v, o, F(1)):
                rec["oracle"].append("orientation-not-unit")
        if r.dtype.kind != "f":
            rec["oracle"].append("orientation-not-floating-point")
    # assigning a norm to an integer-typed field (known finding: raises UFuncTypeError)
    before = f.array.copy()
    st2, r2 = attempt(lambda: setattr(f, "norm", 2 * int(math.isqrt(sum(int(F(x)) ** 2 for x in c["vals"])))))
    obs["setnorm_status"] = st2
    if st2 != "ok":
        rec["oracle"].append("norm-assignment-raised-int-dtype")
        rec["tags"].append("C15-int-dtype-norm-setter")
        if not np.array_equal(f.array, before):
            rec["oracle"].append("rejected-norm-changed-values")
    else:
        # target = twice the (integer) length: the exact result 2*v is representable in any dtype
        if [F(x) for x in f.array.reshape(-1).tolist()] != [2 * F(x) for x in c["vals"]] * 2:
            rec["oracle"].append("set-norm-length")
    rec.update(obs=obs, key=f"intdtype/{k}/{st}/{st2}", size=k)
    return rec


def run_rejected(c):
    rec = dict(kind="rejected", case=c, oracle=[], tags=[], coq=None)
    k = c["nvdim"]
    mesh = df.Mesh(p1=(0.0, 0.0), p2=(2.0, 1.0), n=(2, 1))
    vals = [int(F(x)) for x in c["vals"]]
    f = df.Field(mesh, nvdim=k, value=vals if k > 1 else vals[0])
    before = f.array.copy()
    bad = {"str": "abc", "shape": np.ones(5), "vector": (1.0, 2.0, 3.0, 4.0, 5.0)}[c["bad"]]
    st, r = attempt(lambda: setattr(f, "norm", bad))
    obs = dict(status=st, unchanged=bool(np.array_equal(f.array, before)))
    if st == "ok":
        rec["oracle"].append("malformed-norm-accepted")
    elif not obs["unchanged"]:
        rec["oracle"].append("rejected-norm-changed-values")
    rec.update(obs=obs, key=f"rejected/{k}/{c['bad']}/{st}", size=k)
    return rec


def run_case(c):
    fn = {"hist": run_hist, "rel": run_rel, "intdtype": run_intdtype, "big": run_big}.get(c["kind"], run_rejected)
    try:
        return fn(c)
    except Exception as e:  # noqa: BLE001
        # a public call that the property requires to succeed (constructor on well-formed data, norm
        # getter, orientation, …) raised: that is a failing input, not an infrastructure problem
        return dict(kind=c["kind"], case=c, obs=dict(exception=type(e).__name__), coq=None,
                    oracle=["required-call-raised"], tags=[], key=f'{c["kind"]}/exception/{type(e).__name__}',
                    size=len(c.get("vals", [])))


def stats(records):
    out = dict(directed_core=sum(1 for r in records if r["case"].get("core")), hist=0, rel=0, rejected_histories=0, setnorm_ops=0, update_ops=0,
               subthreshold_or_threshold=0, constructor_norm=0, valid_norm=0)
    for r in records:
        c = r["case"]
        if c["kind"] == "hist":
            out["hist"] += 1
            out["rejected_histories"] += int(bool(r["obs"].get("rejected")))
            out["setnorm_ops"] += sum(1 for o in c["ops"] if o["op"] == "setnorm")
            out["update_ops"] += sum(1 for o in c["ops"] if o["op"] == "update")
            out["subthreshold_or_threshold"] += int(c["mode"] in ("sub", "thr"))
            out["near_target"] = out.get("near_target", 0) + int(c["mode"] == "near")
            out["integer_dtype"] = out.get("integer_dtype", 0) + int(c["mode"] == "int")
            out["geometry_changed_in_place"] = out.get("geometry_changed_in_place", 0) + int(bool(c.get("pre")))
            out["inplace_writes"] = out.get("inplace_writes", 0) + sum(1 for o in c["ops"] if o["op"] == "inplace")
            allspecs = [c["norm0"]] + [o.get("spec") for o in c["ops"]]
            out["field_specs"] = out.get("field_specs", 0) + sum(1 for sp in allspecs if sp and sp["kind"] == "field")
            out["dict_specs"] = out.get("dict_specs", 0) + sum(1 for sp in allspecs if sp and sp["kind"] == "dict")
            out["constructor_norm"] += int(c["norm0"] is not None)
            out["valid_norm"] += int(c["v0"]["kind"] == "norm")
        elif c["kind"] == "rel":
            out["rel"] += 1
    return out
