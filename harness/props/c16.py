"""C16 - VTK output puts each value in the grid cell a VTK reader finds at that position.

Case kinds
  grid   : field -> Field.to_vtk() -> arrays read with vtk_to_numpy; probe points located by two
           independent VTK consumers (vtkRectilinearGrid.FindCell, vtkCellLocator.FindCell)
           (Coq: to_vtk f, locate, carries)
  round  : field -> Field.to_file(.vtk, bin|txt|xml) -> (a) bare VTK reader, (b) Field.from_file
           (Coq: write_vtk f related to (a) per representation; from_vtk of (a) equal to (b))
  read   : grid assembled by hand and written by the bare VTK writers (missing / extra /
           re-ordered arrays, non 0/1 flags, point data only) -> Field.from_file
           (Coq: from_vtk of what the bare reader sees)
  legacy : file in the point-data layout of discretisedfield <= 0.61 written by an independent
           writer (incl. truncated / degenerate ones) -> Field.from_file     (Coq: from_legacy)

Findings exercised (tags), reported by the oracle:
  C16-scalar-label-lost  nvdim=1 field with an explicit label: label is not stored, read back None
  C16-label-field        component label 'field' collides with the reserved vector array
  C16-legacy-far-single-point  legacy file with a single-point axis at |x| >= 1e8: the 1 nm default cell
                         vanishes in float arithmetic, Region raises (zero edge) and the file is not read
  C16-txt-subregions     text form rounds the corners to 11 digits; the exact side-car subregions are
                         then rejected by the subregion setter and the whole read raises ValueError
"""
import itertools
import pathlib
import random
import json
import math
import os
import shutil
import tempfile
from fractions import Fraction as F

import numpy as np
import vtkmodules.vtkCommonCore as vcc
from vtkmodules.util import numpy_support as vns
from vtkmodules.vtkCommonDataModel import vtkCellLocator, vtkRectilinearGrid
from vtkmodules.vtkIOLegacy import vtkRectilinearGridReader, vtkRectilinearGridWriter
from vtkmodules.vtkIOXML import vtkXMLRectilinearGridReader, vtkXMLRectilinearGridWriter

from harness import gallina as g
from harness.util import import_df, attempt, relayout, LAYOUTS

df = import_df()
vcc.vtkObject.GlobalWarningDisplayOff()      # damaged files: VTK's error text is not an observable

TMP = tempfile.mkdtemp(prefix="c16_")
_counter = [0]

T_SCALAR = "C16-scalar-label-lost"
T_FIELD = "C16-label-field"
T_TXTSUB = "C16-txt-subregions"
T_LEGFAR = "C16-legacy-far-single-point"
DTYPES = {"int32": np.int32, "int64": np.int64, "uint8": np.uint8, "float32": np.float32}

SCALES = [1e-12, 1e-9, 1e-9, 1e-6, 1e-3, 1.0, 1e3, 1e6]
REPS = ["bin", "txt", "xml", "bin8"]
PYTH = {
    1: [(1,), (2,), (0,)],
    2: [(3, 4), (5, 12), (8, 15), (0, 1), (7, 24), (0, 0)],
    3: [(1, 2, 2), (2, 3, 6), (4, 4, 7), (1, 4, 8), (2, 6, 9), (0, 3, 4), (0, 0, 1), (6, 6, 7), (3, 4, 12),
        (0, 0, 0)],
    4: [(1, 1, 1, 1), (1, 2, 2, 4), (2, 4, 5, 6), (1, 1, 3, 5), (2, 2, 4, 5), (0, 1, 2, 2), (0, 0, 0, 0)],
}
LABELS = {
    1: [None, None, None, None, ["s"]],
    2: [None, None, ["p", "q"], ["a b", "c"], ["field", "b"], ["mx", "my"], ["u", "v"], ["y", "x"]],
    3: [None, None, None, ["a", "b", "c"], ["mx", "my", "mz"], ["a", "field", "c"], ["x-component", "y%c", "z z"],
        ["p", "q", "r"], ["z", "x", "y"], ["Norm", "Valid", "Field"]],
    4: [None, ["a", "b", "c", "d"], ["v3", "v2", "v1", "v0"], ["t", "x", "y", "z"]],
}


def S(x):
    return g.qs(x)


def fl(s):
    return float(F(s))


def fls(xs):
    return [fl(x) for x in xs]


def newdir():
    _counter[0] += 1
    d = os.path.join(TMP, f"d{_counter[0]}")
    os.makedirs(d)
    return d


# ------------------------------------------------------------------ generators
def gen_mesh(rng, exact, nmax, nd=3, cells_max=48):
    while True:
        s = 1.0 if exact else rng.choice(SCALES)
        p1, p2, n = [], [], []
        for _ in range(nd):
            k = rng.randint(1, nmax)
            if exact:
                cell = F(rng.choice([1, 3, 5, 7]), 2 ** rng.randint(0, 4))
                lo = F(rng.randint(-256, 256), 8)
                hi = lo + k * cell
            else:
                off = rng.choice([0.0, 0.0, round(rng.uniform(-50, 50), 2), round(rng.uniform(-5000, 5000), 1),
                                  rng.uniform(-50, 50)])
                ext = round(rng.uniform(0.5, 80), rng.choice([0, 1, 2, 15]))
                lo = F(off * s)
                hi = F((off + ext) * s)
                if hi == lo:
                    hi = F((off + 1.0) * s)
            if rng.random() < 0.4:
                lo, hi = hi, lo
            p1.append(lo)
            p2.append(hi)
            n.append(k)
        if math.prod(n) <= cells_max:
            return dict(exact=exact, p1=[S(x) for x in p1], p2=[S(x) for x in p2], n=n)


def gen_mesh_int(rng, nmax, cells_max=48):
    """integer corners (handed over as Python ints), cells that may be fractional (1/2, 1/3, 3/4 ...)"""
    while True:
        p1, p2, n, dy = [], [], [], True
        for _ in range(3):
            k = rng.randint(1, nmax)
            lo = rng.randint(-20, 20)
            hi = lo + rng.randint(1, 9)
            dy = dy and (F(hi - lo, k).denominator & (F(hi - lo, k).denominator - 1)) == 0
            if rng.random() < 0.4:
                lo, hi = hi, lo
            p1.append(F(lo))
            p2.append(F(hi))
            n.append(k)
        if math.prod(n) <= cells_max:
            return dict(exact=dy, p1=[S(x) for x in p1], p2=[S(x) for x in p2], n=n)


def gen_values_dtype(rng, n, nv, dtype):
    """values that the dtype holds exactly; integer dtypes reach the range where squares overflow the dtype"""
    cells = math.prod(n)
    if dtype == "float32":
        vals = []
        for _ in range(cells):
            t = list(rng.choice(PYTH[nv]))
            rng.shuffle(t)
            k = rng.randint(1, 5)
            vals += [F(k * x * rng.choice([1, -1])) for x in t]
        return True, [S(v) for v in vals]
    lim = {"int32": 60000, "int64": 3 * 10 ** 9, "uint8": 255}[dtype]
    lo = 0 if dtype == "uint8" else -lim
    return False, [S(F(rng.choice([rng.randint(lo, lim), lim, lo, rng.randint(-9, 9) if lo else rng.randint(0, 9)])))
                   for _ in range(cells * nv)]


OPS = ["translate", "scale", "region-translate", "region-scale", "rot", "write-cell", "write-all", "valid-cell",
       "valid-set"]


def gen_ops(rng):
    ops = []
    for kind in rng.sample(OPS, rng.randint(1, 4)):
        if kind in ("translate", "region-translate"):
            ops.append([kind, [S(F(rng.randint(-40, 40), 8)) for _ in range(3)]])
        elif kind in ("scale", "region-scale"):
            ops.append([kind, [S(F(rng.choice([1, 2, 3, -1, -2, 5]), rng.choice([1, 2, 4]))) for _ in range(3)]])
        elif kind == "rot":
            a, b = rng.sample([0, 1, 2], 2)
            ops.append([kind, a, b, rng.choice([1, 3, -1, 2, 5])])
        else:
            ops.append([kind])
    return ops


def variants(rng, c, f):
    """argument-type / representation variants sprinkled over the regular streams"""
    if rng.random() < 0.25:
        dt = rng.choice(list(DTYPES))
        f["dtype"] = dt
        f["pyth"], f["vals"] = gen_values_dtype(rng, f["mesh"]["n"], f["nv"], dt)
    if rng.random() < 0.2 and len(f["mesh"]["n"]) == 3:
        f["mesh"] = gen_mesh_int(rng, max(f["mesh"]["n"]), cells_max=math.prod(f["mesh"]["n"]) + 12)
        cells = math.prod(f["mesh"]["n"])
        if f.get("dtype"):
            f["pyth"], f["vals"] = gen_values_dtype(rng, f["mesh"]["n"], f["nv"], f["dtype"])
        else:
            f["pyth"], f["vals"] = gen_values(rng, f["mesh"]["n"], f["nv"], True)
        f["valid"] = gen_valid(rng, cells)
        c["intcorners"] = True
        if "probes" in c:
            c["probes"] = gen_probes(rng, f["mesh"], len(c["probes"]))
        if "subs" in c and c["subs"]:
            c["subs"] = gen_subs(rng, f["mesh"])
    c["pathlib"] = rng.random() < 0.5
    f["layout"] = rng.choice(LAYOUTS)      # memory layout / flags of the arrays handed to Field
    return c


def gen_values(rng, n, nv, exact):
    """(pyth, flat C-order list of 'n/d' strings)"""
    cells = math.prod(n)
    pyth = rng.random() < 0.5
    vals = []
    if pyth:
        m = F(rng.randint(1, 9)) * F(2) ** rng.randint(-3, 3)
        for _ in range(cells):
            t = list(rng.choice(PYTH[nv]))
            rng.shuffle(t)
            k = rng.randint(1, 5)
            vals += [m * k * x * rng.choice([1, -1]) for x in t]
    elif exact:
        vals = [F(rng.randint(-4096, 4096), 64) for _ in range(cells * nv)]
    else:
        ms = rng.choice([1.0, 1e-3, 8e5, 1e6])
        vals = [F(round(rng.uniform(-1, 1), 6) * ms) for _ in range(cells * nv)]
    return pyth, [S(v) for v in vals]


def gen_valid(rng, cells):
    kind = rng.choice(["all", "none", "random", "random", "random", "one"])
    if kind == "all":
        return [True] * cells
    if kind == "none":
        return [False] * cells
    if kind == "one":
        v = [True] * cells
        v[rng.randrange(cells)] = False
        return v
    return [rng.random() < 0.5 for _ in range(cells)]


def gen_subs(rng, m):
    """aligned boxes given by index ranges"""
    p1, p2 = [F(x) for x in m["p1"]], [F(x) for x in m["p2"]]
    lo = [min(a, b) for a, b in zip(p1, p2)]
    hi = [max(a, b) for a, b in zip(p1, p2)]
    n = m["n"]
    subs = []
    if not m["exact"] and max(abs(x) for x in lo + hi) > 100:
        # the setter's alignment tolerance is absolute (1e-12): beyond ~1e2 the float noise of a lattice
        # point is no longer far below it and the decision is C14's near-threshold business
        return []
    for name in rng.sample(["a", "b", "core", "r 1"], rng.randint(1, 2)):
        a, b = [], []
        for ax in range(len(n)):
            i0 = rng.randint(0, n[ax] - 1)
            i1 = rng.randint(i0 + 1, n[ax])
            if m["exact"]:
                c = (hi[ax] - lo[ax]) / n[ax]
                a.append(lo[ax] + i0 * c)
                b.append(lo[ax] + i1 * c)
            else:
                flo, fhi = float(lo[ax]), float(hi[ax])
                c = (fhi - flo) / n[ax]
                a.append(F(flo) if i0 == 0 else F(flo + i0 * c))
                b.append(F(fhi) if i1 == n[ax] else F(flo + i1 * c))
        subs.append([name, [S(x) for x in a], [S(x) for x in b]])
    if not m["exact"]:
        # float lattice points at large offsets can miss the (absolute) alignment tolerance of the
        # subregion setter (C14's subject): keep only what the mesh accepts
        st, _ = attempt(lambda: df.Mesh(region=df.Region(p1=fls(m["p1"]), p2=fls(m["p2"])), n=m["n"],
                                        subregions={nm: df.Region(p1=fls(a_), p2=fls(b_)) for nm, a_, b_ in subs}))
        if st != "ok":
            return []
    return subs


def gen_field(rng, exact, nmax, nd=3, nv=None, cells_max=48):
    m = gen_mesh(rng, exact, nmax, nd=nd, cells_max=cells_max)
    nv = nv or rng.choice([1, 2, 3, 3, 4])
    pyth, vals = gen_values(rng, m["n"], nv, exact)
    return dict(mesh=m, nv=nv, vdims=rng.choice(LABELS[nv]), pyth=pyth, vals=vals,
                valid=gen_valid(rng, math.prod(m["n"])))


def geom(m):
    p1, p2 = [F(x) for x in m["p1"]], [F(x) for x in m["p2"]]
    lo = [min(a, b) for a, b in zip(p1, p2)]
    hi = [max(a, b) for a, b in zip(p1, p2)]
    return lo, hi, [(h - l) / k for l, h, k in zip(lo, hi, m["n"])]


def gen_probes(rng, m, count):
    lo, hi, cell = geom(m)
    n = m["n"]
    out = []

    def interior():
        return [lo[a] + (rng.randint(0, n[a] - 1) + F(rng.randint(8, 1016), 1024)) * cell[a] for a in range(3)]
    classes = ["centre", "interior", "interior", "interior", "far"]
    if m["exact"]:
        classes += ["face", "face", "vertex", "pmax", "pmin", "edge-out"]
    for q in range(count):
        cls = "centre" if q == 0 else rng.choice(classes)
        p = interior()
        a = rng.randrange(3)
        if cls == "centre":
            p = [lo[b] + (rng.randint(0, n[b] - 1) + F(1, 2)) * cell[b] for b in range(3)]
        elif cls == "face":
            p[a] = lo[a] + rng.randint(0, n[a]) * cell[a]
        elif cls == "vertex":
            p = [lo[b] + rng.randint(0, n[b]) * cell[b] for b in range(3)]
        elif cls == "pmax":
            p = list(hi)
        elif cls == "pmin":
            p = list(lo)
        elif cls == "far":
            p[a] = rng.choice([lo[a] - 3 * cell[a], hi[a] + 2 * cell[a]])
        elif cls == "edge-out":
            p[a] = rng.choice([lo[a] - cell[a] / 1024, hi[a] + cell[a] / 1024])
        if not m["exact"]:
            p = [F(float(x)) for x in p]
        out.append([cls, [S(x) for x in p]])
    return out


def hand_field(p1, p2, n, nv, vdims, rng, exact=True, vals=None, valid=None, negative=False, zeros=False):
    """a field written down by hand (mesh, labels) with values from the core's fixed generator"""
    m = dict(exact=exact, p1=[S(x) for x in p1], p2=[S(x) for x in p2], n=list(n))
    cells = math.prod(n)
    if vals is None:
        vals = [F(rng.randint(-4096, 4096), 64) for _ in range(cells * nv)]
        if negative:
            vals = [-abs(v) - 1 if i % 2 == 0 else v for i, v in enumerate(vals)]
        if zeros:
            for cidx in range(0, cells, 2):
                vals[cidx * nv:(cidx + 1) * nv] = [F(0)] * nv
    if valid is None:
        valid = [(i * 7 + 3) % 5 not in (0, 3) for i in range(cells)]
    return dict(mesh=m, nv=nv, vdims=vdims, pyth=False, vals=[S(v) for v in vals], valid=list(valid))


def gen_overwrite(rng, nmax, cmax, rep, what):
    """write A to p, read p, write B (other values / shape / labels / subregions) to p, read p"""
    a = gen_field(rng, True, nmax, cells_max=cmax, nv=rng.choice([1, 2, 3, 3, 4]))
    if a["nv"] == 1 or (a["vdims"] and "field" in a["vdims"]):
        a["vdims"] = None
    subs_a = gen_subs(rng, a["mesh"]) if rng.random() < 0.5 else []
    if what == "shape":
        b = gen_field(rng, True, nmax, cells_max=cmax, nv=rng.choice([1, 2, 3, 4]))
    else:
        b = dict(a, mesh=dict(a["mesh"]))
        b["pyth"], b["vals"] = gen_values(rng, a["mesh"]["n"], a["nv"], True)
        b["valid"] = gen_valid(rng, math.prod(a["mesh"]["n"]))
        if what == "labels" and a["nv"] > 1:
            b["vdims"] = [["q", "p"], ["c3", "c1", "c2"], ["w", "z", "y", "x"]][a["nv"] - 2]
    if b["nv"] == 1 or (b["vdims"] and "field" in b["vdims"]):
        b["vdims"] = None
    subs_b = gen_subs(rng, b["mesh"]) if (what == "subs" or rng.random() < 0.3) else []
    return dict(kind="overwrite", what=what, rep=rep, a=a, subs_a=subs_a, b=b, subs_b=subs_b,
                pathlib=rng.random() < 0.5)


def directed_core():
    """Seed-, tier- and run-independent cases: one small group per mechanism a check of this property has
    been confronted with (seeded changes of rounds a-e and the repaired defects).  Built from a FIXED
    generator and hand-written meshes / labels; the random streams follow after it."""
    rng = random.Random(424242)
    core = []
    R3 = ["bin", "txt", "xml"]
    box = ((F(-3, 2), F(1, 4), F(2)), (F(3, 2), F(13, 4), F(7, 2)))      # anisotropic 2x3x2, cells 3/2, 1, 3/4

    def fld(nv, vdims, n=(2, 3, 2), **kw):
        return hand_field(box[0], box[1], n, nv, vdims, rng, **kw)
    # labels: order (a1), substrings of 'norm' (d2), '-component' endings (e3), prefixes of one another
    for k, lab in enumerate([["mz", "mx", "my"], ["r", "phi", "z"], ["m", "n"], ["no", "rm", "or", "nor"],
                             ["x-component", "y-component", "z-component"], ["b", "a"], ["m", "mm", "mmm"],
                             ["orm", "z-component"]]):
        f = fld(len(lab), lab)
        core.append(dict(kind="round", field=f, rep=R3[k % 3], subs=[], save=True))
        core.append(dict(kind="grid", field=f, probes=gen_probes(rng, f["mesh"], 5)))
    # signed scalar: the norm array is |value| (a2); fully valid fields with exactly-zero cells (c2)
    for k in range(3):
        f = fld(1, None, negative=True)
        core.append(dict(kind="grid", field=f, probes=gen_probes(rng, f["mesh"], 6)))
        core.append(dict(kind="round", field=f, rep=R3[k], subs=[], save=True))
    for k, nv in enumerate([1, 3, 2]):
        f = fld(nv, None, zeros=True, valid=[True] * 12)
        core.append(dict(kind="round", field=f, rep=R3[k], subs=[], save=True))
        core.append(dict(kind="grid", field=f, probes=gen_probes(rng, f["mesh"], 4)))
    # validity flags in VTK cell order (b2): non-uniform masks on meshes with >1 cell along >= 2 axes
    for n in [(2, 3, 2), (3, 2, 1), (1, 2, 3), (3, 1, 2)]:
        cells = math.prod(n)
        f = hand_field(box[0], box[1], n, 2, ["u", "v"], rng, valid=[i % 3 == 1 or i == cells - 1 for i in range(cells)])
        core.append(dict(kind="grid", field=f, probes=gen_probes(rng, f["mesh"], 8)))
        core.append(dict(kind="round", field=f, rep=R3[sum(n) % 3], subs=[], save=True))
    # default representation spelled / unspelled is binary and exact (b1): numbers needing > 11 digits
    p1s = (0.123456789012345, -2.000000000000123e-9, 3.3333333333333335)
    p2s = (0.723456789012345, 2.999999999999877e-9, 7.777777777777778)
    for rep in ["bin8", None, "bin", "xml"]:
        f = hand_field([F(x) for x in p1s], [F(x) for x in p2s], (3, 2, 2), 3, None, rng, exact=False,
                       vals=[F(rng.uniform(-1, 1) * 8.123456789012345e5) for _ in range(36)])
        core.append(dict(kind="round", field=f, rep=rep, subs=[], save=True, pathlib=rep is None))
    # last vertex pinned to pmax (c1)
    for p1, p2, n in [((2e-9, 0.0, 0.0), (9e-9, 1e-9, 2e-9), (7, 1, 2)), ((-5e-9, 1e-9, 0.0), (15e-9, 2e-9, 3e-9), (20, 1, 1)),
                      ((0.1, 0.2, 0.3), (0.8, 1.1, 1.2), (7, 3, 1))]:
        f = hand_field([F(x) for x in p1], [F(x) for x in p2], n, 1, None, rng, exact=False)
        core.append(dict(kind="round", field=f, rep="bin", subs=[], save=True))
        core.append(dict(kind="round", field=f, rep="xml", subs=[], save=True))
        core.append(dict(kind="grid", field=f, probes=gen_probes(rng, f["mesh"], 4)))
    # subregions: definition order kept (b3), side-car name = full file name + suffix (c3)
    c = F(3, 2), F(1), F(3, 4)
    lo = box[0]
    sub_sets = [[["zz", [lo[0], lo[1], lo[2]], [lo[0] + c[0], lo[1] + 2 * c[1], lo[2] + 2 * c[2]]],
                 ["aa", [lo[0], lo[1] + c[1], lo[2]], [lo[0] + 2 * c[0], lo[1] + 3 * c[1], lo[2] + c[2]]]],
                [["r 2", [lo[0] + c[0], lo[1], lo[2]], [lo[0] + 2 * c[0], lo[1] + c[1], lo[2] + 2 * c[2]]],
                 ["core", [lo[0], lo[1], lo[2]], [lo[0] + 2 * c[0], lo[1] + 3 * c[1], lo[2] + c[2]]],
                 ["Z", [lo[0], lo[1] + 2 * c[1], lo[2] + c[2]], [lo[0] + c[0], lo[1] + 3 * c[1], lo[2] + 2 * c[2]]]]]
    sub_sets = [[[nm, [S(x) for x in a], [S(x) for x in b]] for nm, a, b in ss] for ss in sub_sets]
    for k in range(6):
        f = fld([1, 3, 2][k % 3], None)
        core.append(dict(kind="round", field=f, rep=R3[k % 3], subs=sub_sets[k % 2], save=True, pathlib=k % 2 == 0))
    # a side-car left by an earlier save is replaced / left alone (e1 and the repaired defect)
    for k in range(6):
        f = fld([1, 3][k % 2], None)
        core.append(dict(kind="round", field=f, rep=R3[k % 3], subs=sub_sets[1] if k == 4 else [], save=k != 5,
                         stale=sub_sets[0]))
    # a refused write leaves data file and side-car alone (d1)
    plane = hand_field([F(0), F(0)], [F(2), F(3)], (2, 3), 1, None, rng)
    line = hand_field([F(-1)], [F(3)], (4,), 3, None, rng)
    sub2 = [["p", [S(F(0)), S(F(0))], [S(F(1)), S(F(2))]]]
    sub1 = [["l", [S(F(-1))], [S(F(1))]]]
    unl = fld(3, [])
    for k, (why, f2, s2, rep2) in enumerate([("ndim", plane, sub2, "bin"), ("ndim", line, sub1, None),
                                             ("ndim", plane, [], "xml"), ("nolabels", unl, sub_sets[1], "txt"),
                                             ("nolabels", fld(2, []), [], None), ("badrep", fld(1, None), sub_sets[1], "bin4"),
                                             ("ndim", plane, sub2, "txt")]):
        core.append(dict(kind="refused", why=why, fresh=k == 6, first=fld(3, None), subs1=sub_sets[k % 2] if k != 2 else [],
                         rep1=R3[k % 3], second=f2, subs2=s2, rep2=rep2, pathlib=k % 2 == 1))
    # the same path read twice with the file rewritten in between (e2)
    for rep in ["bin", "txt", "xml", None]:
        for what in ["values", "shape", "labels", "subs"]:
            core.append(gen_overwrite(rng, 3, 18, rep, what))
    # legacy point-data files: x-fastest order (a3), negative leading numbers (d3)
    for k, n in enumerate([(2, 3, 2), (3, 2, 1), (2, 2, 2), (4, 3, 1)]):
        for vec in (False, True):
            coords = [[box[0][a] + (j + F(1, 2)) * c[a] for j in range(n[a])] for a in range(3)]
            dim = 3 if vec else 1
            rows = [[F(-(i + 1) * (q + 2), 4) if (i + q) % 2 == 0 else F((i + 3) * (q + 1), 8) for q in range(dim)]
                    for i in range(math.prod(n))]
            core.append(dict(kind="legacy", exact=True, variant="plain", n=list(n), vec=vec,
                             coords=[[S(x) for x in cc] for cc in coords], rows=[[S(x) for x in r_] for r_ in rows],
                             side=None))
    for c_ in core:
        c_["core"] = True
    return core


def generate(rng, tier):
    quick = tier == "quick"
    nmax = 4 if quick else 6
    cmax = 36 if quick else 100
    cases = directed_core()
    # --- overwrite in place: the same path read again after the file was rewritten
    for k in range(12 if quick else 60):
        cases.append(gen_overwrite(rng, nmax, cmax, ["bin", "txt", "xml", None, "bin8"][k % 5],
                                   ["values", "shape", "labels", "subs"][k % 4]))
    # --- grid + independent cell lookup
    for k in range(70 if quick else 500):
        exact = k % 3 != 2
        f = gen_field(rng, exact, nmax, cells_max=cmax)
        cases.append(variants(rng, dict(kind="grid", field=f, probes=gen_probes(rng, f["mesh"], 8 if quick else 10)), f))
    # used first, then changed in place through public calls, then converted
    for k in range(24 if quick else 150):
        f = gen_field(rng, True, nmax, cells_max=cmax, nv=rng.choice([1, 1, 3, 3, 2, 4]))
        if f["nv"] == 3 and rng.random() < 0.7:
            f["vdims"] = None               # default labels carry the mapping rotate90 needs
        cases.append(dict(kind="grid", field=f, probes=[], ops=gen_ops(rng), pseed=rng.randrange(10 ** 6)))
    # every axis permutation of a strongly anisotropic mesh, all component counts
    for perm in itertools.permutations([1, 2, 3]):
        for nv in (1, 2, 3, 4):
            f = gen_field(rng, True, nmax, nv=nv)
            lo = [F(rng.randint(-8, 8)) for _ in range(3)]
            f["mesh"] = dict(exact=True, p1=[S(x) for x in lo],
                             p2=[S(l + k * F(3, 4)) for l, k in zip(lo, perm)], n=list(perm))
            f["pyth"], f["vals"] = gen_values(rng, f["mesh"]["n"], nv, True)
            f["valid"] = gen_valid(rng, 6)
            cases.append(dict(kind="grid", field=f, probes=gen_probes(rng, f["mesh"], 6)))
    # wrong number of geometric dimensions
    for nd in (1, 2, 4):
        f = gen_field(rng, True, 3, nd=nd, cells_max=30)
        cases.append(dict(kind="grid", field=f, probes=[]))
        cases.append(dict(kind="round", field=f, rep="bin", subs=[], save=True))
    # --- round trips
    for k in range(110 if quick else 800):
        exact = k % 3 != 2
        f = gen_field(rng, exact, nmax, cells_max=cmax)
        rep = (REPS + [None])[k % 5] if rng.random() < 0.93 else rng.choice(["bin4", "ascii", "", "XML"])
        subs = gen_subs(rng, f["mesh"]) if rng.random() < 0.45 else []
        cases.append(variants(rng, dict(kind="round", field=f, rep=rep, subs=subs, save=rng.random() < 0.85), f))
    for k in range(24 if quick else 150):
        f = gen_field(rng, True, nmax, cells_max=cmax, nv=rng.choice([1, 1, 3, 3, 2, 4]))
        if f["nv"] == 3 and rng.random() < 0.7:
            f["vdims"] = None
        subs = gen_subs(rng, f["mesh"]) if rng.random() < 0.5 else []
        cases.append(dict(kind="round", field=f, rep=(REPS + [None])[k % 5], subs=subs, save=True, ops=gen_ops(rng),
                          pseed=rng.randrange(10 ** 6), pathlib=rng.random() < 0.5))
    # a side-car left at the path by an earlier save (repaired in /repo 7660f6e6: armed, untagged)
    for k in range(15 if quick else 80):
        f = gen_field(rng, True, nmax, cells_max=cmax)
        if f["vdims"] and "field" in f["vdims"]:
            f["vdims"] = None
        if f["nv"] == 1:
            f["vdims"] = None
        own = gen_subs(rng, f["mesh"]) if rng.random() < 0.35 else []
        cases.append(dict(kind="round", field=f, rep=["bin", "xml", "txt"][k % 3], subs=own, save=rng.random() < 0.75,
                          stale=gen_subs(rng, f["mesh"])))
    # --- error path as a sequence: good file, then a REFUSED write to the same name, then read
    for k in range(24 if quick else 120):
        f1 = gen_field(rng, True, nmax, cells_max=cmax)
        if f1["nv"] == 1 or (f1["vdims"] and "field" in f1["vdims"]):
            f1["vdims"] = None
        subs1 = gen_subs(rng, f1["mesh"]) if rng.random() < 0.7 else []
        why = ["ndim", "ndim", "nolabels", "badrep"][k % 4]
        if why == "ndim":
            f2 = gen_field(rng, True, 3, nd=rng.choice([1, 2, 4]), cells_max=30)
            rep2 = rng.choice(["bin", "txt", "xml", None])
        elif why == "nolabels":
            f2 = gen_field(rng, True, nmax, cells_max=cmax, nv=rng.choice([2, 3, 4]))
            f2["vdims"] = []                      # Field(..., vdims=[]) -> no labels
            rep2 = rng.choice(["bin", "txt", "xml", None])
        else:
            f2 = gen_field(rng, True, nmax, cells_max=cmax)
            rep2 = rng.choice(["bin4", "ascii", "", "XML", "binary"])
        if f2["nv"] == 1:
            f2["vdims"] = None
        subs2 = gen_subs(rng, f2["mesh"]) if rng.random() < 0.8 else []
        cases.append(dict(kind="refused", why=why, fresh=(k % 6 == 5), first=f1, subs1=subs1,
                          rep1=["bin", "xml", "txt"][k % 3], second=f2, subs2=subs2, rep2=rep2,
                          pathlib=rng.random() < 0.5))
    # --- reader alone, on grids written by the bare VTK writers
    for k in range(50 if quick else 300):
        cases.append(gen_read(rng, nmax))
    # --- legacy point-data files
    for k in range(50 if quick else 300):
        cases.append(gen_legacy(rng, k % 3 != 2, nmax))
    return cases


def gen_read(rng, nmax):
    m = gen_mesh(rng, True, nmax, cells_max=30)
    n = m["n"]
    cells = math.prod(n)
    nv = rng.choice([1, 2, 3, 4])
    variant = rng.choice(["plain", "plain", "no-valid", "no-comps", "extra", "no-field", "flags", "reordered",
                          "nonuniform", "scalar-label", "descending", "valid-wide", "short-field"])
    lo, hi, cell = geom(m)
    coords = [[lo[a] + j * cell[a] for j in range(n[a] + 1)] for a in range(3)]
    if variant == "nonuniform":
        for a in range(3):
            for j in range(1, n[a]):
                coords[a][j] += cell[a] * F(rng.randint(-3, 3), 8)
    if variant == "descending":
        a = rng.randrange(3)
        coords[a] = coords[a][::-1]
    names = {1: [], 2: ["p", "q"], 3: ["a", "b", "c"], 4: ["k", "l", "m", "n"]}[nv]
    arrays = []   # (name, nc, values)
    field = [F(rng.randint(-512, 512), 16) for _ in range(cells * nv)]
    arrays.append(["norm", 1, [F(rng.randint(0, 9)) for _ in range(cells)]])
    for c, nm in enumerate(names):
        arrays.append([nm, 1, field[c::nv]])
    arrays.append(["field", nv, field])
    flags = [F(rng.choice([0, 1])) for _ in range(cells)]
    if variant == "flags":
        flags = [F(rng.choice([0, 1, 2, -1, 7])) for _ in range(cells)]
    arrays.append(["valid", 1, flags])
    if variant == "no-valid":
        arrays = [a for a in arrays if a[0] != "valid"]
    elif variant == "no-comps":
        arrays = [a for a in arrays if a[0] in ("norm", "field", "valid")]
    elif variant == "extra":
        arrays.insert(rng.randint(0, len(arrays)), ["energy", 1, [F(rng.randint(0, 9)) for _ in range(cells)]])
    elif variant == "no-field":
        arrays = [a for a in arrays if a[0] != "field"]
    elif variant == "reordered":
        rng.shuffle(arrays)
    elif variant == "scalar-label" and nv == 1:
        arrays.insert(1, ["s", 1, field])
    elif variant == "valid-wide":
        arrays[-1] = ["valid", 2, flags + flags]
    side = None
    if rng.random() < 0.3:
        mm = dict(m)
        side = gen_subs(rng, mm)
    return dict(kind="read", variant=variant, rep=rng.choice(["bin", "txt", "xml"]), n=n,
                coords=[[S(x) for x in c] for c in coords],
                arrays=[[nm, nc, [S(x) for x in v]] for nm, nc, v in arrays], side=side)


def gen_legacy(rng, exact, nmax):
    while True:
        m = gen_mesh(rng, exact, nmax, cells_max=30)
        lo, hi, cell = geom(m)
        n = m["n"]
        # single-point axes are read with a 1 nm default cell; where that is close to the float
        # resolution of the coordinate the outcome is a rounding accident: stay clearly below (<= 1e5)
        # or clearly above (>= 1e8, tagged finding T_LEGFAR)
        if all(n[a] > 1 or not (1e5 < abs(float(lo[a] + hi[a]) / 2) < 1e8) for a in range(3)):
            break
    variant = rng.choice(["plain"] * 6 + ["truncated", "zero-step", "descending", "long"])
    coords = []
    for a in range(3):
        if exact:
            coords.append([lo[a] + (j + F(1, 2)) * cell[a] for j in range(n[a])])
        else:
            fc = (float(hi[a]) - float(lo[a])) / n[a]
            coords.append([F(float(lo[a]) + (j + 0.5) * fc) for j in range(n[a])])
    if variant == "zero-step":
        a = rng.randrange(3)
        if n[a] >= 2:
            coords[a][1] = coords[a][0]
        else:
            variant = "plain"
    if variant == "descending":
        a = rng.randrange(3)
        coords[a] = coords[a][::-1]
    vec = rng.random() < 0.6
    dim = 3 if vec else 1
    cells = math.prod(n)
    nrows = cells
    if variant == "truncated":
        nrows = rng.randint(0, cells - 1)
    elif variant == "long":
        nrows = cells + 2
    rows = [[F(rng.randint(-4096, 4096), 64) if exact else F(round(rng.uniform(-1e6, 1e6), 3))
             for _ in range(dim)] for _ in range(nrows)]
    # (a single-point axis is read with the 1 nm default cell: no side-car there)
    side = gen_subs(rng, m) if (exact and variant == "plain" and min(n) >= 2 and rng.random() < 0.5) else None
    return dict(kind="legacy", exact=exact, variant=variant, n=n, vec=vec,
                coords=[[S(x) for x in c] for c in coords],
                rows=[[S(x) for x in r] for r in rows], side=side)


# ------------------------------------------------------------------ VTK helpers (independent consumer)
def arrays_of(data):
    out = []
    for i in range(data.GetNumberOfArrays()):
        a = data.GetArray(i)
        if a is None:
            continue
        v = vns.vtk_to_numpy(a)
        out.append([data.GetArrayName(i), int(a.GetNumberOfComponents()), [F(x) for x in v.reshape(-1).tolist()]])
    return out


def grid_obs(rg):
    dims = [int(x) for x in rg.GetDimensions()]
    coords = [[F(x) for x in vns.vtk_to_numpy(c).tolist()]
              for c in (rg.GetXCoordinates(), rg.GetYCoordinates(), rg.GetZCoordinates())]
    return dict(dims=dims, coords=coords, arrays=arrays_of(rg.GetCellData()),
                npoint=rg.GetPointData().GetNumberOfArrays())


def bare_read(path):
    with open(path, "rb") as fh:
        first = fh.readline()
    if first.lstrip().startswith(b"<"):
        rd = vtkXMLRectilinearGridReader()
    else:
        rd = vtkRectilinearGridReader()
        rd.ReadAllScalarsOn()
        rd.ReadAllVectorsOn()
        rd.ReadAllFieldsOn()
    rd.SetFileName(path)
    rd.Update()
    return grid_obs(rd.GetOutput())


def bare_write(path, rep, n, coords, arrays):
    rg = vtkRectilinearGrid()
    rg.SetDimensions(*[k + 1 for k in n])
    keep = []
    for c, setter in zip(coords, [rg.SetXCoordinates, rg.SetYCoordinates, rg.SetZCoordinates]):
        a = vns.numpy_to_vtk(np.array(c, dtype=float), deep=True)
        keep.append(a)
        setter(a)
    for nm, nc, vals in arrays:
        arr = np.array(vals, dtype=float)
        if nm == "valid":
            arr = arr.astype(np.int64)
        if nc > 1:
            arr = arr.reshape(-1, nc)
        a = vns.numpy_to_vtk(arr, deep=True)
        a.SetName(nm)
        rg.GetCellData().AddArray(a)
    if rep == "xml":
        w = vtkXMLRectilinearGridWriter()
    else:
        w = vtkRectilinearGridWriter()
        if rep == "txt":
            w.SetFileTypeToASCII()
        else:
            w.SetFileTypeToBinary()
    w.SetFileName(path)
    w.SetInputData(rg)
    w.Write()


def find_cells(rg, p):
    sub = vcc.reference(0)
    pc, w = [0.0] * 3, [0.0] * 8
    a = int(rg.FindCell(list(p), None, 0, 0.0, sub, pc, w))
    loc = vtkCellLocator()
    loc.SetDataSet(rg)
    loc.BuildLocator()
    b = int(loc.FindCell(list(p)))
    return a, b


def legacy_text(coords, vec, rows, trailing_newline=True):
    n = [len(c) for c in coords]
    lines = ["# vtk DataFile Version 3.0", "Field", "ASCII", "DATASET RECTILINEAR_GRID",
             "DIMENSIONS {} {} {}".format(*n)]
    for ax, c in zip("XYZ", coords):
        lines.append(f"{ax}_COORDINATES {len(c)} float")
        lines.append(" ".join(repr(float(x)) for x in c))
    lines.append(f"POINT_DATA {math.prod(n)}")
    if vec:
        for ci, nm in enumerate("xyz"):
            lines += [f"SCALARS {nm}-component double", "LOOKUP_TABLE default"]
            lines += [repr(float(r[ci])) for r in rows]
        lines.append("VECTORS field double")
        lines += [" ".join(repr(float(x)) for x in r) for r in rows]
    else:
        lines += ["SCALARS field double", "LOOKUP_TABLE default"]
        lines += [repr(float(r[0])) for r in rows]
    return "\n".join(lines) + ("\n" if trailing_newline else "")


# ------------------------------------------------------------------ building the field
def corner(x):
    """integer corners are handed over as Python ints (integer-typed region)"""
    q = F(x)
    return int(q) if q.denominator == 1 and abs(q) < 2 ** 40 else float(q)


def build(fd, subs=(), intcorners=False):
    m = fd["mesh"]
    cv = (lambda xs: [corner(x) for x in xs]) if intcorners else fls
    region = df.Region(p1=cv(m["p1"]), p2=cv(m["p2"]))
    sr = {nm: df.Region(p1=cv(a), p2=cv(b)) for nm, a, b in subs}     # insertion order = order of the case
    mesh = df.Mesh(region=region, n=m["n"], subregions=sr)
    dt = DTYPES.get(fd.get("dtype"), float)
    arr = np.array(fls(fd["vals"]), dtype=float).reshape(*m["n"], fd["nv"]).astype(dt)
    valid = np.array(fd["valid"], dtype=bool).reshape(*m["n"])
    arr, valid = relayout(arr, fd.get("layout")), relayout(valid, fd.get("layout"))
    if fd["vdims"] == []:
        # labels removed afterwards through the setter (Field(..., nvdim=3, vdims=[]) itself raises TypeError)
        fld = df.Field(mesh, nvdim=fd["nv"], value=arr, valid=valid)
        fld.vdims = []
        return fld
    if fd.get("dtype"):
        return df.Field(mesh, nvdim=fd["nv"], value=arr, vdims=fd["vdims"], valid=valid, dtype=dt)
    return df.Field(mesh, nvdim=fd["nv"], value=arr, vdims=fd["vdims"], valid=valid)


def snapshot(f):
    """everything a read-only operation must leave alone"""
    return dict(pmin=f.mesh.region.pmin.tolist(), pmax=f.mesh.region.pmax.tolist(), n=f.mesh.n.tolist(),
                array=f.array.copy(), adt=str(f.array.dtype), valid=f.valid.copy(), vdt=str(f.valid.dtype),
                vdims=None if f.vdims is None else list(f.vdims), mapping=dict(f.vdim_mapping),
                subs=[(k, v.pmin.tolist(), v.pmax.tolist()) for k, v in f.mesh.subregions.items()],
                ids=(id(f.mesh), id(f.mesh.region), id(f.array), id(f.valid)))


def same_snapshot(a, b):
    return (a["pmin"] == b["pmin"] and a["pmax"] == b["pmax"] and a["n"] == b["n"] and a["adt"] == b["adt"]
            and a["vdt"] == b["vdt"] and np.array_equal(a["array"], b["array"]) and np.array_equal(a["valid"], b["valid"])
            and a["vdims"] == b["vdims"] and a["mapping"] == b["mapping"] and a["subs"] == b["subs"]
            and a["ids"] == b["ids"])


def use_then_change(f, ops, rng, tmpdir):
    """(1) use the object (derived quantities, the operations under test, a sibling field of equal
    shape), (2) change it in place through public calls; returns the labels of the steps that ran"""
    _ = (f.mesh.cell, f.mesh.dV, f.mesh.index2point((0, 0, 0)), f.mesh.point2index(f.mesh.region.center),
         len(list(f.mesh)), f.norm.array.sum(), f.mesh.vertices, f.mesh.cells)
    f.to_vtk()
    f.to_file(os.path.join(tmpdir, "used.vtk"))
    sib = df.Field(f.mesh, nvdim=f.nvdim, value=np.full((*f.mesh.n, f.nvdim), 3.0), vdims=f.vdims)
    sib.to_vtk()
    sib.to_file(os.path.join(tmpdir, "sib.vtk"), representation="txt")
    ran = []
    for op in ops:
        kind = op[0]
        if kind == "translate":
            st, _ = attempt(lambda: f.mesh.translate(fls(op[1]), inplace=True))
        elif kind == "scale":
            st, _ = attempt(lambda: f.mesh.scale(fls(op[1]), inplace=True))
        elif kind == "region-translate":
            st = "skip" if f.mesh.subregions else attempt(lambda: f.mesh.region.translate(fls(op[1]), inplace=True))[0]
        elif kind == "region-scale":
            st = "skip" if f.mesh.subregions else attempt(lambda: f.mesh.region.scale(fls(op[1]), inplace=True))[0]
        elif kind == "rot":
            dims = f.mesh.region.dims
            st, _ = attempt(lambda: f.rotate90(dims[op[1]], dims[op[2]], k=op[3], inplace=True))
        elif kind == "write-cell":
            idx = tuple(rng.randrange(k) for k in f.mesh.n)
            f.array[idx] = [float(rng.randint(-9, 9)) for _ in range(f.nvdim)]
            st = "ok"
        elif kind == "write-all":
            f.array[...] = np.array([rng.randint(-50, 50) for _ in range(f.array.size)], dtype=float).reshape(f.array.shape)
            st = "ok"
        elif kind == "valid-cell":
            idx = tuple(rng.randrange(k) for k in f.mesh.n)
            f.valid[idx] = not f.valid[idx]
            st = "ok"
        elif kind == "valid-set":
            f.valid = np.array([rng.random() < 0.5 for _ in range(f.valid.size)]).reshape(f.valid.shape)
            st = "ok"
        else:
            raise ValueError(kind)
        ran.append(f"{kind}:{st}")
    return ran


def describe(f, fd):
    """the case as the field reports it AFTER the in-place history"""
    n = [int(x) for x in f.mesh.n]
    return dict(mesh=dict(exact=False, p1=[S(float(x)) for x in f.mesh.region.pmin], p2=[S(float(x)) for x in f.mesh.region.pmax],
                          n=n),
                nv=int(f.nvdim), vdims=fd["vdims"], pyth=False,
                vals=[S(float(x)) for x in np.asarray(f.array, dtype=float).reshape(-1)],
                valid=[bool(x) for x in f.valid.reshape(-1)], dtype=fd.get("dtype"))


def subs_of(f):
    return [[k, [S(float(x)) for x in v.pmin], [S(float(x)) for x in v.pmax]] for k, v in f.mesh.subregions.items()]


def prepare(c, subs, tmpdir):
    """build the field of a case; with an 'ops' history: use it, change it in place, re-describe it"""
    fd = c["field"]
    f = build(fd, subs, intcorners=c.get("intcorners", False))
    if not c.get("ops"):
        return f, fd, subs, []
    rng = random.Random(c.get("pseed", 0))
    ran = use_then_change(f, c["ops"], rng, tmpdir)
    fd2 = describe(f, fd)
    return f, fd2, subs_of(f), ran


# ------------------------------------------------------------------ Gallina encoding
def c_optstrs(v):
    return g.opt(v, g.sl)


def c_arr(a):
    return f"({g.s(a[0])}, ({g.nat(a[1])}, {g.ql(a[2])}))"


def c_grid(o):
    return f"({g.zl(o['dims'])}, {g.qll(o['coords'])}, {g.lst(o['arrays'], c_arr)})"


def c_subs(subs):
    return g.lst(subs, lambda s_: f"({g.s(s_[0])}, ({g.ql(s_[1])}, {g.ql(s_[2])}))")


def c_fld(o):
    return (f"({g.ql(o['pmin'])}, {g.ql(o['pmax'])}, {g.zl(o['n'])}, {g.nat(o['nv'])}, {c_optstrs(o['vdims'])}, "
            f"{g.ql(o['vals'])}, {g.bl(o['valid'])}, {c_subs(o['subs'])})")


def c_field_in(fd, f):
    """the labels given to the model are the ones the constructed Field carries (defaults included)"""
    m = fd["mesh"]
    eff = None if f.vdims is None else list(f.vdims)
    return (f"{g.ql(m['p1'])} {g.ql(m['p2'])} {g.zl(m['n'])} {g.nat(fd['nv'])} {c_optstrs(eff)} "
            f"{g.ql(fd['vals'])} {g.bl(fd['valid'])}")


def field_obs(r):
    return dict(pmin=[F(x) for x in r.mesh.region.pmin.tolist()], pmax=[F(x) for x in r.mesh.region.pmax.tolist()],
                n=[int(x) for x in r.mesh.n], nv=int(r.nvdim), vdims=None if r.vdims is None else list(r.vdims),
                vals=[F(x) for x in np.asarray(r.array, dtype=float).reshape(-1).tolist()],
                valid=[bool(x) for x in r.valid.reshape(-1).tolist()],
                valid_dtype=str(r.valid.dtype), array_dtype=str(r.array.dtype),
                subs=[[k, [F(x) for x in v.pmin.tolist()], [F(x) for x in v.pmax.tolist()]]
                      for k, v in r.mesh.subregions.items()])


def jsafe(o):
    if isinstance(o, F):
        return S(o)
    if isinstance(o, dict):
        return {k: jsafe(v) for k, v in o.items()}
    if isinstance(o, (list, tuple)):
        return [jsafe(v) for v in o]
    return o


# ------------------------------------------------------------------ runners
def close10(a, b):
    """b keeps ten significant digits of a"""
    return abs(F(a) - F(b)) <= F(1, 2 * 10 ** 9) * abs(F(a))


def run_grid(c):
    fd = c["field"]
    m = fd["mesh"]
    n = m["n"]
    nv = fd["nv"]
    rec = dict(kind="grid", case=c, oracle=[], tags=[])
    if fd["vdims"] and "field" in fd["vdims"]:
        rec["tags"].append(T_FIELD)
    tmpd = newdir()
    f, fd, _, ran = prepare(c, [], tmpd)
    shutil.rmtree(tmpd, ignore_errors=True)
    m = fd["mesh"]
    n = m["n"]
    nv = fd["nv"]
    before = snapshot(f)
    st, rg = attempt(f.to_vtk)
    nd = len(n)
    head = f"CGrid {g.b(m['exact'])} {g.b(fd['pyth'])} {c_field_in(fd, f)}"
    if st != "ok":
        if nd == 3:
            rec["oracle"].append("to-vtk-rejected")
        rec.update(obs=dict(err=rg), coq=f"{head} None []", key=f"grid/rejected/{nd}", size=sum(n))
        return rec
    if nd != 3:
        rec["oracle"].append("non-3d-accepted")
    o = grid_obs(rg)
    if not same_snapshot(before, snapshot(f)):
        rec["oracle"].append("operand-changed")
    st2, rg2 = attempt(f.to_vtk)
    if st2 != "ok" or grid_obs(rg2) != o:
        rec["oracle"].append("second-call-differs")
    plist = c["probes"] if not c.get("ops") else gen_probes(random.Random(c.get("pseed", 0) + 1), m, 6)
    probes = []
    for cls, p in plist:
        a, b = find_cells(rg, fls(p))
        probes.append([cls, p, a, b])
    # ---- oracle: the property text on the implementation's grid
    lo, hi, cell = geom(m)
    sc = [max(abs(l), abs(h), h - l) for l, h in zip(lo, hi)]
    if o["dims"] != [k + 1 for k in n]:
        rec["oracle"].append("grid-dimensions")
    for a in range(3):
        want = [lo[a] + j * cell[a] for j in range(n[a] + 1)]
        tol = 0 if m["exact"] else F(1, 10 ** 9) * sc[a]
        if len(o["coords"][a]) != n[a] + 1 or any(abs(x - w) > tol for x, w in zip(o["coords"][a], want)):
            rec["oracle"].append("grid-vertices")
    arrs = {nm: (nc, v) for nm, nc, v in o["arrays"]}
    vals = np.array([F(x) for x in fd["vals"]], dtype=object).reshape(*n, nv)
    valid = np.array(fd["valid"], dtype=bool).reshape(*n)
    labels = list(f.vdims) if f.vdims is not None else []
    need = ["field", "norm", "valid"] + (labels if nv > 1 else [])
    missing = [x for x in need if x not in arrs]
    if missing or (nv > 1 and len(arrs) != 3 + nv):
        rec["oracle"].append("component-array-missing" if nv > 1 and "field" in labels else "array-missing")
    if "field" in arrs and arrs["field"][0] != nv:
        rec["oracle"].append("field-array-components")
    for cls, p, a, b in probes:
        pq = [F(x) for x in p]
        rel = [(pq[ax] - lo[ax]) / cell[ax] for ax in range(3)]
        inside = all(0 < r < n[ax] for ax, r in enumerate(rel))
        margin = F(1, 1000)
        clear = inside and all(margin < r - math.floor(r) < 1 - margin for r in rel)
        if not clear:
            # on or near a face / outside: a located cell must at least touch p
            for cid in (a, b):
                if cid >= 0 and m["exact"]:
                    i, j, k = cid % n[0], (cid // n[0]) % n[1], cid // (n[0] * n[1])
                    for ax, q in enumerate((i, j, k)):
                        if not (q < n[ax] and lo[ax] + q * cell[ax] <= pq[ax] <= lo[ax] + (q + 1) * cell[ax]):
                            rec["oracle"].append("located-cell-does-not-touch-point")
            continue
        idx = tuple(math.floor(r) for r in rel)
        for cid in (a, b):
            if cid < 0:
                rec["oracle"].append("consumer-finds-no-cell")
                continue
            if any(cid >= len(v) // max(nc, 1) for nc, v in arrs.values()):
                rec["oracle"].append("located-cell-has-no-tuple")
                continue
            if "field" in arrs and arrs["field"][0] == nv:
                got = arrs["field"][1][cid * nv:(cid + 1) * nv]
                if got != list(vals[idx]):
                    rec["oracle"].append("located-cell-value")
            if "valid" in arrs and arrs["valid"][1][cid] != (1 if valid[idx] else 0):
                rec["oracle"].append("located-cell-valid")
            if "norm" in arrs:
                s = sum(x * x for x in vals[idx])
                v = arrs["norm"][1][cid]
                if v < 0 or abs(v * v - s) > F(1, 10 ** 9) * s:
                    rec["oracle"].append("located-cell-norm")
            if nv > 1:
                for ci, nm in enumerate(labels):
                    if nm in arrs and nm not in ("field", "norm", "valid") and arrs[nm][1][cid] != vals[idx][ci]:
                        rec["oracle"].append("located-cell-component")
    rec["oracle"] = sorted(set(rec["oracle"]))
    cprobes = g.lst(probes, lambda pr: f"({g.ql(pr[1])}, ({g.z(pr[2])}, {g.z(pr[3])}))")
    rec.update(obs=jsafe(dict(grid=o, probes=probes)),
               coq=f"{head} (Some {c_grid(o)}) {cprobes}",
               key=f"grid/{m['exact']}/{tuple(n)}/{nv}/{fd['vdims'] is None}/{fd['pyth']}/"
                   f"{''.join(sorted(set(p[0][0] for p in probes)))}/{fd.get('dtype')}/{c.get('intcorners', False)}/"
                   f"{','.join(ran)}",
               size=sum(n) + nv)
    return rec


def run_round(c):
    fd = c["field"]
    m = fd["mesh"]
    n = m["n"]
    nv = fd["nv"]
    rep = c["rep"]
    nd = len(n)
    rec = dict(kind="round", case=c, oracle=[], tags=[])
    if fd["vdims"] and "field" in fd["vdims"]:
        rec["tags"].append(T_FIELD)
    if nv == 1 and fd["vdims"]:
        rec["tags"].append(T_SCALAR)
    subs = c["subs"] if nd == 3 else []
    d = newdir()
    f, fd, subs, ran = prepare(c, subs, d)
    m = fd["mesh"]
    n = m["n"]
    nv = fd["nv"]
    path_s = os.path.join(d, "f.vtk")
    # paths as str / pathlib.Path (the reader gets the other type)
    path = pathlib.Path(path_s) if c.get("pathlib") else path_s
    rpath = path_s if c.get("pathlib") else pathlib.Path(path_s)
    stale = (c.get("stale") or None) if nd == 3 and not c.get("ops") else None
    if stale is not None:
        # an earlier save of another field (same mesh, with subregions) at the same path
        build(dict(fd, nv=1, vdims=None, vals=fd["vals"][::nv], dtype=None), stale).to_file(path_s)
    kw = dict(save_subregions=c["save"])
    if rep is not None:
        kw["representation"] = rep
    rep = "bin8" if rep is None else rep          # the documented default
    before = snapshot(f)
    st_w, e_w = attempt(lambda: f.to_file(path, **kw))
    head = (f"CRound {g.b(m['exact'])} {g.b(fd['pyth'])} {g.s(rep)} {c_field_in(fd, f)} {c_subs(subs)} "
            f"{g.b(c['save'])} {g.opt(stale, c_subs)}")
    known_rep = rep in ("bin", "bin8", "txt", "xml")
    if st_w != "ok":
        if nd == 3 and known_rep:
            rec["oracle"].append("write-rejected")
        rec.update(obs=dict(write_err=e_w), coq=f"{head} None None", key=f"round/write-rejected/{nd}/{known_rep}",
                   size=sum(n))
        shutil.rmtree(d, ignore_errors=True)
        return rec
    if nd != 3 or not known_rep:
        rec["oracle"].append("bad-write-accepted")
    fo = bare_read(path_s)
    with open(path_s, "rb") as fh:
        head_bytes = fh.read(200)
    kind_seen = "xml" if head_bytes.lstrip().startswith(b"<") else \
        (head_bytes.split(b"\n") + [b"", b"", b""])[2].strip().decode("ascii", "replace")
    kind_want = {"bin": "BINARY", "bin8": "BINARY", "txt": "ASCII", "xml": "xml"}.get(rep)
    if kind_want is not None and kind_seen != kind_want:
        rec["oracle"].append("representation-kind")
    side_exists = os.path.exists(path_s + ".subregions.json")
    # disk state after the write: written iff save_subregions and (subregions or a side-car was there);
    # content = this field's subregions ({} when none); save_subregions=False leaves the disk alone
    if c["save"] and (subs or stale is not None):
        disk_want = [[nm, fls(a), fls(b)] for nm, a, b in subs]
    else:
        disk_want = None if stale is None else [[nm, fls(a), fls(b)] for nm, a, b in stale]
    if side_exists != (disk_want is not None):
        rec["oracle"].append("side-car-presence")
    elif side_exists:
        st_j, js_ = attempt(lambda: json.load(open(path_s + ".subregions.json")))
        got = None if st_j != "ok" else [[k, [float(x) for x in v["pmin"]], [float(x) for x in v["pmax"]]]
                                         for k, v in js_.items()]
        if got != disk_want:
            rec["oracle"].append("side-car-content")
    if not same_snapshot(before, snapshot(f)):
        rec["oracle"].append("operand-changed")
    # the same call again, elsewhere: same file content
    d2 = newdir()
    st_w2, _ = attempt(lambda: f.to_file(os.path.join(d2, "f.vtk"), **kw))
    if st_w2 != "ok" or bare_read(os.path.join(d2, "f.vtk")) != fo:
        rec["oracle"].append("second-call-differs")
    shutil.rmtree(d2, ignore_errors=True)
    st_r, r = attempt(lambda: df.Field.from_file(rpath))
    if not same_snapshot(before, snapshot(f)):
        rec["oracle"].append("operand-changed")
    txt = rep == "txt"
    verts = [float(v) for a in range(3) for v in np.asarray(getattr(f.mesh.vertices, f.mesh.region.dims[a]))] \
        if nd == 3 else []
    if txt and subs and c["save"] and any(float(f"{x:.11g}") != x for x in verts):
        # some vertex needs more than the 11 digits the text form keeps
        rec["tags"].append(T_TXTSUB)
    if st_r != "ok":
        rec["oracle"].append("round-trip-rejected")
        obs = dict(file=fo, read_err=r)
        cobs = "None"
    else:
        ro = field_obs(r)
        obs = dict(file=fo, read=ro)
        cobs = f"(Some {c_fld(ro)})"
        lo, hi, _ = geom(m)
        same = (lambda a, b: close10(a, b)) if txt else (lambda a, b: a == b)
        if not (all(same(a, b) for a, b in zip(lo, ro["pmin"])) and all(same(a, b) for a, b in zip(hi, ro["pmax"]))):
            rec["oracle"].append("round-trip-region")
        if ro["n"] != list(n):
            rec["oracle"].append("round-trip-n")
        want = [F(x) for x in fd["vals"]]
        if ro["nv"] != nv or len(ro["vals"]) != len(want) or not all(same(a, b) for a, b in zip(want, ro["vals"])):
            rec["oracle"].append("round-trip-values")
        if ro["valid"] != list(fd["valid"]):
            rec["oracle"].append("round-trip-validity")
        if ro["valid_dtype"] != "bool":
            rec["oracle"].append("round-trip-validity-dtype")
        if ro["vdims"] != (None if f.vdims is None else list(f.vdims)):
            rec["oracle"].append("round-trip-labels")
        want_subs = [[nm, [F(x) for x in a], [F(x) for x in b]] for nm, a, b in (disk_want or [])]
        got_subs = [[nm, a, b] for nm, a, b in ro["subs"]]
        if got_subs != want_subs:          # ordered name -> box list (insertion order is part of a dict)
            rec["oracle"].append("round-trip-subregions")
    rec["oracle"] = sorted(set(rec["oracle"]))
    rec.update(obs=jsafe(obs), coq=f"{head} (Some {c_grid(fo)}) {cobs}",
               key=f"round/{m['exact']}/{c['rep']}/{tuple(n)}/{nv}/{fd['vdims'] is None}/{len(subs)}/{c['save']}/{st_r}/"
                   f"{fd.get('dtype')}/{c.get('intcorners', False)}/{c.get('pathlib', False)}/{stale is not None}/"
                   f"{','.join(ran)}",
               size=sum(n) + nv + len(subs))
    shutil.rmtree(d, ignore_errors=True)
    return rec


def readback_clauses(prefix, fd, f, want_subs, ro, txt):
    """the round-trip clause of the property for one read-back"""
    out = []
    m = fd["mesh"]
    lo, hi, _ = geom(m)
    same = (lambda a, b: close10(a, b)) if txt else (lambda a, b: a == b)
    if not (all(same(a, b) for a, b in zip(lo, ro["pmin"])) and all(same(a, b) for a, b in zip(hi, ro["pmax"]))):
        out.append(prefix + "region")
    if ro["n"] != list(m["n"]):
        out.append(prefix + "n")
    want = [F(x) for x in fd["vals"]]
    if ro["nv"] != fd["nv"] or len(ro["vals"]) != len(want) or not all(same(a, b) for a, b in zip(want, ro["vals"])):
        out.append(prefix + "values")
    if ro["valid"] != list(fd["valid"]):
        out.append(prefix + "validity")
    if ro["vdims"] != (None if f.vdims is None else list(f.vdims)):
        out.append(prefix + "labels")
    if [[nm, a, b] for nm, a, b in ro["subs"]] != [[nm, [F(x) for x in a], [F(x) for x in b]] for nm, a, b in want_subs]:
        out.append(prefix + "subregions")
    return out


def run_overwrite(c):
    """write A to p, read p, write B to the SAME p, read p again -- no other file is read by the
    implementation in between (the bare VTK reader of the harness uses its own reader objects)"""
    rec = dict(kind="overwrite", case=c, oracle=[], tags=[])
    d = newdir()
    path_s = os.path.join(d, "latest.vtk")
    path = pathlib.Path(path_s) if c["pathlib"] else path_s
    kw = {} if c["rep"] is None else dict(representation=c["rep"])
    rep = "bin8" if c["rep"] is None else c["rep"]
    txt = rep == "txt"
    terms, obs = [], {}
    prior = None
    for tag, fd, subs in (("first", c["a"], c["subs_a"]), ("second", c["b"], c["subs_b"])):
        f = build(fd, subs)
        f.to_file(path, **kw)
        fo = bare_read(path_s)
        st_r, r = attempt(lambda: df.Field.from_file(path))
        head = (f"CRound {g.b(fd['mesh']['exact'])} {g.b(fd['pyth'])} {g.s(rep)} {c_field_in(fd, f)} {c_subs(subs)} "
                f"true {g.opt(prior, c_subs)} (Some {c_grid(fo)})")
        if st_r != "ok":
            rec["oracle"].append(f"overwrite-{tag}-read-rejected")
            terms.append(f"{head} None")
            obs[tag] = dict(read_err=r)
        else:
            ro = field_obs(r)
            rec["oracle"] += readback_clauses(f"overwrite-{tag}-read-", fd, f, subs, ro, txt)
            terms.append(f"{head} (Some {c_fld(ro)})")
            obs[tag] = dict(read=ro)
        prior = subs if (subs or prior) else None       # what the side-car holds after this save
        if prior == []:
            prior = None
    rec["oracle"] = sorted(set(rec["oracle"]))
    na, nb = c["a"]["mesh"]["n"], c["b"]["mesh"]["n"]
    rec.update(obs=jsafe(obs), coq=f"CBoth ({terms[0]}) ({terms[1]})",
               key=f"overwrite/{c['what']}/{c['rep']}/{tuple(na)}/{tuple(nb)}/{c['a']['nv']}/{c['b']['nv']}/"
                   f"{len(c['subs_a'])}/{len(c['subs_b'])}/{c['pathlib']}",
               size=sum(na) + sum(nb))
    shutil.rmtree(d, ignore_errors=True)
    return rec


def file_bytes(path_s):
    out = []
    for p_ in (path_s, path_s + ".subregions.json"):
        out.append(open(p_, "rb").read() if os.path.exists(p_) else None)
    return out


def run_refused(c):
    """good file (+ side-car) -> refused write to the same name -> the files and the read-back are as before"""
    rec = dict(kind="refused", case=c, oracle=[], tags=[])
    d = newdir()
    path_s = os.path.join(d, "f.vtk")
    path = pathlib.Path(path_s) if c["pathlib"] else path_s
    fd1, subs1, fd2, subs2 = c["first"], c["subs1"], c["second"], c["subs2"]
    f1 = build(fd1, subs1)
    if not c["fresh"]:
        f1.to_file(path_s, representation=c["rep1"])
    before = file_bytes(path_s)
    listing = sorted(os.listdir(d))
    f2 = build(fd2, subs2)
    snap2 = snapshot(f2)
    kw = {} if c["rep2"] is None else dict(representation=c["rep2"])
    st2, e2 = attempt(lambda: f2.to_file(path, **kw))
    rep2 = "bin8" if c["rep2"] is None else c["rep2"]
    if st2 == "ok":
        rec["oracle"].append("bad-write-accepted")
    if file_bytes(path_s) != before or sorted(os.listdir(d)) != listing:
        rec["oracle"].append("refused-write-changed-files")
    if not same_snapshot(snap2, snapshot(f2)):
        rec["oracle"].append("operand-changed")
    m2 = fd2["mesh"]
    refused = (f"CRound {g.b(m2['exact'])} {g.b(fd2['pyth'])} {g.s(rep2)} {c_field_in(fd2, f2)} {c_subs(subs2)} true "
               f"None None None")
    obs = dict(refused=e2 if st2 != "ok" else "accepted")
    coq = refused
    st_r = "fresh"
    if not c["fresh"] and st2 != "ok":
        m1 = fd1["mesh"]
        fo = bare_read(path_s)
        st_r, r = attempt(lambda: df.Field.from_file(path_s if c["pathlib"] else pathlib.Path(path_s)))
        if st_r != "ok":
            rec["oracle"].append("read-after-refused-write-rejected")
            cobs = "None"
            obs["read_err"] = r
        else:
            ro = field_obs(r)
            obs["read"] = ro
            cobs = f"(Some {c_fld(ro)})"
            lo, hi, _ = geom(m1)
            txt = c["rep1"] == "txt"
            same = (lambda a, b: close10(a, b)) if txt else (lambda a, b: a == b)
            want = [F(x) for x in fd1["vals"]]
            want_subs = [[nm, [F(x) for x in a], [F(x) for x in b]] for nm, a, b in subs1]
            if not (all(same(a, b) for a, b in zip(lo, ro["pmin"])) and all(same(a, b) for a, b in zip(hi, ro["pmax"]))
                    and ro["n"] == list(m1["n"]) and ro["nv"] == fd1["nv"] and len(ro["vals"]) == len(want)
                    and all(same(a, b) for a, b in zip(want, ro["vals"])) and ro["valid"] == list(fd1["valid"])
                    and ro["vdims"] == (None if f1.vdims is None else list(f1.vdims))):
                rec["oracle"].append("read-after-refused-write-differs")
            if [[nm, a, b] for nm, a, b in ro["subs"]] != want_subs:
                rec["oracle"].append("read-after-refused-write-subregions")
        first = (f"CRound {g.b(m1['exact'])} {g.b(fd1['pyth'])} {g.s(c['rep1'])} {c_field_in(fd1, f1)} {c_subs(subs1)} "
                 f"true None (Some {c_grid(fo)}) {cobs}")
        obs["file"] = fo
        coq = f"CBoth ({first}) ({refused})"
    rec["oracle"] = sorted(set(rec["oracle"]))
    rec.update(obs=jsafe(obs), coq=coq,
               key=f"refused/{c['why']}/{c['fresh']}/{c['rep1']}/{c['rep2']}/{len(m2['n'])}/{fd2['nv']}/{len(subs1)}/"
                   f"{len(subs2)}/{st2}/{st_r}/{c['pathlib']}",
               size=sum(fd1["mesh"]["n"]) + sum(m2["n"]))
    shutil.rmtree(d, ignore_errors=True)
    return rec


def write_side(path, side):
    if side is None:
        return
    js_ = {nm: dict(pmin=fls(a), pmax=fls(b), dims=["x", "y", "z"], units=["m", "m", "m"],
                    tolerance_factor=1e-12) for nm, a, b in side}
    with open(path + ".subregions.json", "w") as fh:
        json.dump(js_, fh)


def run_read(c):
    rec = dict(kind="read", case=c, oracle=[], tags=[])
    d = newdir()
    path = os.path.join(d, "f.vtk")
    arrays = [[nm, nc, [F(x) for x in v]] for nm, nc, v in c["arrays"]]
    bare_write(path, c["rep"], c["n"], [[F(x) for x in cc] for cc in c["coords"]], arrays)
    write_side(path, c["side"])
    fo = bare_read(path)
    st, r = attempt(lambda: df.Field.from_file(path))
    n = c["n"]
    if st == "ok":
        ro = field_obs(r)
        obs = dict(file=fo, read=ro)
        cobs = f"(Some {c_fld(ro)})"
        # oracle: one value per cell, in the cell the file's tuple order assigns
        fa = [a for a in fo["arrays"] if a[0] == "field"]
        if fa and len(fa[-1][2]) == math.prod(n) * fa[-1][1]:
            nc = fa[-1][1]
            got = np.array(ro["vals"], dtype=object).reshape(*n, nc) if len(ro["vals"]) == math.prod(n) * nc else None
            if got is None or ro["n"] != list(n):
                rec["oracle"].append("read-shape")
            else:
                for i, j, k in itertools.product(*[range(x) for x in n]):
                    cid = i + n[0] * (j + n[1] * k)
                    if list(got[i, j, k]) != fa[-1][2][cid * nc:(cid + 1) * nc]:
                        rec["oracle"].append("read-cell-order")
                        break
    else:
        obs = dict(file=fo, read_err=r)
        cobs = "None"
        if c["variant"] == "plain" and c["side"] is None:
            rec["oracle"].append("well-formed-file-rejected")
    side = "None" if c["side"] is None else f"(Some {c_subs(c['side'])})"
    rec.update(obs=jsafe(obs), coq=f"CRead {c_grid(fo)} {side} {cobs}",
               key=f"read/{c['variant']}/{c['rep']}/{tuple(n)}/{st}/{c['side'] is None}", size=sum(n))
    shutil.rmtree(d, ignore_errors=True)
    return rec


def run_legacy(c):
    rec = dict(kind="legacy", case=c, oracle=[], tags=[])
    d = newdir()
    path = os.path.join(d, "f.vtk")
    coords = [[F(x) for x in cc] for cc in c["coords"]]
    if any(len(cc) == 1 and abs(cc[0]) >= 10 ** 8 for cc in coords):
        rec["tags"].append(T_LEGFAR)
    rows = [[F(x) for x in r] for r in c["rows"]]
    with open(path, "w") as fh:
        fh.write(legacy_text(coords, c["vec"], rows))
    write_side(path, c["side"])
    st, r = attempt(lambda: df.Field.from_file(path))
    n = c["n"]
    dim = 3 if c["vec"] else 1
    if st == "ok":
        ro = field_obs(r)
        obs = dict(read=ro)
        cobs = f"(Some {c_fld(ro)})"
        if c["variant"] in ("plain", "long"):
            if ro["n"] != list(n) or ro["nv"] != dim:
                rec["oracle"].append("legacy-shape")
            else:
                # one value per cell: cell centres are the file's points, values in file order
                for a in range(3):
                    cell = (ro["pmax"][a] - ro["pmin"][a]) / n[a]
                    sc = max(abs(ro["pmin"][a]), abs(ro["pmax"][a]), ro["pmax"][a] - ro["pmin"][a])
                    for j in range(n[a]):
                        if abs(ro["pmin"][a] + (j + F(1, 2)) * cell - coords[a][j]) > F(1, 10 ** 9) * sc:
                            rec["oracle"].append("legacy-centres")
                got = np.array(ro["vals"], dtype=object).reshape(*n, dim)
                for i, j, k in itertools.product(*[range(x) for x in n]):
                    if list(got[i, j, k]) != rows[i + n[0] * (j + n[1] * k)]:
                        rec["oracle"].append("legacy-cell-order")
                        break
                if not all(ro["valid"]):
                    rec["oracle"].append("legacy-validity")
    else:
        obs = dict(read_err=r)
        cobs = "None"
        if c["variant"] in ("plain", "long"):
            rec["oracle"].append("legacy-file-rejected")
    rec["oracle"] = sorted(set(rec["oracle"]))
    side = "None" if c["side"] is None else f"(Some {c_subs(c['side'])})"
    rec.update(obs=jsafe(obs),
               coq=f"CLegacy {g.b(c['exact'] and min(n) >= 2)} {g.qll(coords)} {g.b(c['vec'])} {g.qll(rows)} {side} {cobs}",
               key=f"legacy/{c['exact']}/{c['variant']}/{tuple(n)}/{c['vec']}/{st}", size=sum(n))
    shutil.rmtree(d, ignore_errors=True)
    return rec


def run_case(c):
    return dict(grid=run_grid, round=run_round, read=run_read, legacy=run_legacy, refused=run_refused,
                overwrite=run_overwrite)[c["kind"]](c)


def stats(records):
    out = {}
    for r in records:
        o = r["obs"]
        st = "rejected" if ("err" in o or "write_err" in o or "read_err" in o) else "ok"
        k = f"{r['kind']}/{st}"
        out[k] = out.get(k, 0) + 1
    return out
