"""C17 — xarray export/import: generators, implementation runner, Gallina encoding, property oracle.

Case kinds
  export : build a field, call to_xarray(unit=...), record the DataArray           (Coq: CExport)
  round  : from_xarray(to_xarray(f)), record the resulting field / rejection        (Coq: CRound)
  import : to_xarray(f), then edit the DataArray (attributes removed, coordinate units removed,
           coordinates replaced / perturbed / dropped, component axis renamed, nvdim changed),
           record the edited DataArray and what from_xarray makes of it              (Coq: CImport)
  raw    : a DataArray built directly with xarray (no export involved)              (Coq: CImport)
"""
import json
import math
import random
from fractions import Fraction as F

import numpy as np
import xarray as xr

from harness import gallina as g
from harness.util import import_df, attempt

df = import_df()

try:        # the runner is a private subprocess: a runaway allocation must fail there, not take the machine down
    import resource
    _soft, _hard = resource.getrlimit(resource.RLIMIT_AS)
    _cap = 16 * 2 ** 30
    if _soft == resource.RLIM_INFINITY or _soft > _cap:
        resource.setrlimit(resource.RLIMIT_AS, (_cap, _hard))
except (ImportError, ValueError, OSError):
    pass

SCALES = [1e-12, 1e-9, 1e-6, 1e-3, 1.0, 1e3, 1e6]
DIM_POOL = ["x", "y", "z", "a", "b", "t", "r0", "long_name", "X", "q_1", "u", "w", "V", "n", "r", "v", "T", "cell",
            "pmin", "nvdim", "units"]
UNIT_POOL = ["m", "nm", "s", "T", "um", "arb. u.", "", "A/m", "rad"]
LABEL_POOLS = [["x", "y", "z", "w4"], ["a", "b", "c", "d"], ["mx", "my", "mz", "mt"], ["v0", "v1", "v2", "v3"],
               ["re", "im", "p3", "p4"], ["z", "y", "x", "t"], ["c0", "C0", "c_0", "c00"], ["p", "pq", "pqr", "pqrs"],
               ["qa", "q", "qab", "qabc"]]
LABEL_POOLS = [pool for pool in LABEL_POOLS if not any(hasattr(df.Field, lab) for lab in pool)]
DTYPES = ["float64", "float64", "float64", "float32", "int64", "int32", "complex128", "complex64", "bool", "uint8",
          "uint16", "int8"]
NP_RTOL, NP_ATOL = F(1, 10 ** 5), F(0)
TAG_SLABEL = "C17-scalar-label-lost"
TAG_VDIMSDIM = "C17-dim-named-vdims"


def S(x):
    return g.qs(x)


def fl(s):
    return float(F(s))


def tfq(x):
    """tolerance factors travel as the decimal the float prints as (1e-12 -> 1/10^12)"""
    return F(repr(float(x)))


# ------------------------------------------------------------------ generators
def gen_values(rng, dtype, count, exact):
    out = []
    for _ in range(count):
        if dtype.startswith("float"):
            v = rng.randint(-4096, 4096) / 64 if (exact or rng.random() < 0.3) else rng.uniform(-1, 1) * 10 ** rng.randint(-9, 9)
            if dtype == "float64" and rng.random() < 0.1:
                v = v * 2.0 ** rng.choice([-200, -60, 90, 300])        # tiny / huge magnitudes
            out.append(float(np.dtype(dtype).type(v)))
        elif dtype.startswith(("int", "uint")):
            info = np.iinfo(dtype)
            r = rng.random()
            if r < 0.15:
                out.append(int(rng.choice([info.min, info.max, info.max - 1, info.min + 1])))    # overflow limits
            else:
                out.append(rng.randint(max(int(info.min), -1000), min(int(info.max), 1000)))
        elif dtype == "bool":
            out.append(rng.randint(0, 1))
        else:
            out.append([float(np.float32(rng.uniform(-5, 5))), float(np.float32(rng.uniform(-5, 5)))])
    return out


def gen_field(rng, exact, tier, nd=None, nvdim=None, min_n=1):
    nd = nd or rng.choice([1, 1, 2, 2, 3, 3, 4])
    nmax = 6 if tier == "quick" else 9
    while True:
        n = [rng.randint(min_n, nmax) for _ in range(nd)]
        if rng.random() < 0.25 and min_n == 1:
            n[rng.randrange(nd)] = 1
        if math.prod(n) <= (72 if tier == "quick" else 200):
            break
    p1, p2 = [], []
    extra = {}
    if exact and rng.random() < 0.2:
        # integer-typed corners (Python ints / int64 arrays), fractional cells, half-integer centres
        n = [rng.choice([1, 2, 4]) if rng.random() < 0.7 else k for k in n]
        for i, k in enumerate(n):
            ext = rng.randint(1, 9) * (k if k not in (1, 2, 4) else 1)
            lo = rng.randint(-20, 20)
            hi = lo + ext
            if rng.random() < 0.4:
                lo, hi = hi, lo
            p1.append(F(lo))
            p2.append(F(hi))
        extra["corner_type"] = rng.choice(["int", "int64arr", "int32arr"])
        tf = tfq(rng.choice([2.0 ** -20, 2.0 ** -30, 2.0 ** -40, 2.0 ** -40, 0.0, 0.0, 1.0]))
    elif exact:
        e = rng.choice([0, 0, 0, -200, -60, 60, 300])       # magnitudes 2^-200 .. 2^300: any absolute tolerance shows
        extra["pow2"] = e
        for k in n:
            cell = F(rng.choice([1, 3, 5, 7]), 2 ** rng.randint(0, 4))
            lo = F(rng.randint(-256, 256), 8)
            hi = lo + k * cell
            if rng.random() < 0.4:
                lo, hi = hi, lo
            p1.append(lo * F(2) ** e)
            p2.append(hi * F(2) ** e)
        tf = tfq(rng.choice([2.0 ** -20, 2.0 ** -30, 2.0 ** -40, 2.0 ** -40, 0.0, 0.0, 1.0]))
    else:
        s = rng.choice(SCALES)
        for k in n:
            cell = round(rng.uniform(0.5, 9.5), rng.choice([0, 1, 2]))
            off = rng.choice([0.0, 0.0, -float(k), round(rng.uniform(-50, 50), 1), round(rng.uniform(-900, 900), 1)])
            lo = off * cell * s
            hi = (off + k) * cell * s
            if rng.random() < 0.4:
                lo, hi = hi, lo
            p1.append(F(lo))
            p2.append(F(hi))
        tf = tfq(rng.choice([1e-12, 1e-12, 1e-9, 1e-6, 1e-3, 1e-30, 0.0, 0.0, 1.0]))
    dims = rng.sample(DIM_POOL, nd) if rng.random() < 0.7 else (["x", "y", "z"][:nd] if nd <= 3 else [f"x{i}" for i in range(nd)])
    units = [rng.choice(UNIT_POOL) for _ in range(nd)] if rng.random() < 0.7 else ["m"] * nd
    nvdim = nvdim or rng.choice([1, 1, 2, 3, 3, 4])
    if nvdim == 1:
        vdims = None
    elif rng.random() < 0.15:
        vdims = []                        # explicitly unlabelled vector field (field.vdims is None)
    elif rng.random() < 0.3:
        vdims = None                      # constructor default labels
    else:
        vdims = rng.choice(LABEL_POOLS)[:nvdim]
        if rng.random() < 0.3:
            vdims = list(reversed(vdims))
    dtype = rng.choice(DTYPES)
    unit = rng.choice([None, None, "A/m", "T", "J/m3", ""])
    data = gen_values(rng, dtype, math.prod(n) * nvdim, exact)
    # falsy-but-present values separate 'restored if present' from 'restored if truthy'
    extra["tf_type"] = rng.choice(["float", "np64", "int", "bool"] if tf in (0, 1) else ["float", "float", "np64"])
    extra["n_type"] = rng.choice(["list", "list", "tuple", "uint8", "int32", "int64arr", "uint16", "int8"])
    extra["nvdim_type"] = rng.choice([None, None, None, "int64", "int8", "uint16", "uint8", "int32"])
    return dict(exact=exact, p1=[S(x) for x in p1], p2=[S(x) for x in p2], dims=dims, units=units, tf=S(tf),
                n=n, nvdim=nvdim, vdims=vdims, dtype=dtype, unit=unit, data=data, **extra)


def geom(fs):
    p1, p2 = [F(x) for x in fs["p1"]], [F(x) for x in fs["p2"]]
    lo = [min(a, b) for a, b in zip(p1, p2)]
    hi = [max(a, b) for a, b in zip(p1, p2)]
    return lo, hi, [(h - l) / k for l, h, k in zip(lo, hi, fs["n"])]


GEO_ATTRS = ["cell", "pmin", "pmax"]
DEFAULT_LABELS = {2: ["x", "y"], 3: ["x", "y", "z"], 4: ["v0", "v1", "v2", "v3"]}


def gen_imports(rng, fs, tier):
    """edits of the exported DataArray"""
    nd = len(fs["n"])
    lo, hi, cell = geom(fs)
    out = []
    # attributes complete / partly / wholly removed (all 8 subsets of the geometric ones over time)
    subsets = [[a for i, a in enumerate(GEO_ATTRS) if (m >> i) & 1] for m in range(8)]
    for sub in rng.sample(subsets, 3) + [list(GEO_ATTRS)]:
        mods = dict(del_attrs=list(sub))
        if rng.random() < 0.4:
            mods["del_attrs"].append("tolerance_factor")
        if rng.random() < 0.3:
            mods["del_attrs"].append("units")
        if rng.random() < 0.35:
            mods["del_cunits"] = sorted(rng.sample(range(nd), rng.randint(1, nd)))
        if fs["nvdim"] > 1 and rng.random() < 0.25:
            mods["drop_vdims_coord"] = True
        out.append(("attrs-" + ("".join(a[-3:] for a in sub) or "kept"), mods))
    # present-but-empty cell containers (presence, not truthiness, decides where the cell comes from)
    if rng.random() < 0.3:
        out.append(("cell-empty", dict(attr_repr={"cell": rng.choice(["empty_tuple", "empty_list", "empty_array"])},
                                       del_attrs=rng.choice([[], ["pmin"], ["pmin", "pmax"]]))))
    # rejections named by the property
    out.append(("no-nvdim", dict(del_attrs=["nvdim"] + rng.choice([[], list(GEO_ATTRS)]))))
    if fs["nvdim"] > 1:
        out.append(("no-vdims-axis", dict(rename_vdims=rng.choice([x for x in ["comp", "vdim", "Vdims", "v"] if x not in fs["dims"]]),
                                          drop_vdims_coord=rng.random() < 0.5,
                                          del_attrs=rng.choice([[], list(GEO_ATTRS)]))))
        out.append(("nvdim-changed", dict(set_nvdim=rng.choice([k for k in (1, 2, 3, 4, 5) if k != fs["nvdim"]]))))
    else:
        out.append(("nvdim-changed", dict(set_nvdim=rng.choice([0, -1, 2, 3, False, 0.0]))))
    # new evenly spaced coordinates, geometry to be rebuilt from them
    for _ in range(2):
        coords = {}
        s = rng.choice(SCALES)        # one scale per case (Mesh(cell=...) uses min(cell)*1e-3 across all axes)
        for a in range(nd):
            if not fs["exact"] or rng.random() < 0.7:      # scale regime: every axis, so one scale per case
                if fs["exact"]:
                    e2 = F(2) ** (fs.get("pow2") or 0)        # same magnitude as the field (kept attributes stay comparable)
                    c = F(rng.choice([1, 3, 5, 9]), 2 ** rng.randint(0, 5)) * e2
                    x0 = F(rng.randint(-512, 512), 16) * e2
                    vals = [x0 + j * c for j in range(fs["n"][a])]
                else:
                    # the field's own scale: a kept 'cell' attribute and the new spacing stay within a factor of ~20
                    c = round(rng.uniform(0.2, 4.0), 2) * float(cell[a])
                    x0 = rng.choice([0.0, round(rng.uniform(-300, 300), 1)]) * c
                    vals = [F(x0 + j * c) for j in range(fs["n"][a])]
                coords[str(a)] = [S(v) for v in vals]
        sub = rng.choice([list(GEO_ATTRS), list(GEO_ATTRS), ["pmin", "pmax"], ["cell", "pmin"], ["cell", "pmax"]])
        out.append(("even-coords", dict(coords=coords, del_attrs=sub)))
    # coordinate dtypes: float32 (dyadic: exact; decimal: single-precision tolerance), unsigned / narrow integers
    r = rng.random() if all(k >= 2 for k in fs["n"]) else 1.0
    if r < 0.25:
        out.append(("f32-dyadic-coords", dict(
            coords={str(a): [S(F(rng.randint(-64, 64), 4) + j * F(rng.choice([1, 2, 3, 6]), 4)) for j in range(fs["n"][a])]
                    for a in range(nd)}, coord_dtype="float32", del_attrs=list(GEO_ATTRS))))
        for a in range(nd):        # one progression per axis: recompute with a fixed start / step
            x0, c = F(rng.randint(-64, 64), 4), F(rng.choice([1, 2, 3, 6]), 4)
            out[-1][1]["coords"][str(a)] = [S(x0 + j * c) for j in range(fs["n"][a])]
    elif r < 0.45:
        coords = {}
        for a in range(nd):
            c = round(rng.uniform(0.2, 9.0), 2)
            x0 = round(rng.uniform(-8, 8), 1) * c
            coords[str(a)] = [S(F(float(np.float32(x0 + j * c)))) for j in range(fs["n"][a])]
        out.append(("f32-decimal-coords", dict(coords=coords, coord_dtype="float32", del_attrs=list(GEO_ATTRS),
                                               inexact=True, f32=True)))
    elif r < 0.6:
        dt = rng.choice(["uint8", "int16", "uint32", "int64"])
        coords = {}
        for a in range(nd):
            x0, c = rng.randint(0, 5), rng.randint(1, 4)
            coords[str(a)] = [S(x0 + j * c) for j in range(fs["n"][a])]
        out.append(("typed-int-coords", dict(coords=coords, int_coords=True, coord_dtype=dt, del_attrs=list(GEO_ATTRS))))
    # attributes as tuples / lists / numpy scalars / float32 or integer containers; typed nvdim and tolerance
    if rng.random() < 0.6:
        kinds = ["tuple", "list", "npscalars", "f32array", "intlist", "ndarray"]
        rp = {a: rng.choice(kinds) for a in GEO_ATTRS}
        rp["nvdim"] = rng.choice(["int", "uint8", "int16", "int64", "uint32"])
        rp["tolerance_factor"] = rng.choice(["np", "py", "int", "bool"])
        sub = rng.choice([[], [], ["pmin"], ["pmax"], ["cell"], ["pmin", "pmax"]])
        out.append(("attr-types", dict(del_attrs=sub, attr_repr=rp)))
    if rng.random() < 0.15 and all(k >= 2 for k in fs["n"]):
        # decreasing coordinates while the geometric attributes are still there
        a = rng.randrange(nd)
        vals = [hi[a] - (j + F(1, 2)) * cell[a] for j in range(fs["n"][a])]
        out.append(("decreasing-attrs-kept", dict(coords={str(a): [S(v) for v in vals]}, del_attrs=[])))
    if rng.random() < 0.3:
        out.append(("int-coords", dict(coords={str(a): [S(3 * j - 4) for j in range(fs["n"][a])] for a in range(nd)},
                                       del_attrs=list(GEO_ATTRS), int_coords=True)))
    if rng.random() < 0.3:
        out.append(("dropped-coords", dict(drop_coords=sorted(rng.sample(range(nd), rng.randint(1, nd))),
                                           del_attrs=list(GEO_ATTRS))))
    if rng.random() < 0.3 and all(k >= 2 for k in fs["n"]):
        a = rng.randrange(nd)
        vals = [hi[a] - (j + F(1, 2)) * cell[a] for j in range(fs["n"][a])]
        out.append(("decreasing", dict(coords={str(a): [S(v) for v in vals]}, del_attrs=list(GEO_ATTRS))))
    # perturbed coordinates around numpy's allclose threshold
    axes3 = [a for a in range(nd) if fs["n"][a] >= 3]
    for _ in range(3 if axes3 else 0):
        a = rng.choice(axes3)
        k = fs["n"][a]
        c = cell[a]
        thr = NP_ATOL + NP_RTOL * c
        cls = rng.choice(["thr-", "thr+", "thr-", "thr+", "0.3c", "0.3c", "1e-7c", "0.01c", "2thr", "thr/2"])
        eps = {"thr-": thr * F(999, 1000), "thr+": thr * F(1001, 1000), "0.3c": c * F(3, 10), "1e-7c": c / 10 ** 7,
               "0.01c": c / 100, "2thr": 2 * thr, "thr/2": thr / 2}[cls]
        if eps > c * F(45, 100):
            cls, eps = "0.3c", c * F(3, 10)
        j = rng.randint(1, k - 2)
        sign = rng.choice([1, -1])
        vals = [float(lo[a] + (i + F(1, 2)) * c) for i in range(k)]
        vals[j] = float(F(vals[j]) + sign * eps)
        sub = rng.choice([[], list(GEO_ATTRS), list(GEO_ATTRS), ["cell"]])
        out.append(("perturbed-" + cls, dict(coords={str(a): [S(v) for v in vals]}, del_attrs=sub, inexact=True)))
    # last point moved (changes the mean as well)
    if axes3 and rng.random() < 0.5:
        a = rng.choice(axes3)
        k = fs["n"][a]
        vals = [float(lo[a] + (i + F(1, 2)) * cell[a]) for i in range(k)]
        vals[-1] = float(F(vals[-1]) + cell[a] * rng.choice([F(1, 2), F(-1, 4), F(1, 1000), F(1, 10 ** 6)]))
        out.append(("last-moved", dict(coords={str(a): [S(v) for v in vals]}, del_attrs=list(GEO_ATTRS), inexact=True)))
    return out


def gen_raw(rng, exact):
    """DataArrays that never saw to_xarray"""
    nd = rng.choice([1, 2, 3])
    n = [rng.randint(2, 4) for _ in range(nd)]
    nvdim = rng.choice([1, 2, 3])
    dims = rng.sample(DIM_POOL, nd)
    coords = []
    scale = rng.choice(SCALES)
    for k in n:
        if exact:
            c = F(rng.choice([1, 3, 5]), 2 ** rng.randint(0, 3))
            x0 = F(rng.randint(-64, 64), 4)
        else:
            c = F(round(rng.uniform(0.2, 9.0), 2) * scale)
            x0 = F(float(rng.choice([0, rng.randint(-40, 40)]) * c))
        coords.append([S(F(float(x0 + j * c))) for j in range(k)])
    attrs = dict(nvdim=nvdim)
    if rng.random() < 0.3:
        attrs.pop("nvdim")
    with_vdims_coord = nvdim > 1 and rng.random() < 0.6
    labels = rng.choice(LABEL_POOLS)[:nvdim] if with_vdims_coord else None
    cunits = [rng.choice(UNIT_POOL) if rng.random() < 0.5 else None for _ in range(nd)]
    dtype = rng.choice(["float64", "int64", "float32"])
    data = gen_values(rng, dtype, math.prod(n) * nvdim, True)
    return dict(kind="raw", exact=exact, dims=dims, n=n, nvdim=nvdim, coords=coords, attrs=attrs, labels=labels,
                cunits=cunits, dtype=dtype, data=data)


def dfield(r, p1, p2, n, nvdim=1, vdims=None, dims=None, units=None, tf=1e-12, dtype="float64", unit=None, exact=False,
           **extra):
    """hand-written field of the directed core (data from the core's own fixed generator r)"""
    nd = len(n)
    dims = dims or (["x", "y", "z"][:nd] if nd <= 3 else [f"x{i}" for i in range(nd)])
    fs = dict(exact=exact, p1=[S(F(float(x))) for x in p1], p2=[S(F(float(x))) for x in p2], dims=dims,
              units=units or ["m"] * nd, tf=S(tfq(tf)), n=list(n), nvdim=nvdim, vdims=vdims, dtype=dtype, unit=unit,
              data=gen_values(r, dtype, math.prod(n) * nvdim, True), n_type="list", nvdim_type=None, tf_type="float")
    fs.update(extra)
    return fs


def centres(fs, a):
    lo, hi, cell = geom(fs)
    return [lo[a] + (j + F(1, 2)) * cell[a] for j in range(fs["n"][a])], cell[a]


def directed_core():
    """Seed-, tier- and run-independent cases, one small group per mechanism that a seeded change (rounds a-e,
    /verif/seeded/C17-*) or a repaired defect went through.  Never trimmed."""
    r = random.Random(424242)
    out = []

    def exp(fs, unit_arg=None):
        out.append(dict(kind="export", field=fs, unit_arg=unit_arg))

    def rnd(fs):
        out.append(dict(kind="round", field=fs))

    def imp(fs, cls, **mods):
        out.append(dict(kind="import", field=fs, cls="core-" + cls, mods=mods))

    def perturbed(fs, a, frac):
        vals, c = centres(fs, a)
        vals[1] = vals[1] + c * frac
        return {str(a): [S(F(float(v))) for v in vals]}

    # a1 / repaired defect: spacing test must be relative (nanometre coordinates, clearly uneven)
    for sc in (1e-9, 1e-12, 1e-6):
        fs = dfield(r, [0.0, -3 * sc], [5 * sc, 9 * sc], [5, 4], nvdim=2, vdims=["a", "b"])
        imp(fs, "uneven-small-scale", coords=perturbed(fs, 0, F(3, 10)), del_attrs=list(GEO_ATTRS), inexact=True)
        imp(fs, "uneven-small-scale-attrs", coords=perturbed(fs, 1, F(-3, 10)), del_attrs=[], inexact=True)
    # b3: uneven coordinates while 'cell' (and the corners) are still there, ordinary scale
    fs = dfield(r, [1.0], [7.0], [6], exact=True)
    for sub in ([], ["pmin", "pmax"], ["pmin"], ["pmax"]):
        imp(fs, "uneven-cell-kept", coords=perturbed(fs, 0, F(1, 4)), del_attrs=sub, inexact=True)
    fs = dfield(r, [0.0, 0.0, 0.0], [3.0, 4.0, 2.5], [3, 4, 5], nvdim=3, exact=True)
    imp(fs, "uneven-cell-kept", coords=perturbed(fs, 2, F(1, 100)), del_attrs=[], inexact=True)
    # a2: empty-string units are units
    for units in (["", "nm"], ["nm", ""], ["", ""]):
        fs = dfield(r, [0, 0], [2, 3], [2, 3], units=units, exact=True)
        rnd(fs)
        exp(fs)
        imp(fs, "empty-unit", del_attrs=list(GEO_ATTRS))
    # a3: each corner attribute alone
    for sub in (["pmax"], ["pmin"], ["pmax", "cell"], ["pmin", "cell"]):
        fs = dfield(r, [-1.5, 2.0], [2.5, 5.0], [4, 3], nvdim=3, exact=True)
        imp(fs, "one-corner", del_attrs=sub)
        fs2 = dfield(r, [0.1e-9, -20e-9], [5.1e-9, 2e-9], [5, 4])
        imp(fs2, "one-corner", del_attrs=sub)
    # b1: the dtype comes back
    for dt in ("int32", "float32", "uint8", "bool", "complex64", "int64", "int8", "uint16"):
        fs = dfield(r, [0, 0], [2, 2], [2, 2], nvdim=2, vdims=["p", "q"], dtype=dt, exact=True)
        rnd(fs)
        imp(fs, "dtype", del_attrs=list(GEO_ATTRS))
    # b2 / repaired defect: component count held as a numpy integer
    for nt in ("int64", "uint8", "int32", "uint16"):
        for nv in (1, 3):
            rnd(dfield(r, [0, 0], [4, 2], [4, 2], nvdim=nv, exact=True, nvdim_type=nt))
    fs = dfield(r, [0, 0], [4, 2], [4, 2], nvdim=2, exact=True)
    imp(fs, "typed-nvdim", del_attrs=[], attr_repr={"nvdim": "int64"})
    imp(fs, "typed-nvdim", del_attrs=[], attr_repr={"nvdim": "uint8"})
    # c1 / repaired defect: dimension names that are also DataArray attributes
    for dims in (["T", "name"], ["size", "shape"], ["units", "values"], ["dims", "attrs"], ["cell", "nvdim"], ["n", "pmin"]):
        fs = dfield(r, [0, 1], [3, 5], [3, 2], dims=dims, units=["nm", "s"], exact=True)
        exp(fs)
        rnd(fs)
        imp(fs, "attribute-like-dim", del_attrs=list(GEO_ATTRS))
    # c2: a scalar DataArray without nvdim is refused (and a vector one)
    for nv in (1, 1, 3):
        fs = dfield(r, [0, 0], [2, 3], [2, 3], nvdim=nv, exact=True)
        imp(fs, "no-nvdim", del_attrs=["nvdim"])
        imp(fs, "no-nvdim", del_attrs=["nvdim"] + list(GEO_ATTRS))
    # c3: falsy-but-present tolerance and other unusual factors
    for tf, tt in ((0.0, "float"), (0.0, "np64"), (0.0, "int"), (0.0, "bool"), (1.0, "int"), (1e-3, "float"), (1e-30, "float"),
                   (2.0 ** -40, "np64")):
        fs = dfield(r, [-2.0, 0.5], [2.0, 3.5], [4, 3], nvdim=2, tf=tf, tf_type=tt, exact=True)
        rnd(fs)
        exp(fs)
        imp(fs, "tolerance", del_attrs=["cell"])
        fs = dfield(r, [0.1e-9, -20e-9], [5.1e-9, 2e-9], [5, 4], tf=tf, tf_type=tt)
        rnd(fs)
    # d1: a component axis without labels (no 'vdims' coordinate)
    for nv in (2, 3, 4):
        fs = dfield(r, [0, 0], [2, 3], [2, 3], nvdim=nv, vdims=DEFAULT_LABELS[nv][::-1] if nv < 4 else ["a", "b", "c", "d"], exact=True)
        imp(fs, "no-label-coordinate", del_attrs=[], drop_vdims_coord=True)
        imp(fs, "no-label-coordinate", del_attrs=list(GEO_ATTRS), drop_vdims_coord=True)
    # d2: the field's own unit is exported; an explicit argument wins; '' falls back
    for unit, arg in (("A/m", None), ("A/m", "mT"), ("A/m", ""), (None, None), (None, "T"), ("", None)):
        exp(dfield(r, [0.0], [4.0], [4], unit=unit, exact=True), arg)
        exp(dfield(r, [0, 0], [2, 2], [2, 2], nvdim=3, unit=unit, exact=True), arg)
    # d3: custom dimension names survive when a coordinate has no unit
    for dims in (["a", "b"], ["long_name", "q_1"], ["y", "x"]):
        fs = dfield(r, [0, 0], [2, 3], [2, 3], dims=dims, units=["nm", "s"], exact=True)
        imp(fs, "no-coordinate-unit", del_attrs=[], del_cunits=[0])
        imp(fs, "no-coordinate-unit", del_attrs=list(GEO_ATTRS), del_cunits=[0, 1])
        imp(fs, "no-coordinate-unit", del_attrs=["pmin"], del_cunits=[1])
    # e1: used, then the mesh's region moved / scaled directly (and through the mesh), then exported
    for ops in ([dict(op="region.translate", v=[S(F(3)), S(F(-5, 2))])], [dict(op="region.scale", f=2)],
                [dict(op="region.scale", f=-0.5)], [dict(op="mesh.translate", v=[S(F(1, 4)), S(F(7))])],
                [dict(op="mesh.scale", f=4)], [dict(op="mesh.rotate90", a=0, b=1, k=1)],
                [dict(op="region.translate", v=[S(F(1)), S(F(1))]), dict(op="array.write", idx=[1, 2])],
                [dict(op="field.rotate90", a=0, b=1, k=1)]):
        for then in ("export", "round"):
            fs = dfield(r, [0, 1], [3, 4], [3, 3], nvdim=2, exact=True)
            out.append(dict(kind="inplace", field=fs, ops=ops, then=then, unit_arg=None))
    # e2: unlabelled vector fields: no component coordinate on export, importable
    for nd_, nv in ((2, 2), (3, 3), (1, 4), (2, 3), (1, 2)):
        fs = dfield(r, [0.0] * nd_, [2.0] * nd_, [2] * nd_, nvdim=nv, vdims=[], exact=True)
        exp(fs)
        rnd(fs)
        imp(fs, "unlabelled", del_attrs=list(GEO_ATTRS))
        out.append(dict(kind="secondgen", field=fs))
    # e3: single-cell axes with decimal corners and a zero / tiny tolerance: pmin + (pmax - pmin) > pmax in floats
    for lo, hi in ((-20e-9, 2e-9), (-1.9, 0.1), (-0.3, 0.1), (-2.3e-9, 0.7e-9)):
        for tf in (0.0, 1e-30, 1e-12):
            rnd(dfield(r, [lo], [hi], [1], tf=tf))
            rnd(dfield(r, [0.0, lo], [3.0, hi], [3, 1], nvdim=2, tf=tf))
            imp(dfield(r, [lo, lo], [hi, hi], [1, 1], tf=tf), "single-cell-decimal", del_attrs=["pmin", "pmax"])
    # known findings keep being exercised
    fs = dfield(r, [0.0], [3.0], [3], vdims=["s"], exact=True)
    rnd(fs)
    fs = dfield(r, [0, 0], [2, 2], [2, 2], dims=["vdims", "y"], exact=True)
    rnd(fs)
    # hand-built DataArrays: component axis with and without coordinate, missing nvdim
    rr = random.Random(424243)
    for k in range(12):
        out.append(gen_raw(rr, k % 2 == 0))
    return out


def generate(rng, tier):
    nf = 36 if tier == "quick" else 400         # random streams (trimmed to make room for the directed core)
    cases = directed_core()
    for k in range(nf):
        exact = k % 2 == 0
        fs = gen_field(rng, exact, tier)
        cases.append(dict(kind="export", field=fs, unit_arg=rng.choice([None, None, "mT", ""])))
        cases.append(dict(kind="round", field=fs))
        for cls, mods in gen_imports(rng, fs, tier):
            cases.append(dict(kind="import", field=fs, cls=cls, mods=mods))
    # axes with >= 3 cells everywhere: more threshold probes, small and large scales
    for k in range(nf // 2):
        fs = gen_field(rng, k % 3 == 0, tier, nd=rng.choice([1, 2, 3]), min_n=3)
        for cls, mods in gen_imports(rng, fs, tier):
            if cls.startswith(("perturbed", "last", "even", "f32", "typed", "int-", "attr-types", "decreasing")):
                cases.append(dict(kind="import", field=fs, cls=cls, mods=mods))
    for k in range(nf):
        cases.append(gen_raw(rng, k % 2 == 0))
    # scalar fields with an explicit label (known finding C17-scalar-label-lost)
    for k in range(3):
        fs = gen_field(rng, True, tier, nvdim=1)
        fs["vdims"] = [rng.choice(["s", "rho", "T1"])]
        cases.append(dict(kind="round", field=fs))
    # component count held as a numpy integer (as after reading HDF5)
    for k in range(4 if tier == "quick" else 20):
        fs = gen_field(rng, k % 2 == 0, tier)
        fs["np_nvdim"] = True
        cases.append(dict(kind="round", field=fs))
    # used, then changed in place, then exported / round-tripped
    for k in range(nf):
        fs = gen_field(rng, k % 2 == 0, tier)
        cases.append(dict(kind="inplace", field=fs, ops=gen_inplace_ops(rng, fs), then=rng.choice(["export", "round"]),
                          unit_arg=rng.choice([None, None, "mT"])))
    # two fields of equal shape through the same calls, one after the other
    for k in range(nf // 2):
        fa = gen_field(rng, k % 2 == 0, tier)
        fb = json.loads(json.dumps(fa))
        shift = [rng.randint(-40, 40) for _ in fa["n"]]
        lo_, hi_, cell_ = geom(fa)
        mul = rng.choice([2, 4, 3]) if fa.get("corner_type") else rng.choice([2, F(1, 2), F(3, 2), 4])
        if not fa["exact"]:
            mul = F(float(mul))
        fb["p1"] = [S(F(x) * mul + sh * (1 if fa.get("corner_type") else cc)) for x, sh, cc in zip(fa["p1"], shift, cell_)]
        fb["p2"] = [S(F(x) * mul + sh * (1 if fa.get("corner_type") else cc)) for x, sh, cc in zip(fa["p2"], shift, cell_)]
        if not fa["exact"]:
            fb["p1"] = [S(F(float(F(x)))) for x in fb["p1"]]
            fb["p2"] = [S(F(float(F(x)))) for x in fb["p2"]]
        fb["data"] = gen_values(rng, fb["dtype"], math.prod(fb["n"]) * fb["nvdim"], fb["exact"])
        fb["units"] = list(reversed(fa["units"]))
        cases.append(dict(kind="pair", field=fa, second=fb))
    # second generation: export -> import -> export -> import
    for k in range(nf // 2):
        cases.append(dict(kind="secondgen", field=gen_field(rng, k % 2 == 0, tier)))
    # a geometric dimension called 'units' (xa[dim].units would resolve to the coordinate itself)
    fs = gen_field(rng, True, tier, nd=2)
    fs["dims"] = ["units", "y"]
    cases.append(dict(kind="round", field=fs))
    # a geometric dimension called 'vdims' (known finding C17-dim-named-vdims; oracle only)
    fs = gen_field(rng, True, tier, nd=2, nvdim=1)
    fs["dims"] = ["vdims", "y"]
    cases.append(dict(kind="round", field=fs))
    return cases


# ------------------------------------------------------------------ implementation side
def np_values(fs):
    dt = np.dtype(fs["dtype"])
    if dt.kind == "c":
        arr = np.array([complex(a, b) for a, b in fs["data"]], dtype=dt)
    else:
        arr = np.array(fs["data"]).astype(dt)
    return arr.reshape(*fs["n"], fs["nvdim"])


def typed_n(n, kind):
    if kind == "tuple":
        return tuple(n)
    if kind == "int64arr":
        return np.array(n, dtype=np.int64)
    if kind in ("uint8", "int32", "uint16", "int8"):
        return [np.dtype(kind).type(k) for k in n]
    return list(n)


def build_field(fs):
    ct = fs.get("corner_type")
    if ct == "int":
        p1, p2 = [int(F(x)) for x in fs["p1"]], tuple(int(F(x)) for x in fs["p2"])
    elif ct in ("int64arr", "int32arr"):
        dt = np.int64 if ct == "int64arr" else np.int32
        p1, p2 = np.array([int(F(x)) for x in fs["p1"]], dtype=dt), np.array([int(F(x)) for x in fs["p2"]], dtype=dt)
    else:
        p1, p2 = [fl(x) for x in fs["p1"]], [fl(x) for x in fs["p2"]]
    tfv = float(F(fs["tf"]))
    tt = fs.get("tf_type")
    if tt == "np64":
        tfv = np.float64(tfv)
    elif tt == "int" and tfv in (0.0, 1.0):
        tfv = int(tfv)
    elif tt == "bool" and tfv in (0.0, 1.0):
        tfv = bool(tfv)
    region = df.Region(p1=p1, p2=p2, dims=fs["dims"], units=fs["units"], tolerance_factor=tfv)
    mesh = df.Mesh(region=region, n=typed_n(fs["n"], fs.get("n_type")))
    nvdim = np.int64(fs["nvdim"]) if fs.get("np_nvdim") else fs["nvdim"]
    if fs.get("nvdim_type"):
        nvdim = np.dtype(fs["nvdim_type"]).type(fs["nvdim"])
    return df.Field(mesh, nvdim=nvdim, value=np_values(fs), vdims=fs["vdims"], dtype=np.dtype(fs["dtype"]),
                    unit=fs["unit"])


def flat(arr):
    """C-order flattening as exact rationals; complex -> re, im"""
    a = np.asarray(arr)
    if a.dtype.kind == "c":
        out = []
        for v in a.reshape(-1).tolist():
            out += [F(v.real), F(v.imag)]
        return out
    if a.dtype.kind == "b":
        return [F(int(v)) for v in a.reshape(-1).tolist()]
    return [F(v) for v in a.reshape(-1).tolist()]


def fracs(xs):
    return [F(x) if not isinstance(x, (float, np.floating)) else F(float(x)) for x in np.asarray(xs).reshape(-1).tolist()]


def observe_da(xa):
    dims = [str(d) for d in xa.dims]
    geo = [d for d in dims if d != "vdims"]
    at = xa.attrs

    def opt_list(key):
        return fracs(at[key]) if key in at else None
    numeric = all(np.asarray(xa[d].values).dtype.kind in "iuf" for d in geo)
    return dict(dims=dims, shape=[int(s) for s in xa.values.shape], numeric=numeric,
                coords=[fracs(xa[d].values) if numeric else [] for d in geo],
                cunits=[xa[d].attrs.get("units") for d in geo],
                vdims=[str(v) for v in np.atleast_1d(xa["vdims"].values)] if "vdims" in xa.coords else None,
                data=flat(xa.values), dtype=str(xa.values.dtype),
                a_units=at.get("units"), a_cell=opt_list("cell"), a_pmin=opt_list("pmin"), a_pmax=opt_list("pmax"),
                a_nvdim=int(at["nvdim"]) if "nvdim" in at else None,
                a_tf=tfq(at["tolerance_factor"]) if "tolerance_factor" in at else None)


def observe_field(f):
    r = f.mesh.region
    return dict(pmin=fracs(r.pmin), pmax=fracs(r.pmax), dims=[str(d) for d in r.dims], units=[str(u) for u in r.units],
                tf=tfq(r.tolerance_factor), n=[int(k) for k in f.mesh.n], nvdim=int(f.nvdim),
                vdims=None if f.vdims is None else [str(v) for v in f.vdims], dtype=str(f.array.dtype),
                unit=f.unit, data=flat(f.array))


def ostr(x):
    return g.opt(x, g.s)


def da_coq(o):
    return ("(mkDA " + " ".join([
        g.sl(o["dims"]), g.zl(o["shape"]), g.qll(o["coords"]), g.lst(o["cunits"], ostr),
        g.opt(o["vdims"], g.sl), g.ql(o["data"]), g.s(o["dtype"]), ostr(o["a_units"]),
        g.opt(o["a_cell"], g.ql), g.opt(o["a_pmin"], g.ql), g.opt(o["a_pmax"], g.ql),
        g.opt(o["a_nvdim"], g.z), g.opt(o["a_tf"], g.q)]) + ")")


def field_coq(o):
    reg = f'(mkRegion {g.ql(o["pmin"])} {g.ql(o["pmax"])} {g.sl(o["dims"])} {g.sl(o["units"])} {g.q(o["tf"])})'
    return (f'(mkField (mkMesh {reg} {g.zl(o["n"])} ""%string []) {g.z(o["nvdim"])} {g.opt(o["vdims"], g.sl)} '
            f'{g.s(o["dtype"])} {ostr(o["unit"])} {g.ql(o["data"])})')


def fspec_coq(fs, data):
    return " ".join([g.ql(fs["p1"]), g.ql(fs["p2"]), g.sl(fs["dims"]), g.sl(fs["units"]), g.q(fs["tf"]),
                     g.zl(fs["n"]), g.z(fs["nvdim"]), g.opt(fs["vdims"], g.sl), g.s(fs["dtype"]), ostr(fs["unit"]),
                     g.ql(data)])


def jsafe(o):
    if isinstance(o, dict):
        return {k: jsafe(v) for k, v in o.items()}
    if isinstance(o, (list, tuple)):
        return [jsafe(v) for v in o]
    if isinstance(o, F):
        return S(o)
    return o


def short(o):
    """observables for the evidence / replay: data abbreviated"""
    o = jsafe(o)
    if isinstance(o, dict) and "data" in o and len(o["data"]) > 12:
        o = dict(o, data=o["data"][:12] + [f"... {len(o['data'])} values"])
    return o


def apply_mods(xa, fs, mods):
    geo = [d for d in xa.dims if d != "vdims"]
    for key, vals in mods.get("coords", {}).items():
        d = geo[int(key)]
        keep = dict(xa[d].attrs)
        fr = [F(v) for v in vals]
        arr = np.array([int(v) for v in fr]) if mods.get("int_coords") else np.array([float(v) for v in fr])
        if mods.get("coord_dtype"):
            arr = arr.astype(np.dtype(mods["coord_dtype"]))
        xa = xa.assign_coords({d: arr})
        xa[d].attrs.update(keep)
    for a in mods.get("drop_coords", []):
        xa = xa.drop_vars(geo[a])
    for a in mods.get("del_cunits", []):
        if geo[a] in xa.coords:
            xa[geo[a]].attrs.pop("units", None)
    if mods.get("drop_vdims_coord") and "vdims" in xa.coords:
        xa = xa.drop_vars("vdims")
    if "rename_vdims" in mods and "vdims" in xa.dims:
        xa = xa.rename({"vdims": mods["rename_vdims"]})
    for a in mods.get("del_attrs", []):
        xa.attrs.pop(a, None)
    if "set_nvdim" in mods:
        xa.attrs["nvdim"] = mods["set_nvdim"]
    for key, how in mods.get("attr_repr", {}).items():
        if key not in xa.attrs:
            continue
        v = xa.attrs[key]
        if key in GEO_ATTRS:
            vals = np.asarray(v).tolist()
            if how.startswith("empty_"):
                v = {"empty_tuple": (), "empty_list": [], "empty_array": np.array([], dtype=float)}[how]
            elif how == "tuple":
                v = tuple(float(x) for x in vals)
            elif how == "list":
                v = [float(x) for x in vals]
            elif how == "npscalars":
                v = [np.float64(x) for x in vals]
            elif how == "f32array" and all(float(np.float32(x)) == float(x) for x in vals):
                v = np.array(vals, dtype=np.float32)
            elif how == "intlist" and all(float(x) == int(x) and abs(x) < 2 ** 53 for x in vals):
                v = [int(x) for x in vals]
            else:
                v = np.array(vals, dtype=float)
            if how.startswith("empty_"):
                pass
        elif key == "nvdim":
            v = np.dtype(how).type(v) if how != "int" else int(v)
        elif key == "tolerance_factor":
            if how == "int" and float(v) == int(float(v)):
                v = int(float(v))
            elif how == "bool" and float(v) in (0.0, 1.0):
                v = bool(float(v))
            else:
                v = np.float64(v) if how == "np" else float(v)
        xa.attrs[key] = v
    return xa


MAX_IMPLIED_CELLS = 2 * 10 ** 5


def implied_cells(o):
    """number of cells from_xarray would ask for, from the observed DataArray (cell attribute or mean spacing,
    corner attributes or outermost coordinates); None if it cannot be estimated"""
    try:
        total = 1
        for a, v in enumerate(o["coords"]):
            if not v:
                return None
            if o["a_cell"] is not None:
                c = o["a_cell"][a]
            elif len(v) >= 2:
                c = (v[-1] - v[0]) / (len(v) - 1)
            else:
                return None
            if c == 0:
                return None
            lo_ = o["a_pmin"][a] if o["a_pmin"] is not None else v[0] - c / 2
            hi_ = o["a_pmax"][a] if o["a_pmax"] is not None else v[-1] + c / 2
            total *= max(1, abs(int((hi_ - lo_) / c)))
        return total
    except (IndexError, TypeError, ZeroDivisionError):
        return None


def max_unevenness(coords):
    """largest |d - mean| / |mean| over the axes (exact); None for axes with < 2 points"""
    worst = F(0)
    accepted_by_numpy = True
    for v in coords:
        if len(v) < 2:
            continue
        d = [b - a for a, b in zip(v, v[1:])]
        mu = sum(d) / len(d)
        dev = max(abs(x - mu) for x in d)
        if mu == 0:
            return None, accepted_by_numpy
        worst = max(worst, dev / abs(mu))
        if dev > NP_ATOL + NP_RTOL * abs(mu):
            accepted_by_numpy = False
    return worst, accepted_by_numpy


def close(a, b, scale, exact, rel=F(1, 10 ** 9)):
    return a == b if exact else abs(a - b) <= rel * scale


def same_field(fo, go, lo_hi_exact, check_tf=True):
    """the property's 'equal field with the same labels and dtype' on two observed fields"""
    bad = []
    if go["dims"] != fo["dims"] or go["n"] != fo["n"]:
        bad.append("round-trip-mesh")
    if go["units"] != fo["units"]:
        bad.append("round-trip-units")
    sc = [max(abs(a), abs(b), b - a) for a, b in zip(fo["pmin"], fo["pmax"])]
    if len(go["pmin"]) != len(fo["pmin"]) or not all(
            close(a, b, s, lo_hi_exact) for a, b, s in zip(fo["pmin"] + fo["pmax"], go["pmin"] + go["pmax"], sc + sc)):
        bad.append("round-trip-corners")
    if go["nvdim"] != fo["nvdim"] or go["data"] != fo["data"]:
        bad.append("round-trip-values")
    want_labels = fo["vdims"]
    if fo["nvdim"] > 1 and not fo["vdims"]:
        # an unlabelled vector field has no 'vdims' coordinate; the constructor then assigns its default labels
        want_labels = DEFAULT_LABELS[fo["nvdim"]]
    if go["vdims"] != want_labels:
        bad.append("round-trip-labels")
    if go["dtype"] != fo["dtype"]:
        bad.append("round-trip-dtype")
    if check_tf and go["tf"] != fo["tf"]:
        bad.append("round-trip-tolerance")
    return bad


def tolerance_behaviour(rf, rg):
    """the imported region must decide `point in region` like the exported one just outside the faces: at half and
    twice the exported tolerance band and at 1e-13 / 1e-11 of the axis scale (a zero factor contains none of them)"""
    bad = []
    if not (np.array_equal(rf.pmin, rg.pmin) and np.array_equal(rf.pmax, rg.pmax)):
        # sound only for identical corners (corners rebuilt from coordinates differ by rounding, and a probe half a
        # tolerance band outside a face may then fall on the other side); differing corners have clauses of their own
        return bad
    pmin, pmax = np.asarray(rf.pmin, dtype=float), np.asarray(rf.pmax, dtype=float)
    edges = pmax - pmin
    tf = float(rf.tolerance_factor)
    centre = (pmin + pmax) / 2
    for a in range(min(len(pmin), 2)):
        sc = max(abs(pmin[a]), abs(pmax[a]), edges[a])
        ds = [1e-13 * sc, 1e-11 * sc]
        if 0 < tf < 1e-3:
            band = edges.min() * tf + tf * abs(pmax[a])
            ds += [0.5 * band, 2.0 * band]
        for d in ds:
            for face, sign in ((pmax[a], 1.0), (pmin[a], -1.0)):
                p = centre.copy()
                p[a] = face + sign * d
                if p[a] == face:
                    continue
                inf_, ing_ = attempt(lambda: bool(tuple(p) in rf)), attempt(lambda: bool(tuple(p) in rg))
                if inf_ != ing_:
                    bad.append("round-trip-tolerance-behaviour")
                elif tf == 0 and inf_ == ("ok", True):
                    bad.append("zero-tolerance-contains-outside-point")
    return sorted(set(bad))


def export_oracle(st, o, unit_arg, exact):
    """the export clauses of the property, for a field in the observed state st (observe_field) and the
    observed DataArray o"""
    bad = []
    nd = len(st["n"])
    lo, hi = st["pmin"], st["pmax"]
    cell = [(h - l) / k for l, h, k in zip(lo, hi, st["n"])]
    sc = [max(abs(a), abs(b), b - a) for a, b in zip(lo, hi)]
    if o["dims"] != st["dims"] + (["vdims"] if st["nvdim"] > 1 else []) or \
            o["shape"] != st["n"] + ([st["nvdim"]] if st["nvdim"] > 1 else []):
        bad.append("export-dims")
    for a in range(nd):
        want = [lo[a] + (j + F(1, 2)) * cell[a] for j in range(st["n"][a])]
        if a >= len(o["coords"]) or len(o["coords"][a]) != len(want) or not all(
                close(x, w, sc[a], exact) for x, w in zip(o["coords"][a], want)):
            bad.append("export-coords-not-centres")
    if o["cunits"] != st["units"]:
        bad.append("export-coord-units")
    if st["nvdim"] > 1 and o["vdims"] != (st["vdims"] or None):
        bad.append("export-component-labels")
    if o["a_cell"] is None or len(o["a_cell"]) != nd or not all(close(x, w, s_, exact) for x, w, s_ in zip(o["a_cell"], cell, sc)):
        bad.append("export-attr-cell")
    if o["a_pmin"] != lo or o["a_pmax"] != hi:
        bad.append("export-attr-corners")
    if o["a_nvdim"] != st["nvdim"]:
        bad.append("export-attr-nvdim")
    if o["a_units"] != (unit_arg or st["unit"]):
        bad.append("export-attr-unit")
    if o["a_tf"] != st["tf"]:
        bad.append("export-attr-tolerance")
    if o["data"] != st["data"] or o["dtype"] != st["dtype"]:
        bad.append("export-values")
    return bad


def state_fs(st):
    """an observed field state in the shape fspec_coq expects"""
    return dict(p1=[S(x) for x in st["pmin"]], p2=[S(x) for x in st["pmax"]], dims=st["dims"], units=st["units"],
                tf=S(st["tf"]), n=st["n"], nvdim=st["nvdim"],
                vdims=[] if st["nvdim"] > 1 and st["vdims"] is None else st["vdims"],      # [] = explicitly unlabelled
                dtype=st["dtype"], unit=st["unit"])


def attrs_snapshot(xa):
    """caller-supplied attribute containers: type and contents"""
    return {k: (type(v).__name__, repr(np.asarray(v).tolist()) if not isinstance(v, str) and v is not None else repr(v))
            for k, v in xa.attrs.items()}


def use_field(f):
    """exercise everything that might be cached before the field / mesh is changed in place"""
    m = f.mesh
    _ = (m.cell, m.dV, m.region.edges, m.region.center, m.cells, m.vertices, len(m), f.norm, f.mean())
    _ = m.index2point(tuple(0 for _ in m.n))
    _ = m.point2index(m.region.center)
    xa0 = f.to_xarray()
    _ = attempt(lambda: df.Field.from_xarray(xa0))
    for i, pt in enumerate(m):
        if i > 2:
            break


def apply_inplace(f, ops):
    """public in-place calls; returns the names of the ones that went through"""
    done = []
    for op in ops:
        name = op["op"]
        m = f.mesh

        def go():
            if name == "mesh.translate":
                m.translate([fl(v) for v in op["v"]], inplace=True)
            elif name == "region.translate":
                m.region.translate([fl(v) for v in op["v"]], inplace=True)
            elif name == "mesh.scale":
                m.scale(op["f"] if not isinstance(op["f"], list) else list(op["f"]), inplace=True)
            elif name == "region.scale":
                m.region.scale(op["f"], inplace=True)
            elif name == "mesh.rotate90":
                d = m.region.dims
                m.rotate90(d[op["a"]], d[op["b"]], k=op["k"], inplace=True)
            elif name == "field.rotate90":
                d = m.region.dims
                f.rotate90(d[op["a"]], d[op["b"]], k=op["k"], inplace=True)
            elif name == "array.write":
                idx = tuple(i % k for i, k in zip(op["idx"], f.array.shape[:-1]))
                f.array[idx] = np.asarray(f.array[idx][::-1]).copy() if f.nvdim > 1 else f.array[idx]
                f.array[tuple(0 for _ in idx)] = f.array[idx]
                flatv = f.array.reshape(-1)
                flatv[op["idx"][0] % flatv.size] = flatv[-1]
            elif name == "valid":
                f.valid = bool(op["v"])
        st_, _ = attempt(go)
        if st_ == "ok":
            done.append(name)
    return done


def gen_inplace_ops(rng, fs):
    nd = len(fs["n"])
    e = F(2) ** (fs.get("pow2") or 0)
    lo, hi, cell = geom(fs)
    ops = []
    for _ in range(rng.randint(1, 3)):
        kind = rng.choice(["mesh.translate", "region.translate", "mesh.scale", "region.scale", "mesh.rotate90",
                           "field.rotate90", "array.write", "array.write", "valid"])
        if kind.endswith("translate"):
            ops.append(dict(op=kind, v=[S(F(rng.randint(-64, 64), 4) * (e if fs["exact"] else c)) for c in cell]))
        elif kind.endswith("scale"):
            ops.append(dict(op=kind, f=rng.choice([2, 0.5, -1, -2, 4, 0.25, -0.5, 1.5])))
        elif kind.endswith("rotate90"):
            if nd < 2:
                continue
            a, b = rng.sample(range(nd), 2)
            k = rng.choice([1, 3, -1, 2, 5])
            if kind == "mesh.rotate90" and k % 2 and fs["n"][a] != fs["n"][b]:
                k = 2          # turning only the mesh under a field keeps array.shape == n only for even k or equal counts
            ops.append(dict(op=kind, a=a, b=b, k=k))
        elif kind == "array.write":
            ops.append(dict(op=kind, idx=[rng.randint(0, 8) for _ in range(nd)]))
        else:
            ops.append(dict(op=kind, v=rng.random() < 0.5))
    return ops


def run_case(c):
    kind = c["kind"]
    rec = dict(kind=kind, case=c, oracle=[], tags=[])
    if kind == "raw":
        return run_raw(c, rec)
    if kind in ("inplace", "pair", "secondgen"):
        return run_state(c, rec)
    fs = c["field"]
    exact = fs["exact"]
    f = build_field(fs)
    fo = observe_field(f)
    lo, hi, cell = geom(fs)
    nd = len(fs["n"])
    sc = [max(abs(a), abs(b), b - a) for a, b in zip(lo, hi)]

    if kind == "export":
        xa = f.to_xarray(unit=c["unit_arg"]) if c["unit_arg"] is not None else f.to_xarray()
        o = observe_da(xa)
        bad = rec["oracle"]
        want = dict(fo, pmin=lo, pmax=hi, n=fs["n"], dims=fs["dims"], units=fs["units"], tf=F(fs["tf"]), nvdim=fs["nvdim"],
                    dtype=fs["dtype"], unit=fs["unit"])
        bad += export_oracle(want, o, c["unit_arg"], exact)
        # the field is untouched by the export and a second export gives the same DataArray
        if observe_field(f) != fo:
            bad.append("export-operand-changed")
        xa2 = f.to_xarray(unit=c["unit_arg"]) if c["unit_arg"] is not None else f.to_xarray()
        if observe_da(xa2) != o:
            bad.append("export-not-repeatable")
        rec["oracle"] = sorted(set(bad))
        rec.update(obs=short(o), coq=f'CExport {g.b(exact)} {fspec_coq(fs, fo["data"])} {ostr(c["unit_arg"])} {da_coq(o)}',
                   key=f'export/{exact}/{nd}/{fs["nvdim"]}/{fs["dtype"]}/{c["unit_arg"]}/{min(fs["n"])}',
                   size=nd + sum(fs["n"]) + fs["nvdim"])
        return rec

    if kind == "round":
        st, gfield = attempt(lambda: df.Field.from_xarray(f.to_xarray()))
        if st == "ok":
            go = observe_field(gfield)
            rec["oracle"] = same_field(fo, go, True) + tolerance_behaviour(f.mesh.region, gfield.mesh.region)
            obs_coq = f"(Some {field_coq(go)})"
            obs = short(go)
        else:
            rec["oracle"] = ["round-trip-rejected"]
            obs_coq = "None"
            obs = dict(err=gfield)
        reserved = "vdims" in fs["dims"]
        if reserved:
            rec["tags"] = [TAG_VDIMSDIM]
            if rec["oracle"]:
                rec["oracle"] = ["round-trip-reserved-dim-name"]
        if fs["nvdim"] == 1 and fs["vdims"] is not None:
            rec["tags"] = [TAG_SLABEL]
        rec.update(obs=obs, coq=None if reserved else f'CRound {g.b(exact)} {fspec_coq(fs, fo["data"])} {obs_coq}',
                   key=f'round/{exact}/{nd}/{fs["nvdim"]}/{fs["dtype"]}/{fs["vdims"] is None}/{st}/{min(fs["n"])}',
                   size=nd + sum(fs["n"]) + fs["nvdim"])
        return rec

    # import
    mods = c["mods"]
    xa = apply_mods(f.to_xarray(), fs, mods)
    o = observe_da(xa)
    big = implied_cells(o) if o["numeric"] else None
    if big is not None and big > MAX_IMPLIED_CELLS:
        # attributes that contradict the coordinates by orders of magnitude (not generated on purpose): the import would
        # try to allocate a mesh of that many cells; not this property's business and dangerous on a shared machine
        rec.update(obs=dict(skipped=f"implied cell count {big}"), coq=None, key="import/skipped-huge", size=nd,
                   nontrivial=False)
        return rec
    snap = attrs_snapshot(xa)
    st, gfield = attempt(lambda: df.Field.from_xarray(xa))
    exact_cmp = exact and not mods.get("inexact")
    bad = rec["oracle"]
    if observe_da(xa) != o or attrs_snapshot(xa) != snap:
        bad.append("import-operand-changed")
    st2, gfield2 = attempt(lambda: df.Field.from_xarray(xa))
    if st2 != st or (st == "ok" and observe_field(gfield2) != observe_field(gfield)):
        bad.append("import-not-repeatable")
    removed = set(mods.get("del_attrs", []))
    uneven, numpy_accepts = max_unevenness(o["coords"])
    clearly_uneven = uneven is not None and uneven > F(1, 1000)
    clearly_even = uneven is not None and uneven < F(1, 10 ** 9)
    must_reject = []
    if "nvdim" in removed:
        must_reject.append("missing-nvdim-accepted")
    if "rename_vdims" in mods and fs["nvdim"] > 1 and "set_nvdim" not in mods:
        must_reject.append("missing-component-axis-accepted")
    if clearly_uneven:
        must_reject.append("uneven-coordinates-accepted")
    if st == "ok":
        go = observe_field(gfield)
        bad += must_reject
        obs_coq = f"(Some {field_coq(go)})"
        obs = short(go)
    else:
        go = None
        obs_coq = "None"
        obs = dict(err=gfield)
    plain = not must_reject and "set_nvdim" not in mods and "rename_vdims" not in mods and c["cls"] != "cell-empty"
    rebuildable = "cell" not in removed or all(k >= 2 for k in fs["n"])
    if plain and clearly_even and rebuildable and "coords" not in mods and "drop_coords" not in mods:
        # attributes complete, partly or wholly removed: the field comes back
        if go is None:
            bad.append("import-rejected")
        else:
            want = dict(fo)
            if mods.get("del_cunits"):
                want["units"] = ["m"] * nd
            if mods.get("drop_vdims_coord"):
                want["vdims"] = {2: ["x", "y"], 3: ["x", "y", "z"], 4: ["v0", "v1", "v2", "v3"]}[fs["nvdim"]]
            corners_exact = exact and True
            bad += [b.replace("round-trip", "import") for b in
                    same_field(want, go, corners_exact, check_tf="tolerance_factor" not in removed)]
            if "tolerance_factor" not in removed:
                bad += [b.replace("round-trip", "import") for b in tolerance_behaviour(f.mesh.region, gfield.mesh.region)]
            # a corner attribute that is present is passed through verbatim, in every regime and representation
            if ("pmin" not in removed and go["pmin"] != fo["pmin"]) or ("pmax" not in removed and go["pmax"] != fo["pmax"]):
                bad.append("import-corners")
            if "tolerance_factor" not in removed and go["tf"] != fo["tf"]:
                bad.append("import-tolerance")
    if plain and clearly_even and rebuildable and ("coords" in mods or "drop_coords" in mods) \
            and {"cell", "pmin", "pmax"} <= removed and all(k >= 2 for k in fs["n"]) and c["cls"] != "decreasing":
        # rebuilt from evenly spaced coordinates: half a cell beyond the outermost centres, same n
        if go is None:
            bad.append("rebuild-rejected")
        else:
            if go["n"] != fs["n"]:
                bad.append("rebuild-n")
            for a in range(nd):
                v = o["coords"][a]
                cc = (v[-1] - v[0]) / (len(v) - 1)
                if cc <= 0:
                    continue
                s_ = max(abs(v[0]), abs(v[-1]), v[-1] - v[0])
                rel = F(1, 10 ** 5) if mods.get("f32") else F(1, 10 ** 9)
                if not (close(go["pmin"][a], v[0] - cc / 2, s_, exact_cmp, rel) and
                        close(go["pmax"][a], v[-1] + cc / 2, s_, exact_cmp, rel)):
                    bad.append("rebuild-corners")
            if go["data"] != fo["data"] or go["dtype"] != fo["dtype"]:
                bad.append("rebuild-values")
    rec["oracle"] = sorted(set(bad))
    ucls = "na" if uneven is None else ("even" if clearly_even else "uneven" if clearly_uneven else "between")
    rec.update(obs=dict(xa=short(o), result=obs),
               coq=(f'CImportTol (1 # 100000) {da_coq(o)} {obs_coq}' if mods.get("f32") else
                    f'CImport {g.b(exact_cmp)} {da_coq(o)} {obs_coq}') if o["numeric"] else None,
               key=f'import/{exact}/{nd}/{fs["nvdim"]}/{c["cls"]}/{st}/{ucls}/{"".join(sorted(a[:2] for a in removed))}/{min(fs["n"])}',
               size=nd + sum(fs["n"]) + fs["nvdim"])
    return rec


def run_state(c, rec):
    kind = c["kind"]
    fs = c["field"]
    nd = len(fs["n"])
    bad = rec["oracle"]
    if kind == "inplace":
        f = build_field(fs)
        use_field(f)
        done = apply_inplace(f, c["ops"])
        if tuple(f.array.shape[:-1]) != tuple(int(k) for k in f.mesh.n):
            # an in-place call failed midway and left array.shape != mesh.n (not this property's business)
            rec.update(obs=dict(skipped="inconsistent state after a failed in-place call", done=done), coq=None,
                       key="inplace/skipped", size=nd, nontrivial=False)
            return rec
        st = observe_field(f)
        # dyadic translations / scalings keep the exact regime; quarter turns use floating cos / sin
        exact = fs["exact"] and not any("rotate90" in d for d in done)
        if c["then"] == "export":
            xa = f.to_xarray(unit=c["unit_arg"]) if c["unit_arg"] is not None else f.to_xarray()
            o = observe_da(xa)
            bad += export_oracle(st, o, c["unit_arg"], exact)
            if observe_field(f) != st:
                bad.append("export-operand-changed")
            coq = f'CExport {g.b(exact)} {fspec_coq(state_fs(st), st["data"])} {ostr(c["unit_arg"])} {da_coq(o)}'
            obs = dict(state=short(st), xa=short(o), done=done)
        else:
            s2, gf = attempt(lambda: df.Field.from_xarray(f.to_xarray()))
            if s2 == "ok":
                go = observe_field(gf)
                bad += same_field(st, go, True) + tolerance_behaviour(f.mesh.region, gf.mesh.region)
                obs_coq, obs = f"(Some {field_coq(go)})", dict(state=short(st), result=short(go), done=done)
            else:
                bad.append("round-trip-rejected")
                obs_coq, obs = "None", dict(state=short(st), result=dict(err=gf), done=done)
            coq = f'CRound {g.b(exact)} {fspec_coq(state_fs(st), st["data"])} {obs_coq}'
        if st["nvdim"] == 1 and st["vdims"] is not None:
            rec["tags"] = [TAG_SLABEL]
        rec["oracle"] = sorted(set(bad))
        rec.update(obs=obs, coq=coq, key=f'inplace/{exact}/{nd}/{fs["nvdim"]}/{c["then"]}/{"+".join(sorted(set(done)))}',
                   size=nd + sum(fs["n"]) + fs["nvdim"] + len(done))
        return rec

    if kind == "pair":
        fa, fb = build_field(fs), build_field(c["second"])
        sa, sb = observe_field(fa), observe_field(fb)
        xa_a = fa.to_xarray()
        xa_b = fb.to_xarray()
        oa, ob = observe_da(xa_a), observe_da(xa_b)
        ea, eb = fs["exact"], c["second"]["exact"]
        bad += ["first-" + b for b in export_oracle(sa, oa, None, ea)]
        bad += ["second-" + b for b in export_oracle(sb, ob, None, eb)]
        ra = attempt(lambda: df.Field.from_xarray(xa_a))
        rb = attempt(lambda: df.Field.from_xarray(xa_b))
        for tag_, (s_, r_), st_ in (("first-", ra, sa), ("second-", rb, sb)):
            if s_ != "ok":
                bad.append(tag_ + "round-trip-rejected")
            else:
                bad += [tag_ + b for b in same_field(st_, observe_field(r_), True)]
        if observe_field(fa) != sa or observe_field(fb) != sb:
            bad.append("export-operand-changed")
        rec["oracle"] = sorted(set(bad))
        rec.update(obs=dict(first=short(oa), second=short(ob)),
                   coq=f'CExport {g.b(eb)} {fspec_coq(state_fs(sb), sb["data"])} None {da_coq(ob)}',
                   key=f'pair/{ea}/{nd}/{fs["nvdim"]}/{fs["dtype"]}', size=nd + sum(fs["n"]) + fs["nvdim"])
        return rec

    # second generation
    exact = fs["exact"]
    f = build_field(fs)
    fo = observe_field(f)
    xa1 = f.to_xarray()
    o1 = observe_da(xa1)
    s1, g1 = attempt(lambda: df.Field.from_xarray(xa1))
    if s1 != "ok":
        rec["oracle"] = ["round-trip-rejected"]
        rec.update(obs=dict(err=g1), coq=None, key=f'secondgen/{exact}/{nd}/rejected', size=nd + sum(fs["n"]))
        return rec
    g1o = observe_field(g1)
    xa2 = g1.to_xarray()
    o2 = observe_da(xa2)
    bad += same_field(fo, g1o, True)
    bad += ["second-" + b for b in export_oracle(g1o, o2, None, exact)]
    for key in ("dims", "shape", "coords", "cunits", "vdims", "data", "dtype", "a_cell", "a_pmin", "a_pmax", "a_nvdim", "a_tf"):
        if o1[key] != o2[key] and not (key == "vdims" and (fs["nvdim"] == 1 or not fs["vdims"])):
            bad.append("second-export-differs")
    s2, g2 = attempt(lambda: df.Field.from_xarray(xa2))
    if s2 != "ok":
        bad.append("second-round-trip-rejected")
    else:
        bad += ["second-" + b for b in same_field(g1o, observe_field(g2), True) + tolerance_behaviour(f.mesh.region, g2.mesh.region)]
    if fs["nvdim"] == 1 and fs["vdims"] is not None:
        rec["tags"] = [TAG_SLABEL]
    rec["oracle"] = sorted(set(bad))
    rec.update(obs=dict(first=short(o1), second=short(o2)),
               coq=f'CExport {g.b(exact)} {fspec_coq(state_fs(g1o), g1o["data"])} None {da_coq(o2)}',
               key=f'secondgen/{exact}/{nd}/{fs["nvdim"]}/{fs["dtype"]}/{min(fs["n"])}', size=nd + sum(fs["n"]) + fs["nvdim"])
    return rec


def run_raw(c, rec):
    exact = c["exact"]
    nvdim, n, nd = c["nvdim"], c["n"], len(c["n"])
    dt = np.dtype(c["dtype"])
    arr = np.array(c["data"]).astype(dt).reshape(*n, nvdim)
    if nvdim == 1:
        arr = arr[..., 0]
    dims = c["dims"] + (["vdims"] if nvdim > 1 else [])
    coords = {d: np.array([fl(v) for v in vals]) for d, vals in zip(c["dims"], c["coords"])}
    if c["labels"]:
        coords["vdims"] = c["labels"]
    xa = xr.DataArray(arr, dims=dims, coords=coords, attrs=dict(c["attrs"]))
    for d, u in zip(c["dims"], c["cunits"]):
        if u is not None:
            xa[d].attrs["units"] = u
    o = observe_da(xa)
    st, gfield = attempt(lambda: df.Field.from_xarray(xa))
    bad = rec["oracle"]
    if st == "ok":
        go = observe_field(gfield)
        obs_coq, obs = f"(Some {field_coq(go)})", short(go)
        if "nvdim" not in c["attrs"]:
            bad.append("missing-nvdim-accepted")
        if go["n"] != n:
            bad.append("rebuild-n")
        for a in range(nd):
            v = o["coords"][a]
            cc = (v[-1] - v[0]) / (len(v) - 1)
            s_ = max(abs(v[0]), abs(v[-1]), v[-1] - v[0])
            if not (close(go["pmin"][a], v[0] - cc / 2, s_, exact) and close(go["pmax"][a], v[-1] + cc / 2, s_, exact)):
                bad.append("rebuild-corners")
        if go["data"] != o["data"] or go["dtype"] != o["dtype"] or go["dims"] != c["dims"]:
            bad.append("rebuild-values")
        if c["labels"] and go["vdims"] != c["labels"]:
            bad.append("rebuild-labels")
        if all(u is not None for u in c["cunits"]) and go["units"] != c["cunits"]:
            bad.append("rebuild-units")
    else:
        obs_coq, obs = "None", dict(err=gfield)
        if "nvdim" in c["attrs"]:
            bad.append("rebuild-rejected")
    rec["oracle"] = sorted(set(bad))
    rec.update(obs=dict(xa=short(o), result=obs), coq=f'CImport {g.b(exact)} {da_coq(o)} {obs_coq}',
               key=f'raw/{exact}/{nd}/{nvdim}/{st}/{c["labels"] is None}/{c["dtype"]}', size=nd + sum(n) + nvdim)
    return rec


def stats(records):
    out = {}
    for r in records:
        res = r["obs"].get("result", r["obs"]) if isinstance(r["obs"], dict) else {}
        if isinstance(r["obs"], dict) and "skipped" in r["obs"]:
            out["skipped"] = out.get("skipped", 0) + 1
            continue
        k = r["kind"] + ("/rejected" if isinstance(res, dict) and "err" in res else "/ok")
        out[k] = out.get(k, 0) + 1
    out["tagged"] = sum(1 for r in records if r["tags"])
    return out
