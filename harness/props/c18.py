"""C18 — arbitrary rotations (FieldRotator): generators, implementation runner, Gallina encoding, oracle.

Every rotation step reaches Coq as the exact rational value of a 3x3 float matrix.  For the five scipy
constructors the matrix is scipy's own conversion (library code, trusted); for `align_vector` the
harness computes the rotation about initial x final by the enclosed angle independently (Rodrigues).
Everything that went through a rotation is compared in the tolerance form."""
import itertools
import math
from fractions import Fraction as F

import numpy as np
from scipy.spatial.transform import Rotation

from harness import gallina as g
from harness.util import import_df, js, attempt

df = import_df()

COQ_MAX_VALUES = 300      # target cells x components evaluated inside Coq per case (cost)
SCALES = ["1", "1", "1", "1/1000000000", "1000", "1/10", "7/1000"]


# ------------------------------------------------------------------ encoding helpers
def fl(x):
    return float(F(x))


def qv(xs):
    return "(V3 " + " ".join(g.q(x) for x in xs) + ")"


def qm(M):
    return "(M3 " + " ".join(qv(row) for row in M) + ")"


def qn3(n):
    return "(N3 " + " ".join(g.nat(k) for k in n) + ")"


# ------------------------------------------------------------------ rotations
def rodrigues(axis, angle):
    a = np.asarray(axis, dtype=float)
    a = a / np.linalg.norm(a)
    K = np.array([[0, -a[2], a[1]], [a[2], 0, -a[0]], [-a[1], a[0], 0]])
    return np.eye(3) + math.sin(angle) * K + (1 - math.cos(angle)) * (K @ K)


def step_matrix(op):
    """float 3x3 matrix of one rotation step, as the property text defines it"""
    m, a = op["method"], op["a"]
    if m == "from_quat":
        return Rotation.from_quat([fl(x) for x in a["quat"]]).as_matrix()
    if m == "from_matrix":
        return Rotation.from_matrix([[fl(x) for x in r] for r in a["matrix"]]).as_matrix()
    if m == "from_rotvec":
        return Rotation.from_rotvec([fl(x) for x in a["rotvec"]], degrees=a.get("degrees", False)).as_matrix()
    if m == "from_mrp":
        return Rotation.from_mrp([fl(x) for x in a["mrp"]]).as_matrix()
    if m == "from_euler":
        ang = a["angles"]
        ang = [fl(x) for x in ang] if isinstance(ang, list) else fl(ang)
        return Rotation.from_euler(a["seq"], ang, degrees=a.get("degrees", False)).as_matrix()
    if m == "align_vector":
        i = np.array([fl(x) for x in a["initial"]])
        f = np.array([fl(x) for x in a["final"]])
        c = np.cross(i, f)
        return rodrigues(c, math.atan2(np.linalg.norm(c), float(i @ f)))
    raise ValueError(m)


def call_rotate(rot, op, style):
    m, a = op["method"], op["a"]
    n = op.get("n")
    kw = {} if n is None else {"n": tuple(n)}
    if m == "from_quat":
        v = [fl(x) for x in a["quat"]]
        return rot.rotate(m, v, **kw) if style else rot.rotate(m, quat=np.array(v), **kw)
    if m == "from_matrix":
        v = [[fl(x) for x in r] for r in a["matrix"]]
        return rot.rotate(m, v, **kw) if style else rot.rotate(m, matrix=np.array(v), **kw)
    if m == "from_rotvec":
        v = [fl(x) for x in a["rotvec"]]
        if a.get("degrees", False):
            return rot.rotate(m, v, degrees=True, **kw)
        return rot.rotate(m, v, **kw) if style else rot.rotate(m, rotvec=tuple(v), **kw)
    if m == "from_mrp":
        v = [fl(x) for x in a["mrp"]]
        return rot.rotate(m, v, **kw) if style else rot.rotate(m, mrp=v, **kw)
    if m == "from_euler":
        ang = a["angles"]
        ang = [fl(x) for x in ang] if isinstance(ang, list) else fl(ang)
        if style:
            return rot.rotate(m, a["seq"], ang, degrees=a.get("degrees", False), **kw)
        return rot.rotate(m, seq=a["seq"], angles=ang, degrees=a.get("degrees", False), **kw)
    if m == "align_vector":
        return rot.rotate(m, initial=[fl(x) for x in a["initial"]], final=tuple(fl(x) for x in a["final"]), **kw)
    raise ValueError(m)


def rnd_angle(rng):
    r = rng.random()
    if r < 0.15:
        return rng.choice([1, 2, 3, -1, 5]) * math.pi / 2 + rng.choice([0, 0, 1e-3, -1e-7])
    if r < 0.25:
        return rng.choice([1e-3, -2e-3, 1e-6, 0.0])
    return rng.uniform(-math.pi, math.pi)


def rnd_unit(rng):
    while True:
        v = np.array([rng.gauss(0, 1) for _ in range(3)])
        if np.linalg.norm(v) > 0.3:
            return v / np.linalg.norm(v)


def gen_rot(rng, method=None):
    m = method or rng.choice(["from_quat", "from_matrix", "from_rotvec", "from_mrp", "from_euler", "from_euler",
                              "align_vector"])
    if m == "from_quat":
        ax, ang = rnd_unit(rng), rnd_angle(rng)
        q = np.append(ax * math.sin(ang / 2), math.cos(ang / 2)) * rng.choice([1, 1, 2.5, -1])
        return dict(op="rot", method=m, a=dict(quat=[g.qs(x) for x in q]))
    if m == "from_matrix":
        M = Rotation.from_rotvec(rnd_unit(rng) * rnd_angle(rng)).as_matrix()
        return dict(op="rot", method=m, a=dict(matrix=[[g.qs(x) for x in r] for r in M]))
    if m == "from_rotvec":
        deg = rng.random() < 0.3
        ang = rnd_angle(rng)
        v = rnd_unit(rng) * (math.degrees(ang) if deg else ang)
        if rng.random() < 0.2:
            v = np.array([0.0, 0.0, 0.0])
            v[rng.randrange(3)] = math.degrees(ang) if deg else ang
        return dict(op="rot", method=m, a=dict(rotvec=[g.qs(x) for x in v], degrees=deg))
    if m == "from_mrp":
        ang = rng.uniform(-math.pi, math.pi)
        v = rnd_unit(rng) * math.tan(ang / 4)
        return dict(op="rot", method=m, a=dict(mrp=[g.qs(x) for x in v]))
    if m == "from_euler":
        k = rng.choice([1, 1, 2, 3])
        letters = rng.choice(["xyz", "XYZ"])
        seq = "".join(rng.choice(letters) for _ in range(k))
        while any(seq[i] == seq[i + 1] for i in range(k - 1)):
            seq = "".join(rng.choice(letters) for _ in range(k))
        deg = rng.random() < 0.3
        angs = [math.degrees(rnd_angle(rng)) if deg else rnd_angle(rng) for _ in range(k)]
        if deg and rng.random() < 0.5:
            angs = [float(rng.choice([90, -90, 180, 45, 30, 270])) for _ in range(k)]
        return dict(op="rot", method=m, a=dict(seq=seq, angles=[g.qs(x) for x in angs] if (k > 1 or rng.random() < .5)
                                               else g.qs(angs[0]), degrees=deg))
    if m == "align_vector":
        while True:
            i = rnd_unit(rng) * rng.choice([1, 2, 0.5])
            f = rnd_unit(rng) * rng.choice([1, 3, 0.25])
            s = np.linalg.norm(np.cross(i, f)) / (np.linalg.norm(i) * np.linalg.norm(f))
            if s > 0.05:
                break
        if rng.random() < 0.3:
            e = np.eye(3)
            a_, b_ = rng.sample(range(3), 2)
            i, f = e[a_] * rng.choice([1, 2]), e[b_] * rng.choice([1, -1, 3])
        return dict(op="rot", method=m, a=dict(initial=[g.qs(x) for x in i], final=[g.qs(x) for x in f]))
    raise ValueError(m)


def signed_perms():
    out = []
    for p in itertools.permutations(range(3)):
        for s in itertools.product([1, -1], repeat=3):
            M = np.zeros((3, 3))
            for i in range(3):
                M[i, p[i]] = s[i]
            if round(np.linalg.det(M)) == 1:
                out.append(M)
    return out


SP = signed_perms()


# ------------------------------------------------------------------ fields
DTYPES = ["int8", "int16", "int32", "int64", "uint8", "uint16", "uint32", "uint64", "float32"]


def gen_field(rng, tier, nv=None, data=None, cubic=False, nmax=None, big=None, dtype=None, nmin=1):
    nmax = nmax or (4 if tier == "quick" else 5)
    n = [rng.randint(nmin, nmax) for _ in range(3)]
    while math.prod(n) > (big or (12 if tier == "quick" else 18)):
        n[rng.randrange(3)] = max(nmin, n[rng.randrange(3)] - 1)
    sc = F(rng.choice(SCALES))
    if cubic:
        h = F(rng.choice([1, 1, 3, 5]), rng.choice([1, 2, 4]))
        cell = [h, h, h]
    else:
        cell = [F(rng.choice([1, 1, 2, 3, 5]), rng.choice([1, 2, 4])) for _ in range(3)]
    p1 = [F(rng.randint(-12, 12), 2) * c for c in cell]
    if rng.random() < 0.3:
        p1 = [-k * c / 2 for k, c in zip(n, cell)]       # centred at the origin
    nv = nv or rng.choice([1, 3, 3])
    # storage dtype of the source field (explicit dtype= in the constructor, or left to the array)
    dtype = dtype or (rng.choice(DTYPES) if rng.random() < 0.4 else "float64")
    integral = dtype.startswith(("int", "uint"))
    unsigned = dtype.startswith("uint")
    data = data or rng.choice(["uniform", "linear", "random", "random"] + (["linear"] * 3 if integral else []))
    vs = rng.choice([1, 1, 1, 1000000, F(1, 1024)]) if dtype == "float64" else 1
    if dtype == "float64" and rng.random() < 0.35:
        # value magnitudes 2^-200 .. 2^300 (exact powers of two: the data stay exactly representable)
        k2 = rng.randint(-200, -20) if rng.random() < 0.5 else rng.randint(-20, 300)
        vs = F(2) ** k2
    lo_i = 0 if unsigned else -1
    coef = None
    if data == "uniform":
        v = [F(rng.randint(9 * lo_i, 9)) * vs for _ in range(nv)]
        if all(x == 0 for x in v):
            v[0] = vs
        vals = v * math.prod(n)
    elif data == "linear":
        # affine in the cell index (= affine in the coordinates)
        coef = [[F(rng.randint(4 * lo_i, 4)) for _ in range(4)] for _ in range(nv)]
        if all(c[0] == c[1] == c[2] == 0 for c in coef):
            coef[0][rng.randrange(3)] = F(3)
        vals = []
        for i, j, k in itertools.product(*(range(m) for m in n)):
            vals += [(c[0] * i + c[1] * j + c[2] * k + c[3]) * vs for c in coef]
    else:
        vals = [F(rng.randint(64 * lo_i, 64), 1 if integral else rng.choice([1, 2, 8])) * vs
                for _ in range(math.prod(n) * nv)]
    vmap, vdims, dims = None, None, None
    if nv == 3:
        r = rng.random()
        if r < 0.45:
            vmap = list(rng.sample(range(3), 3))
        if rng.random() < 0.4:
            vdims = rng.choice([["a", "b", "c"], ["mx", "my", "mz"], ["z", "x", "y"]])
    if rng.random() < 0.25:
        dims = rng.choice([["a", "b", "c"], ["u", "v", "w"], ["z", "y", "x"]])
    bc = rng.choice(["", "", "", "0", "01", "012", "neumann"])
    # explicit validity mask (the values of the cells flagged invalid stay what they are - mostly non-zero)
    valid = None
    if rng.random() < 0.35:
        valid = [rng.random() < 0.6 for _ in range(math.prod(n))]
        if all(valid):
            valid[rng.randrange(len(valid))] = False
    return dict(valid=valid, n=n, cell=[g.qs(c * sc) for c in cell], p1=[g.qs(x * sc) for x in p1], nv=nv, data=data,
                vals=[g.qs(x) for x in vals], vmap=vmap, vdims=vdims, dims=dims, bc=bc, dtype=dtype,
                dtype_explicit=rng.random() < 0.7, coef=[[g.qs(x * vs) for x in c] for c in coef] if coef else None)


def build(fc):
    n = fc["n"]
    p1 = [fl(x) for x in fc["p1"]]
    cell = [fl(x) for x in fc["cell"]]
    p2 = [a + k * h for a, k, h in zip(p1, n, cell)]
    dims = fc.get("dims") or ["x", "y", "z"]
    region = df.Region(p1=p1, p2=p2, dims=dims)
    bc = fc.get("bc", "")
    if bc not in ("", "neumann", "dirichlet"):
        bc = "".join(dims[int(ch)] for ch in bc)
    mesh = df.Mesh(region=region, n=n, bc=bc)
    dt = np.dtype(fc.get("dtype", "float64"))
    arr = np.array([fl(x) for x in fc["vals"]], dtype=float).reshape(*n, fc["nv"]).astype(dt)
    kw = {}
    if fc.get("dtype_explicit", False) or fc.get("imag"):
        kw["dtype"] = dt
    if fc.get("imag"):
        arr = arr + 1j * np.array([fl(x) for x in fc["imag"]], dtype=float).reshape(*n, fc["nv"])
    vdims = fc.get("vdims")
    if fc["nv"] == 3:
        if vdims:
            kw["vdims"] = vdims
        if fc.get("vmap") is not None:
            names = vdims or ["x", "y", "z"]
            kw["vdim_mapping"] = {names[c]: dims[a] for c, a in enumerate(fc["vmap"])}
    if fc.get("valid") is not None:
        kw["valid"] = np.array(fc["valid"], dtype=bool).reshape(*n)
    return df.Field(mesh, nvdim=fc["nv"], value=arr, **kw)


# ------------------------------------------------------------------ generator
def gen_ops(rng, tier, maxlen=4):
    k = rng.choice([1, 1, 1, 2, 2, 3, maxlen])
    ops = []
    for _ in range(k):
        if ops and rng.random() < 0.12:
            ops.append(dict(op="clear"))
        ops.append(gen_rot(rng))
    return ops


BAD_KINDS = ["n0", "nneg", "nshort", "nlong", "nfloat", "nstr", "method", "quat3", "quat0", "seq", "mat2",
             "rotvec4", "alignmissing", "noargs", "eulerlen"]


def gen_bad(rng):
    """a rotate() call that must be refused; `base` is a perfectly valid rotation (often a quarter turn, so
    that a refused call that stays composed is conspicuous)"""
    why = rng.choice(BAD_KINDS)
    if rng.random() < 0.5:
        base = dict(op="rot", method="from_euler", a=dict(seq=rng.choice("xyz"), angles=g.qs(90.0), degrees=True))
    else:
        base = gen_rot(rng)
    return dict(op="bad", why=why, base=base)


def call_bad(rot, o):
    why, base = o["why"], o["base"]
    if why in ("n0", "nneg", "nshort", "nlong", "nfloat", "nstr"):
        n = {"n0": (0, 1, 1), "nneg": (-1, 2, 2), "nshort": (2, 2), "nlong": (2, 2, 2, 2), "nfloat": (1.5, 2, 2),
             "nstr": "abc"}[why]
        b = dict(base, n=None)
        m, a = b["method"], b["a"]
        # same call as call_rotate, with the unsuitable n
        class _R:  # route call_rotate's rot.rotate(...) through a wrapper that swaps n
            def rotate(self, *args, **kw):
                kw["n"] = n
                return rot.rotate(*args, **kw)
        return call_rotate(_R(), b, True)
    if why == "method":
        return rot.rotate("from_davenport_x", [0, 0, 0.1])
    if why == "quat3":
        return rot.rotate("from_quat", [0, 0, 1])
    if why == "quat0":
        return rot.rotate("from_quat", [0, 0, 0, 0])
    if why == "seq":
        return rot.rotate("from_euler", "q", 0.3)
    if why == "mat2":
        return rot.rotate("from_matrix", [[1, 0], [0, 1]])
    if why == "rotvec4":
        return rot.rotate("from_rotvec", [0, 0, 1, 1])
    if why == "alignmissing":
        return rot.rotate("align_vector", initial=(1, 0, 0))
    if why == "noargs":
        return rot.rotate("from_euler")
    if why == "eulerlen":
        return rot.rotate("from_euler", "xy", [0.1])
    raise ValueError(why)


def insert_bad(rng, ops, k):
    for _ in range(k):
        ops.insert(rng.randint(0, len(ops)), gen_bad(rng))
    return ops


def rnd_n(rng, tier):
    m = 4 if tier == "quick" else 5
    return [rng.randint(1, m) for _ in range(3)]



# ------------------------------------------------------------------ directed core
def mkf(r, n, cell, nv, data, dtype="float64", vmap=None, valid=False, vs=1, p1=None, dims=None, vdims=None,
        bc="", coef=None, uniform=None):
    """hand-written source field (used by the seed-independent directed core only)"""
    n = list(n)
    cell = [F(c) for c in cell]
    p1 = [F(x) for x in p1] if p1 is not None else [F(k) * c / 2 for k, c in zip((3, -4, 1), cell)]
    vs = F(vs)
    if data == "uniform":
        vals = [F(x) * vs for x in (uniform or (3, -2, 1))[:nv]] * math.prod(n)
        coef = None
    elif data == "linear":
        coef = coef or [[F(r.randint(1, 4)), F(r.randint(0 if dtype.startswith("uint") else -4, 4)), F(r.randint(1, 3)),
                         F(r.randint(8, 12))] for _ in range(nv)]
        coef = [[F(x) for x in cf] for cf in coef]
        vals = []
        for i, j, k in itertools.product(*(range(m) for m in n)):
            vals += [(cf[0] * i + cf[1] * j + cf[2] * k + cf[3]) * vs for cf in coef]
    else:
        unsigned = dtype.startswith("uint")
        integral = dtype.startswith(("int", "uint"))
        vals = [F(r.randint(0 if unsigned else -64, 64), 1 if integral else r.choice([1, 2, 8])) * vs
                for _ in range(math.prod(n) * nv)]
        coef = None
    mask = None
    if valid:
        mask = [((7 * i + 3) % 5) not in (0, 3) for i in range(math.prod(n))]
    return dict(valid=mask, n=n, cell=[g.qs(c) for c in cell], p1=[g.qs(x) for x in p1], nv=nv, data=data,
                vals=[g.qs(x) for x in vals], vmap=vmap, vdims=vdims, dims=dims, bc=bc, dtype=dtype,
                dtype_explicit=True, coef=[[g.qs(x * vs) for x in cf] for cf in coef] if coef else None)


def directed_core():
    """Seed-, tier- and run-independent cases: one small group per mechanism that a seeded change of rounds
    a-e needed (see /verif/seeded/C18-*/meta.json).  Never trimmed."""
    import random
    r = random.Random(424242)
    C = []

    def add(kind, f, ops, style=True, **kw):
        C.append(dict(kind=kind, field=f, ops=[dict(o) for o in ops], style=style, core=True, **kw))

    def E(seq, ang, deg=False):
        return dict(op="rot", method="from_euler",
                    a=dict(seq=seq, angles=[g.qs(float(x)) for x in ang] if isinstance(ang, list) else g.qs(float(ang)),
                           degrees=deg))

    def RV(v, deg=False):
        return dict(op="rot", method="from_rotvec", a=dict(rotvec=[g.qs(float(x)) for x in v], degrees=deg))

    def AL(i, f_):
        return dict(op="rot", method="align_vector", a=dict(initial=[g.qs(float(x)) for x in i],
                                                            final=[g.qs(float(x)) for x in f_]))

    def N(o, n):
        return dict(o, n=list(n))

    def BAD(why, base):
        return dict(op="bad", why=why, base=base)

    CL = dict(op="clear")
    nm = "1/1000000000"
    # a1: nanometre-scale (and smaller) cells, non-lattice rotations: cells just outside must be zero
    for cs in ([nm, nm, nm], ["1/2000000000", "1/1000000000", "3/2000000000"], ["3/10000000000"] * 3):
        add("rot", mkf(r, (3, 2, 2), cs, 3, "uniform"), [E("z", 30.0, True)])
        add("rot", mkf(r, (3, 3, 2), cs, 1, "uniform", uniform=(5,)), [RV([0.3, 0.2, 0.5])])
    # a2: cyclic component-to-axis mappings
    for vm in ([1, 2, 0], [2, 0, 1]):
        add("rot", mkf(r, (3, 3, 3), [1, 1, "1/2"], 3, "random", vmap=vm), [E("xyz", [0.3, 0.4, 0.5])])
        add("quarter", mkf(r, (3, 2, 2), [1, 1, 1], 3, "random", vmap=vm, vdims=["a", "b", "c"]),
            [E("z", 90.0, True)], ax=2, k=1)
    # a3: |R| not symmetric on a non-cubic region
    add("rot", mkf(r, (4, 2, 1), [1, "1/2", 2], 1, "random"), [E("x", 90.0, True), E("z", 90.0, True)])
    add("rot", mkf(r, (4, 2, 1), [1, "1/2", 2], 3, "random"), [E("zyx", [0.3, 0.5, 0.7])])
    add("rot", mkf(r, (3, 2, 2), [2, 1, "1/2"], 3, "linear"),
        [RV([2 * math.pi / 3 / math.sqrt(3)] * 3)])
    add("rot", mkf(r, (3, 2, 1), [1, 3, "1/2"], 1, "linear"), [E("XZ", [90.0, 90.0], True)], style=False)
    # b1: storage dtypes, affine scalar data, generic rotation, interior cells
    for dt in ("int8", "int16", "int32", "int64", "uint8", "uint16", "uint64", "float32"):
        add("dtype", mkf(r, (4, 3, 3), [1, 1, 1], 1, "linear", dtype=dt), [E("zx", [0.4, 0.3])])
    add("dtype", mkf(r, (3, 3, 3), [1, 1, 1], 3, "linear", dtype="int16"), [E("zx", [-0.5, 0.7])])
    # b2: vector alignment by an obtuse angle
    for i_, f_ in (((0, 0, 2), (1, 0, -1)), ((1, 0, 0), (-1, 1, 0)), ((1, 2, 3), (-3, -1, -1)), ((0, 1, 0), (1, -4, 0))):
        add("rot", mkf(r, (3, 3, 2), [1, 1, 1], r.choice([1, 3]), "random"), [AL(i_, f_)])
    # b3: two or more non-commuting rotations on non-uniform data
    add("rot", mkf(r, (3, 2, 2), [1, 1, 1], 3, "random"), [E("z", 90.0, True), E("x", 90.0, True)])
    add("rot", mkf(r, (3, 3, 2), [1, "1/2", 1], 1, "random"), [RV([0.2, -0.4, 0.6]), E("y", 0.7)])
    add("rot", mkf(r, (3, 3, 3), [1, 1, 1], 3, "linear"), [E("x", 0.5), E("z", -0.8), RV([0.1, 0.9, 0.0])])
    # c1: default n with a cell size that is not representable (edge / cell just below an integer)
    add("quarter", mkf(r, (20, 10, 5), ["1/10"] * 3, 1, "random", p1=(0, 0, 0)), [E("z", 90.0, True)], ax=2, k=1, nocoq=True)
    add("quarter", mkf(r, (10, 5, 2), ["1/10"] * 3, 1, "random", p1=(0, 0, 0)), [E("x", 90.0, True)], ax=0, k=1)
    add("quarter", mkf(r, (10, 20, 3), ["1/10"] * 3, 3, "random", p1=(0, 0, 0)), [E("y", 90.0, True)], ax=1, k=1, nocoq=True)
    add("quarter", mkf(r, (6, 3, 7), ["3/10"] * 3, 1, "random", p1=(0, 0, 0)), [E("z", -90.0, True)], ax=2, k=-1)
    # c2: explicit n while the accumulated rotation is the identity
    add("resample", mkf(r, (3, 2, 2), [1, 1, 1], 1, "linear"), [N(RV([0, 0, 0]), (2, 3, 2))])
    add("resample", mkf(r, (3, 2, 2), [1, 1, 1], 3, "random"), [E("z", 40.0, True), N(E("z", -40.0, True), (4, 3, 1))])
    add("resample", mkf(r, (2, 3, 2), [1, 1, 2], 1, "random"), [N(E("x", 360.0, True), (3, 2, 3))])
    # c3: intrinsic (upper-case) Euler sequences passed as keyword
    add("rot", mkf(r, (3, 3, 2), [1, 1, 1], 3, "random"), [E("XYZ", [0.3, 0.4, 0.5])], style=False)
    add("rot", mkf(r, (3, 3, 2), [1, 1, 1], 1, "random"), [E("ZX", [0.5, 0.9])], style=False)
    add("rot", mkf(r, (3, 2, 3), [1, 1, 1], 3, "linear"), [E("YXZ", [90.0, 45.0, 30.0], True)], style=False)
    # d1 (+ the other refusal classes): mappings that are not bijections, wrong nvdim / ndim
    for vm, vd in (([0, 0, 2], False), ([1, 1, 0], True), ([2, 0, 2], True)):
        C.append(dict(kind="refuse", ndim=3, nvdim=3, mk="noninj", vm=vm, vdims=vd, core=True))
    C.append(dict(kind="refuse", ndim=3, nvdim=3, mk="perm", vm=[2, 0, 1], vdims=True, core=True))
    C.append(dict(kind="refuse", ndim=3, nvdim=3, mk="empty", vm=None, vdims=False, core=True))
    C.append(dict(kind="refuse", ndim=3, nvdim=3, mk="notadim", vm=[0, "q", 2], vdims=False, core=True))
    C.append(dict(kind="refuse", ndim=3, nvdim=3, mk="nonevalue", vm=[0, 1, None], vdims=True, core=True))
    C.append(dict(kind="refuse", ndim=3, nvdim=2, mk="default", vm=None, vdims=False, core=True))
    C.append(dict(kind="refuse", ndim=2, nvdim=3, mk="default", vm=None, vdims=False, core=True))
    C.append(dict(kind="refuse", ndim=3, nvdim=1, mk="default", vm=None, vdims=False, core=True))
    # d2: explicit validity mask, invalid cells hold non-zero values; clear / further rotation afterwards
    add("rot", mkf(r, (3, 3, 2), [1, 1, 1], 1, "linear", valid=True), [E("z", 0.4), CL])
    add("rot", mkf(r, (3, 3, 2), [1, 1, 1], 1, "linear", valid=True), [E("z", 0.4), E("x", 0.3)])
    add("rot", mkf(r, (4, 3, 3), [1, 1, 1], 1, "linear", valid=True, dtype="int32"), [E("zx", [0.4, 0.2]), CL, E("y", 0.5)])
    add("rot", mkf(r, (3, 3, 3), [1, 1, 1], 3, "linear", valid=True), [E("zx", [0.4, 0.3])])
    # d3: value magnitudes far from one (uniform vector, affine scalar)
    add("rot", mkf(r, (4, 4, 3), [1, 1, 1], 3, "uniform", vs=F(2) ** -45), [E("zx", [0.4, 0.3])])
    for k2 in (-30, -100, -200, 300):
        add("rot", mkf(r, (4, 4, 3), [1, 1, 1], 1, "linear", vs=F(2) ** k2), [E("zx", [0.35, -0.3])])
    add("rot", mkf(r, (3, 3, 3), [1, 1, 1], 3, "uniform", vs=F(3, 10 ** 13)), [E("z", 0.5)])
    # e1: calls refused with a TypeError / ValueError stay without effect on what follows
    q90 = E("z", 90.0, True)
    add("refusedhist", mkf(r, (3, 2, 2), [1, 1, 1], 3, "random"), [BAD("nfloat", q90), E("z", 0.5)])
    add("refusedhist", mkf(r, (3, 2, 2), [1, 1, 1], 1, "random"), [E("x", 0.3), BAD("nstr", q90), RV([0.2, 0.1, -0.4])])
    add("refusedhist", mkf(r, (4, 2, 1), [1, 1, 1], 1, "random"), [BAD("nfloat", q90), q90])
    add("refusedhist", mkf(r, (4, 2, 1), [1, 1, 1], 3, "random"), [BAD("n0", q90), q90, BAD("nneg", E("x", 90.0, True)), CL, BAD("nshort", q90)])
    # e2: the default resolution must not depend on the resolution of an earlier (explicit-n) rotation
    add("rot", mkf(r, (4, 2, 2), [1, 1, 1], 1, "random"), [N(E("z", 45.0, True), (2, 2, 1)), E("z", 45.0, True)])
    add("rot", mkf(r, (3, 2, 2), [1, 1, 1], 3, "random"), [N(E("x", 30.0, True), (6, 6, 6)), E("y", 0.4)])
    add("rot", mkf(r, (4, 3, 2), [1, 1, "1/2"], 1, "linear"), [N(RV([0.3, 0.2, 0.1]), (1, 1, 1)), E("z", 0.6)])
    # e3: the same explicit n for different accumulated rotations of one rotator
    add("rot", mkf(r, (3, 2, 2), [1, 1, 1], 3, "random"), [N(E("z", 30.0, True), (3, 3, 2)), N(E("x", 50.0, True), (3, 3, 2))])
    add("rot", mkf(r, (3, 3, 2), [1, 1, 1], 1, "linear"), [N(E("z", 0.5), (2, 3, 2)), CL, N(RV([0.4, 0.4, 0.0]), (2, 3, 2))])
    add("rot", mkf(r, (2, 2, 3), [1, 2, 1], 1, "random"), [N(E("y", 0.7), (3, 3, 3)), N(E("y", 0.7), (3, 3, 3)), N(E("x", -0.2), (3, 3, 3))])
    return C


def generate(rng, tier):
    return directed_core() + generate_random(rng, tier)


def generate_random(rng, tier):
    cases = []
    quick = tier == "quick"
    # (a) random sequences of rotations, all input methods
    for _ in range(40 if quick else 600):
        f = gen_field(rng, tier)
        ops = gen_ops(rng, tier)
        for o in ops:
            if o["op"] == "rot" and rng.random() < 0.3:
                o["n"] = rnd_n(rng, tier)
        if rng.random() < 0.12:
            ops.append(dict(op="clear"))
        if rng.random() < 0.15:
            insert_bad(rng, ops, 1)
        cases.append(dict(kind="rot", field=f, ops=ops, style=rng.random() < 0.5))
    # (b) one case per input method with each kind of data, default n
    for m in ["from_quat", "from_matrix", "from_rotvec", "from_mrp", "from_euler", "align_vector"]:
        for data in ["uniform", "linear", "random"]:
            for nv in ([rng.choice([1, 3, 3])] if quick else [1, 3, 3, 3]):
                cases.append(dict(kind="rot", field=gen_field(rng, tier, nv=nv, data=data),
                                  ops=[gen_rot(rng, m)], style=rng.random() < 0.5))
    # (c) the 24 proper signed permutation matrices (cubic and anisotropic cells)
    for i, M in enumerate(SP):
        for rep in range(1 if quick else 4):
            cubic = (i + rep) % 2 == 0
            f = gen_field(rng, tier, cubic=cubic, data=rng.choice(["random", "linear"]))
            op = dict(op="rot", method="from_matrix", a=dict(matrix=[[g.qs(x) for x in r] for r in M]))
            cases.append(dict(kind="lattice", field=f, ops=[op], style=True, sp=i))
    # (d) quarter turns about a coordinate axis vs the lattice rotation (cubic cells)
    for _ in range(9 if quick else 60):
        f = gen_field(rng, tier, cubic=True, data="random")
        ax = rng.randrange(3)
        k = rng.choice([1, 2, 3, -1, 5])
        op = dict(op="rot", method="from_euler", a=dict(seq="xyz"[ax], angles=g.qs(k * math.pi / 2), degrees=False))
        if rng.random() < 0.5:
            op = dict(op="rot", method="from_euler", a=dict(seq="xyz"[ax], angles=g.qs(90.0 * k), degrees=True))
        cases.append(dict(kind="quarter", field=f, ops=[op], style=True, ax=ax, k=k))
    # (e) threshold-directed: identity / tiny rotations with explicit fine n (edge padding, zero fill band)
    for _ in range(12 if quick else 200):
        f = gen_field(rng, tier, nmax=3)
        r = rng.random()
        if r < 0.4:
            op = dict(op="rot", method="from_rotvec", a=dict(rotvec=["0/1", "0/1", "0/1"], degrees=False))
        elif r < 0.7:
            v = [0.0, 0.0, 0.0]
            v[rng.randrange(3)] = rng.choice([1e-3, -1e-2, 0.05])
            op = dict(op="rot", method="from_rotvec", a=dict(rotvec=[g.qs(x) for x in v], degrees=False))
        else:
            op = dict(op="rot", method="from_euler", a=dict(seq="z", angles=g.qs(45.0), degrees=True))
        op["n"] = [rng.randint(1, 5) for _ in range(3)]
        while math.prod(op["n"]) > 40:
            op["n"][rng.randrange(3)] -= 1
        cases.append(dict(kind="resample", field=f, ops=[op], style=rng.random() < 0.5))
    # (h) larger meshes: oracle only (interior / outside / composition clauses), no Coq record
    for _ in range(60 if quick else 500):
        f = gen_field(rng, tier, nmax=8, big=400)
        cases.append(dict(kind="rot", field=f, ops=gen_ops(rng, tier), style=rng.random() < 0.5, nocoq=True))
    # (i) every storage dtype x {scalar, vector}: affine integer data (interpolated values are non-integral),
    #     meshes with interior cells, a generic (non-lattice) rotation
    for rep in range(1 if quick else 5):
        for dt in DTYPES + ["float64"]:
            for nv in (1, 3):
                f = gen_field(rng, tier, nv=nv, data="linear", nmin=3, nmax=4, big=36, dtype=dt)
                f["dtype_explicit"] = (rep % 2 == 0)
                op = dict(op="rot", method="from_euler",
                          a=dict(seq=rng.choice(["zyx", "xz", "ZX", "yz"])[:rng.choice([2, 2, 3])],
                                 angles=None, degrees=False))
                op["a"]["angles"] = [g.qs(rng.choice([-1, 1]) * rng.uniform(0.2, 1.2)) for _ in op["a"]["seq"]]
                cases.append(dict(kind="dtype", field=f, ops=[op], style=rng.random() < 0.5))
    # (j) complex-valued fields: recorded (what the code does with the imaginary part), real part checked
    for nv in (1, 3):
        f = gen_field(rng, tier, nv=nv, data="random", nmin=2, nmax=3, dtype="float64")
        f["dtype"] = "complex128"
        f["imag"] = [g.qs(F(rng.randint(-20, 20), 4)) for _ in f["vals"]]
        cases.append(dict(kind="complex", field=f, ops=[gen_rot(rng, "from_rotvec")], style=True))
    # (k) histories that interleave REFUSED rotate() calls with accepted ones and clear_rotation
    for _ in range(20 if quick else 250):
        f = gen_field(rng, tier)
        ops = gen_ops(rng, tier, maxlen=3)
        if rng.random() < 0.3:
            ops.insert(rng.randint(0, len(ops)), dict(op="clear"))
        insert_bad(rng, ops, rng.choice([1, 1, 2, 3]))
        if rng.random() < 0.3:
            ops.append(dict(op="clear"))
        for o in ops:
            if o["op"] == "rot" and rng.random() < 0.3:
                o["n"] = rnd_n(rng, tier)
        cases.append(dict(kind="refusedhist", field=f, ops=ops, style=rng.random() < 0.5))
    # (f) refusals
    for _ in range(40 if quick else 300):
        ndim = rng.choice([1, 2, 3, 3, 3, 3, 4])
        nvdim = rng.choice([1, 2, 3, 3, 3, 4])
        mk = "default"
        vm = None
        if nvdim > 1:
            mk = rng.choice(["default", "default", "empty", "perm", "noninj", "notadim", "nonevalue"])
            if mk == "perm":
                vm = [rng.randrange(ndim) for _ in range(nvdim)] if nvdim != ndim else list(rng.sample(range(ndim), ndim))
            elif mk == "noninj":
                vm = [rng.randrange(ndim) for _ in range(nvdim)]
                vm[-1] = vm[0]
            elif mk in ("notadim", "nonevalue"):
                vm = [rng.randrange(ndim) for _ in range(nvdim)] if nvdim != ndim else list(rng.sample(range(ndim), ndim))
                vm[rng.randrange(nvdim)] = "q" if mk == "notadim" else None
        cases.append(dict(kind="refuse", ndim=ndim, nvdim=nvdim, mk=mk, vm=vm,
                          vdims=rng.random() < 0.4))
    # (g) unknown method / missing arguments (oracle only)
    cases.append(dict(kind="badmethod", method="from_davenport_x"))
    cases.append(dict(kind="badmethod", method="rotate"))
    cases.append(dict(kind="badmethod", method=""))
    return cases


# ------------------------------------------------------------------ oracle helpers
def trilinear(A, cidx):
    """A: (nx,ny,nz,nv) float; cidx: fractional cell-centre index per axis (0 = first centre).
    Linear interpolation between neighbouring cell centres (valid between first and last centre)."""
    idx, w = [], []
    for a in range(3):
        m = A.shape[a]
        if m == 1:
            idx.append((0, 0))
            w.append(0.0)
            continue
        i = int(math.floor(cidx[a]))
        i = max(0, min(m - 2, i))
        idx.append((i, i + 1))
        w.append(cidx[a] - i)
    out = np.zeros(A.shape[3])
    for cx, cy, cz in itertools.product((0, 1), repeat=3):
        wt = (w[0] if cx else 1 - w[0]) * (w[1] if cy else 1 - w[1]) * (w[2] if cz else 1 - w[2])
        out += wt * A[idx[0][cx], idx[1][cy], idx[2][cz]]
    return out


def rotate_components(R, v, perm):
    """component mapped to axis d gets sum_e R[d,e] * (component mapped to axis e)"""
    out = np.array(v, dtype=float).copy()
    if len(v) == 3:
        for d in range(3):
            out[perm[d]] = sum(R[d, e] * v[perm[e]] for e in range(3))
    return out


def perm_of(fc):
    vm = fc.get("vmap")
    if fc["nv"] != 3 or vm is None:
        return [0, 1, 2]
    return [vm.index(d) for d in range(3)]          # component mapped to axis d


# ------------------------------------------------------------------ runner
def run_rot(c):
    fc = c["field"]
    rec = dict(kind=c["kind"], case=c, oracle=[], tags=[], coq=None)
    f = build(fc)
    before = f.array.copy()
    n, nv = fc["n"], fc["nv"]
    perm = perm_of(fc)
    rot = df.FieldRotator(f)
    Racc = np.eye(3)
    mats = []
    since_clear = 0
    last_n = None
    nbad = 0

    def snapshot():
        return (f.array.tobytes(), str(f.array.dtype), np.asarray(f.valid).tobytes(),
                f.array.__array_interface__["data"][0])

    snap0 = snapshot()
    try:
        for o in c["ops"]:
            if snapshot() != snap0:
                # the operand (array bytes, validity, buffer identity) must survive every rotate / clear
                rec["oracle"].append("original-field-modified")
            if o["op"] == "clear":
                rot.clear_rotation()
                if not (rot.field is f or np.asarray(rot.field.array).tobytes() == snap0[0]) \
                        or np.asarray(rot.field.array).tobytes() != snap0[0]:
                    rec["oracle"].append("clear-does-not-restore-original")
                Racc = np.eye(3)
                since_clear = 0
                mats.append(None)
            elif o["op"] == "bad":
                prev = rot.field
                st_b, _ = attempt(lambda: call_bad(rot, o))
                mats.append(step_matrix(o["base"]) if o["why"] == "n0" else None)
                if st_b == "ok":
                    rec["oracle"].append("malformed-rotation-accepted")
                    rec.update(obs=dict(accepted_bad=o["why"]), key=f"{c['kind']}/bad-accepted/{o['why']}",
                               size=len(fc["vals"]) * 10 + len(c["ops"]), nontrivial=True)
                    return rec
                if rot.field is not prev:
                    rec["oracle"].append("refused-rotation-changed-state")
                nbad += 1
            else:
                M = step_matrix(o)
                call_rotate(rot, o, c.get("style", True))
                Racc = M @ Racc
                since_clear += 1
                last_n = o.get("n")
                mats.append(M)
    except Exception as e:  # noqa: BLE001 - a supported field and a valid rotation must not be refused
        rec["oracle"].append("rotation-of-supported-field-raised")
        rec.update(obs=dict(error=type(e).__name__), key=f"{c['kind']}/raised", size=len(fc["vals"]) * 10 + len(c["ops"]),
                   nontrivial=True)
        return rec
    out = rot.field
    on = [int(x) for x in out.mesh.n]
    opmin, opmax = out.mesh.region.pmin, out.mesh.region.pmax
    oarr = np.asarray(out.array, dtype=float)
    obs = dict(n=on, pmin=js(opmin), pmax=js(opmax), array=js(oarr.reshape(-1)), dtype_in=str(before.dtype),
               dtype_out=str(np.asarray(out.array).dtype))
    pmin = np.array(f.mesh.region.pmin, dtype=float)
    pmax = np.array(f.mesh.region.pmax, dtype=float)
    cell = (pmax - pmin) / np.array(n)
    ctr = (pmin + pmax) / 2
    A = np.real(before).astype(float).reshape(*n, nv)
    coef = [[float(F(x)) for x in cf] for cf in fc["coef"]] if fc.get("coef") else None
    vscale = max(float(np.abs(A).max()), 0.0)
    cscale = max(float(np.abs(pmin).max()), float(np.abs(pmax).max()), float((pmax - pmin).max()))

    # ---- oracle: the property text on the implementation's outputs
    if nbad:
        # as if the refused calls had not happened: a fresh rotator given only the accepted calls
        def replay():
            r2 = df.FieldRotator(build(fc))
            for o in c["ops"]:
                if o["op"] == "clear":
                    r2.clear_rotation()
                elif o["op"] == "rot":
                    call_rotate(r2, o, c.get("style", True))
            return r2.field
        st_r, ref = attempt(replay)
        if st_r == "ok":
            ra = np.asarray(ref.array, dtype=float)
            if ([int(x) for x in ref.mesh.n] != on or ra.shape != oarr.shape
                    or np.abs(np.asarray(ref.mesh.region.pmin) - opmin).max() > 1e-12 * max(1e-300, float(np.abs(opmin).max()))
                    or np.abs(np.asarray(ref.mesh.region.pmax) - opmax).max() > 1e-12 * max(1e-300, float(np.abs(opmax).max()))
                    or np.abs(ra - oarr).max() > 1e-12 * max(float(np.abs(ra).max()), 1e-300)):
                rec["oracle"].append("refused-rotation-changed-state")
    rec["nbad"] = nbad
    if not np.array_equal(f.array, before) or snapshot() != snap0:
        rec["oracle"].append("original-field-modified")
    if since_clear == 0:
        if not (out is f or (out == f and out.mesh == f.mesh)) or not np.array_equal(out.array, before):
            rec["oracle"].append("clear-does-not-restore-original")
    else:
        # bounding box with the same centre
        corners = np.array([[s0, s1, s2] for s0 in (-1, 1) for s1 in (-1, 1) for s2 in (-1, 1)]) * (pmax - pmin) / 2
        img = corners @ Racc.T
        if (np.abs((opmin + opmax) / 2 - ctr).max() > 1e-8 * cscale
                or np.abs(opmin - (ctr + img.min(axis=0))).max() > 1e-8 * cscale
                or np.abs(opmax - (ctr + img.max(axis=0))).max() > 1e-8 * cscale):
            rec["oracle"].append("region-not-bounding-box")
        if last_n is not None and on != [int(x) for x in last_n]:
            rec["oracle"].append("explicit-n-ignored")
        ocell = (opmax - opmin) / np.array(on)
        interior = outside = 0
        bad_int = bad_out = bad_lin = False
        if oarr.shape == (*on, nv):
            for i, j, k in itertools.product(*(range(m) for m in on)):
                y = opmin + (np.array([i, j, k]) + 0.5) * ocell
                p = Racc.T @ (y - ctr) + ctr                   # back-rotated centre
                if ((p < pmin - 1e-6 * cell) | (p > pmax + 1e-6 * cell)).any():
                    outside += 1
                    if np.any(oarr[i, j, k] != 0):
                        bad_out = True
                elif ((p >= pmin + cell * (1 + 1e-6)) & (p <= pmax - cell * (1 + 1e-6))).all():
                    interior += 1
                    want = rotate_components(Racc, trilinear(A, (p - pmin) / cell - 0.5), perm)
                    if np.abs(oarr[i, j, k] - want).max() > 1e-7 * max(vscale, 1e-300):
                        bad_int = True
                    if coef is not None:
                        # affine data: the affine function itself at the back-rotated position
                        ci = (p - pmin) / cell - 0.5
                        lin = np.array([cf[0] * ci[0] + cf[1] * ci[1] + cf[2] * ci[2] + cf[3] for cf in coef])
                        wl = rotate_components(Racc, lin, perm)
                        if np.abs(oarr[i, j, k] - wl).max() > 1e-7 * max(vscale, 1e-300):
                            bad_lin = True
        else:
            rec["oracle"].append("result-shape")
        if bad_int:
            rec["oracle"].append("interior-value-not-rotated-interpolation")
        if bad_out:
            rec["oracle"].append("outside-not-zero")
        if bad_lin:
            rec["oracle"].append("linear-field-not-reproduced")
        rec["interior"], rec["outside"] = interior, outside
        # default resolution: the same as a fresh rotator given the accumulated rotation at once (it must not
        # depend on the resolutions of earlier rotations); compared away from rounding ties only
        if last_n is None:
            Lr = np.abs(Racc) @ cell
            xq = (opmax - opmin) / (Lr * (np.prod(cell) / np.prod(Lr)) ** (1 / 3))
            if np.all(np.abs(xq - np.floor(xq) - 0.5) > 1e-6):
                st_n, n_fresh = attempt(lambda: (lambda fr_: (fr_.rotate("from_matrix", Racc),
                                                              [int(x) for x in fr_.field.mesh.n])[1])(
                    df.FieldRotator(build(fc))))
                if st_n == "ok" and n_fresh != on:
                    rec["oracle"].append("default-n-depends-on-history")
        # composition: one fresh rotator, one rotation by the accumulated matrix
        st, g2 = attempt(lambda: (lambda fr_: (fr_.rotate("from_matrix", Racc, n=tuple(on)), fr_.field)[1])(
            df.FieldRotator(build(fc))))
        if st != "ok":
            rec["oracle"].append("rotation-of-supported-field-raised")
        elif (np.abs(np.asarray(g2.mesh.region.pmin) - opmin).max() > 1e-8 * cscale
                or np.abs(np.asarray(g2.mesh.region.pmax) - opmax).max() > 1e-8 * cscale):
            rec["oracle"].append("composition-region")
        else:
            # away from the zero-fill jump the two fields agree
            d = np.abs(g2.array - oarr)
            jump = (g2.array == 0).all(axis=-1) != (oarr == 0).all(axis=-1)
            if d[~jump].size and d[~jump].max() > 1e-7 * max(vscale, 1e-300):
                rec["oracle"].append("sequence-differs-from-accumulated-rotation")
        if c["kind"] == "quarter":
            names = f.mesh.region.dims
            a1, a2 = [(1, 2), (2, 0), (0, 1)][c["ax"]]
            # the lattice rotation of C12 is taken on the same data stored as float64: Field.rotate90 negates
            # components in the storage dtype, which wraps around for UNSIGNED integer fields (e.g. uint8: -2 ->
            # 254; a C12 matter, recorded in obs as rotate90_unsigned_wrap and reported, not a C18 alarm)
            ff = build(dict(fc, dtype="float64", dtype_explicit=True))
            st, lat = attempt(lambda: ff.rotate90(names[a1], names[a2], k=c["k"]))
            if str(before.dtype).startswith("uint"):
                st_u, lat_u = attempt(lambda: f.rotate90(names[a1], names[a2], k=c["k"]))
                rec["rotate90_unsigned_wrap"] = bool(st_u == "ok" and st == "ok" and
                                                     not np.array_equal(lat_u.array.astype(float), lat.array))
            if st == "ok":
                if ([int(x) for x in lat.mesh.n] != on
                        or np.abs(np.asarray(lat.mesh.region.pmin) - opmin).max() > 1e-8 * cscale
                        or np.abs(np.asarray(lat.mesh.region.pmax) - opmax).max() > 1e-8 * cscale
                        or np.abs(lat.array - oarr).max() > 1e-7 * max(vscale, 1e-300)):
                    rec["oracle"].append("quarter-turn-differs-from-lattice-rotation")
    # ---- Gallina
    ops_coq = []
    for o, M in zip(c["ops"], mats):
        if o["op"] == "clear":
            ops_coq.append("OClear")
        elif o["op"] == "bad":
            # an explicit n with a zero is a rotation request the model itself refuses; everything else does
            # not form a request
            ops_coq.append(f"ORot {qm(M)} (Some (N3 0%nat 1%nat 1%nat))" if o["why"] == "n0" else "ORefused")
        else:
            ne = o.get("n")
            ops_coq.append(f"ORot {qm(M)} " + ("None" if ne is None else f"(Some {qn3(ne)})"))
    if not c.get("nocoq") and math.prod(on) * nv <= (200 if c.get("core") else COQ_MAX_VALUES):
        rec["coq"] = (f"CRot {qv(pmin)} {qv(pmax)} {qn3(n)} {g.nat(nv)} {g.nl(perm)} {g.ql(A.reshape(-1))} "
                      f"{g.lst(ops_coq)} {qn3(on)} {qv(opmin)} {qv(opmax)} {g.ql(oarr.reshape(-1))}")
    methods = tuple(o.get("method", "bad:" + o["why"] if o["op"] == "bad" else "clear") for o in c["ops"])
    rec.update(obs=obs, size=len(fc["vals"]) * 10 + len(c["ops"]),
               key=f"{c['kind']}/{nv}/{fc['data']}/{methods}/{tuple(perm)}/{tuple(n)}/{last_n is not None}/{c.get('sp')}/{before.dtype}/{fc.get('valid') is not None}/{int(math.log2(vscale)) // 50 if vscale > 0 else 'z'}",
               nontrivial=True)
    rec["oracle"] = sorted(set(rec["oracle"]))
    return rec


def run_refuse(c):
    rec = dict(kind="refuse", case=c, oracle=[], tags=[], coq=None)
    ndim, nvdim = c["ndim"], c["nvdim"]
    dims = ["x", "y", "z", "w"][:ndim]
    mesh = df.Mesh(region=df.Region(p1=[0.0] * ndim, p2=[2.0] * ndim, dims=dims), n=[2] * ndim)
    dims = list(mesh.region.dims)
    kw = {}
    names = [f"v{i}" for i in range(nvdim)] if (c["vdims"] and nvdim > 1) else None
    if names:
        kw["vdims"] = names
    mk = c["mk"]
    st, f = attempt(lambda: df.Field(mesh, nvdim=nvdim, value=[1.0] * nvdim if nvdim > 1 else 1.0, **kw))
    if st != "ok":
        rec.update(obs=dict(field="rejected"), key=f"refuse/field-rejected/{ndim}/{nvdim}", size=1, nontrivial=False)
        return rec
    labels = list(f.vdims) if f.vdims else []
    mapping_model = []
    if nvdim > 1:
        if mk == "empty":
            f.vdim_mapping = {}
        elif mk in ("perm", "noninj", "notadim", "nonevalue"):
            f.vdim_mapping = {lab: (dims[a] if isinstance(a, int) else a) for lab, a in zip(labels, c["vm"])}
        vm = f.vdim_mapping
        for lab in labels:
            tgt = vm.get(lab) if lab in vm else None
            mapping_model.append(dims.index(tgt) if tgt in dims else None)

    def go():
        r = df.FieldRotator(f)
        r.rotate("from_euler", seq="z", angles=0.3)
        return r.field

    st, _ = attempt(go)
    accepted = st == "ok"
    supported = ndim == 3 and (nvdim == 1 or (nvdim == 3 and sorted(a for a in mapping_model if a is not None) == [0, 1, 2]))
    if accepted and not supported:
        rec["oracle"].append("unsupported-field-accepted")
    if supported and not accepted:
        rec["oracle"].append("supported-field-refused")
    mm = g.lst(mapping_model, lambda a: "None" if a is None else f"(Some {g.nat(a)})")
    rec["coq"] = f"CRefuse {g.nat(nvdim)} {g.nat(ndim)} {mm} {g.b(accepted)}"
    rec.update(obs=dict(accepted=accepted), key=f"refuse/{ndim}/{nvdim}/{mk}/{mapping_model}/{accepted}", size=1,
               nontrivial=True)
    return rec


def run_badmethod(c):
    rec = dict(kind="badmethod", case=c, oracle=[], tags=[], coq=None)
    mesh = df.Mesh(p1=(0, 0, 0), p2=(2, 2, 2), n=(2, 2, 2))
    f = df.Field(mesh, nvdim=3, value=(1, 2, 3))
    r = df.FieldRotator(f)
    st, _ = attempt(lambda: r.rotate(c["method"], [0, 0, 0.1]))
    if st == "ok":
        rec["oracle"].append("unknown-method-accepted")
    if not (r.field is f or np.array_equal(r.field.array, f.array)):
        rec["oracle"].append("failed-rotation-changed-field")
    rec.update(obs=dict(status=st), key=f"badmethod/{c['method']}", size=1, nontrivial=True)
    return rec


def known_ids():
    import json
    import os
    try:
        kf = json.load(open(os.path.join(os.path.dirname(os.path.dirname(os.path.dirname(os.path.abspath(__file__)))),
                                         "known_findings.json")))
        return {k.get("id") for k in kf if k.get("status") == "known"}
    except Exception:  # noqa: BLE001
        return set()


def run_complex(c):
    """complex-valued source field: record what rotate() does; the real part must follow the property"""
    import warnings
    fc = c["field"]
    rec = dict(kind="complex", case=c, oracle=[], tags=["C18-complex-imag-dropped"], coq=None)
    f = build(fc)
    st, out = attempt(lambda: (lambda r: (call_rotate(r, c["ops"][0], True), r.field)[1])(df.FieldRotator(f)))
    obs = dict(dtype_in=str(f.array.dtype), status=st)
    if st == "ok":
        fr_ = dict(fc, dtype="float64", imag=None)
        ref = df.FieldRotator(build(fr_))
        call_rotate(ref, c["ops"][0], True)
        fi_ = dict(fc, dtype="float64", imag=None, vals=fc["imag"])
        refi = df.FieldRotator(build(fi_))
        call_rotate(refi, c["ops"][0], True)
        oa = np.asarray(out.array)
        vs = max(float(np.abs(ref.field.array).max()), float(np.abs(refi.field.array).max()), 1e-300)
        real_ok = oa.shape == ref.field.array.shape and np.abs(np.real(oa) - ref.field.array).max() <= 1e-9 * vs
        imag_ok = np.iscomplexobj(oa) and np.abs(np.imag(oa) - refi.field.array).max() <= 1e-9 * vs
        obs.update(dtype_out=str(oa.dtype), real_part_is_rotated_real_part=bool(real_ok),
                   imaginary_part_is_rotated_imaginary_part=bool(imag_ok))
        if not real_ok:
            rec["oracle"].append("complex-field-real-part-wrong")
        if not imag_ok and "C18-complex-imag-dropped" in known_ids():
            # the rotated field silently loses the imaginary part; flagged only once the maintainer has
            # registered the finding (until then it is recorded in obs / stats and reported)
            rec["oracle"].append("complex-field-imaginary-part-dropped")
    rec.update(obs=obs, key=f"complex/{fc['nv']}/{obs.get('dtype_out')}/{obs.get('imaginary_part_is_rotated_imaginary_part')}",
               size=len(fc["vals"]), nontrivial=True)
    return rec


def run_case(c):
    if c["kind"] == "complex":
        return run_complex(c)
    if c["kind"] == "refuse":
        return run_refuse(c)
    if c["kind"] == "badmethod":
        return run_badmethod(c)
    return run_rot(c)


def stats(records):
    out = dict(interior_cells=0, outside_cells=0, rot_cases=0, accepted=0, refused=0, cleared_final=0,
               explicit_n=0, permuted_mapping=0, methods={})
    for r in records:
        c = r["case"]
        if r["kind"] == "refuse":
            if r.get("obs", {}).get("accepted"):
                out["accepted"] += 1
            else:
                out["refused"] += 1
            continue
        if r["kind"] == "badmethod":
            continue
        if r.get("rotate90_unsigned_wrap"):
            out["rotate90_unsigned_wrap_cases"] = out.get("rotate90_unsigned_wrap_cases", 0) + 1
        if r["kind"] == "complex":
            out.setdefault("complex", []).append(r.get("obs"))
            continue
        out["rot_cases"] += 1
        out["core_cases"] = out.get("core_cases", 0) + int(bool(c.get("core")))
        out["masked_fields"] = out.get("masked_fields", 0) + int(c["field"].get("valid") is not None)
        mag = max((abs(F(x)) for x in c["field"]["vals"]), default=F(0))
        out["tiny_or_huge_values"] = out.get("tiny_or_huge_values", 0) + int(mag != 0 and (mag < F(1, 2 ** 40) or mag > 2 ** 60))
        out["refused_calls"] = out.get("refused_calls", 0) + r.get("nbad", 0)
        dts = out.setdefault("dtypes", {})
        dts[c["field"].get("dtype", "float64")] = dts.get(c["field"].get("dtype", "float64"), 0) + 1
        out["oracle_only"] = out.get("oracle_only", 0) + int(r.get("coq") is None)
        out["interior_cells"] += r.get("interior", 0)
        out["outside_cells"] += r.get("outside", 0)
        out["cleared_final"] += int(c["ops"][-1]["op"] == "clear")
        out["explicit_n"] += int(any(o.get("n") for o in c["ops"]))
        out["permuted_mapping"] += int(c["field"].get("vmap") not in (None, [0, 1, 2]))
        for o in c["ops"]:
            m = o.get("method", "refused" if o["op"] == "bad" else "clear")
            out["methods"][m] = out["methods"].get(m, 0) + 1
    return out
