"""C19 — topological and demagnetisation tools: generators, implementation runner, Gallina
encoding, oracle.

Coq-checked kinds (model of tools.py run on the exact rationals of the implementation's floats):
  tcd      topological_charge_density, continuous / berg-luescher (solid angles enter as a table
           recorded from util.bergluescher_angle; neighbours, masks, counts, area in the model)
  charge   topological_charge = integral of the implementation's own density (absolute optional)
  angle    neighbouring_cell_angle values (arccos as a table) and the shortened mesh
  emergent emergent_magnetic_field
  bps      count_bps: the profile of local Bloch-point numbers along a direction
  demagN   real-space demag tensor (inverse transform of demag_tensor) against the model's assembly
           of the 64-term sums with independently evaluated Newell-type functions
Oracle-only kinds (the property text evaluated on the implementation's outputs):
  meta     rotation / length rescaling / mesh rescaling+translation / quarter turn / reversal / uniform
  integer  Berg-Luescher charge of whole-number wrappings
  hedgehog one Bloch point, tail-to-tail, head-to-head when reversed, along every direction
  demag    trace = -delta, two implementations agree, factor sums, axis relabelling
  refuse   wrong component count / spatial dimension / arguments are refused
"""
import ast
import itertools
import math
import random
from fractions import Fraction as F

import numpy as np

from harness import gallina as g
from harness.util import import_df, js, attempt

df = import_df()
import discretisedfield.tools as dft  # noqa: E402
import discretisedfield.util as dfu  # noqa: E402

# custom dimension names / units: judged for the angle tools since /repo 92e592a2 (the result mesh keeps names and
# units; the cell LENGTH of a dimension named 'V' is used, not Mesh.dV) and for demag_tensor / demag_field since
# /repo d5b1053a (they follow the dimension names and units of the mesh).
JUDGE_NAMES = True
JUDGE_DEMAG_NAMES = True
C4 = 1 / (4 * np.pi)
PI4 = 4 * np.pi
RTOL = 1e-7


# ------------------------------------------------------------------ builders
def fl(x):
    return float(F(x))


def build(c):
    sh = c["sh"]
    nd = len(sh)
    cell = [fl(x) for x in c["cell"]]
    p1 = [fl(x) for x in c["p1"]]
    p2 = [a + k * h for a, k, h in zip(p1, sh, cell)]
    dims = c.get("dims")
    region = df.Region(p1=p1, p2=p2, dims=dims, units=c.get("units_"))
    mesh = df.Mesh(region=region, n=sh, bc=c.get("bc", ""))
    nv = c.get("nvdim", 3)
    arr = np.array([fl(x) for x in c["vals"]], dtype=float).reshape(*sh, nv)
    valid = np.array(c["valid"], dtype=bool).reshape(*sh) if c.get("valid") is not None else True
    vm = None
    if nv == 3 and nd == 2 and dims in (None, ["x", "y"]):
        vm = {"x": "x", "y": "y", "z": None}      # lets Field.rotate90 turn the sample in the x-y plane
    return df.Field(mesh, nvdim=nv, value=arr, valid=valid, vdim_mapping=vm)


def fracs(a):
    return [F(x) for x in np.asarray(a, dtype=float).reshape(-1).tolist()]


def dyadic_cell(rng):
    return F(rng.choice([1, 1, 2, 3, 4]), rng.choice([1, 2, 4, 8]))


def rand_vec(rng):
    r = rng.random()
    if r < 0.06:
        return (0.0, 0.0, 0.0)
    if r < 0.2:
        v = [0.0, 0.0, 0.0]
        v[rng.randrange(3)] = rng.choice([-1.0, 1.0, 2.0, -0.5])
        return tuple(v)
    while True:
        v = tuple(float(rng.randint(-6, 6)) / rng.choice([1, 2, 4]) for _ in range(3))
        if any(v):
            return v


def smooth2d(rng, sh, flavour=None):
    """skyrmion-like texture from a stereographic map with random centre / radius / helicity"""
    cx, cy = (rng.uniform(0.2, 0.8) * sh[0], rng.uniform(0.2, 0.8) * sh[1])
    R = rng.uniform(0.8, 2.5) * max(1.0, min(sh) / 2)
    gam = rng.uniform(0, 2 * math.pi)
    N = rng.choice([1, 1, -1, 2])
    arr = np.zeros((*sh, 3))
    for i in range(sh[0]):
        for j in range(sh[1]):
            x, y = (i + 0.5 - cx) / R, (j + 0.5 - cy) / R
            r = math.hypot(x, y)
            psi = math.atan2(y, x)
            th = 2 * math.atan(r) if flavour != "cone" else 0.6 + 0.3 * r
            ph = N * psi + gam
            arr[i, j] = (math.sin(th) * math.cos(ph), math.sin(th) * math.sin(ph), -math.cos(th))
    return arr


# lengths within numpy's default closeness tolerance of 1 (|x-1| <= 1e-8 + 1e-5) without being 1
NEAR = [1 - 1e-9, 1 + 1e-9, 1 - 1e-7, 1 + 1e-7, 1 - 1e-6, 1 + 1e-6, 1 - 4e-6, 1 + 4e-6, 1 + 8e-6, 1 - 1e-5,
        1 + 1e-5, 1 - 2.0 ** -18, 1 + 2.0 ** -18, 1 - 2.0 ** -20]
UNIT_POOL = [(0.6, 0.8, 0.0), (0.0, 0.6, 0.8), (0.8, 0.0, -0.6), (1.0, 0.0, 0.0), (0.0, -1.0, 0.0), (0.0, 0.0, 1.0),
             (1 / 3, 2 / 3, 2 / 3), (2 / 7, 3 / 7, 6 / 7), (4 / 9, -4 / 9, 7 / 9)]


def unitize(a):
    a = np.asarray(a, dtype=float)
    nrm = np.linalg.norm(a, axis=-1, keepdims=True)
    return np.divide(a, nrm, out=np.zeros_like(a), where=nrm != 0)


def nearunit_apply(rng, unit_arr):
    """a (…,3) array of unit vectors -> lengths 1 +- {1e-9 .. 1e-5} uniformly / per cell, or float32 rounding"""
    mode = rng.choice(["uniform", "uniform", "percell", "percell", "f32", "f32-uniform"])
    a = np.array(unit_arr, dtype=float)
    if mode.startswith("f32"):
        a = a.astype(np.float32).astype(float)
    if mode in ("uniform", "f32-uniform"):
        a = a * rng.choice(NEAR)
    elif mode == "percell":
        fac = np.array([rng.choice(NEAR) for _ in range(a.size // 3)]).reshape(*a.shape[:-1], 1)
        a = a * fac
    return a, mode


def nearunit_line_vectors(rng, n, anti=True):
    """unit vectors with exactly parallel / nearly parallel / antiparallel / generic neighbours"""
    u = np.array(rng.choice(UNIT_POOL))
    out = []
    for _ in range(n):
        r = rng.random()
        if r < 0.4:
            v = u
        elif r < 0.5:
            v = -u if anti else u
        elif r < 0.85:
            w = np.array([rng.uniform(-1, 1) for _ in range(3)])
            v = unitize(u + rng.choice([1e-9, 1e-7, 1e-6, 1e-4, 1e-2]) * w)
        else:
            v = np.array(rng.choice(UNIT_POOL))
        out.append(np.asarray(v, dtype=float))
        if rng.random() < 0.3:
            u = out[-1]
    return np.array(out)


# rational points on the unit circle: exactly planar unit vectors (m_z == 0), exact products on the Coq side
CIRCLE = [(1.0, 0.0), (0.6, 0.8), (-0.8, 0.6), (-0.6, -0.8), (5 / 13, 12 / 13), (-12 / 13, 5 / 13), (0.0, -1.0),
          (8 / 17, -15 / 17), (-1.0, 0.0), (0.8, -0.6), (-5 / 13, -12 / 13), (7 / 25, 24 / 25), (-24 / 25, 7 / 25)]


def planar2d(rng, sh, flavour=None):
    """in-plane textures (one component exactly zero everywhere): spin spirals / XY configurations with
    neighbour angles around 120 degrees (coplanar triangles spread over more than a half circle)"""
    flavour = flavour or rng.choice(["spiral120", "spiral120", "circle", "angles", "spiral-generic"])
    a0, q0, q1 = rng.uniform(0, 6.28), rng.choice([2.094, 2.2, 1.9, -2.094, 2.6]), rng.choice([0.0, 2.094, -2.3, 0.4])
    arr = np.zeros((*sh, 3))
    plane = rng.choice([(0, 1), (0, 1), (1, 2), (0, 2)])
    for i in range(sh[0]):
        for j in range(sh[1]):
            if flavour == "spiral120":        # exact 3-sublattice order from rational circle points
                c_, s_ = [(0.6, 0.8), (-12 / 13, 5 / 13), (7 / 25, -24 / 25)][(i + 2 * j) % 3]
            elif flavour == "circle":
                c_, s_ = rng.choice(CIRCLE)
            else:
                ang = a0 + q0 * i + q1 * j + (rng.uniform(-0.3, 0.3) if flavour == "angles" else 0.0)
                c_, s_ = math.cos(ang), math.sin(ang)
            arr[i, j, plane[0]], arr[i, j, plane[1]] = c_, s_
    return arr * rng.choice([1.0, 1.0, 8e5, 0.5])


def field_case_2d(rng, kind, big=False):
    lo, hi = (1, 5) if not big else (3, 9)
    sh = [rng.randint(lo, hi), rng.randint(lo, hi)]
    cell = [dyadic_cell(rng), dyadic_cell(rng)]
    p1 = [F(rng.randint(-16, 16), 2) for _ in range(2)]
    tex = rng.choice(["random", "random", "smooth", "smooth", "axis", "uniform", "nearunit", "nearunit", "planar",
                      "planar"])
    if tex == "planar":
        arr = planar2d(rng, sh)
    elif tex == "random":
        arr = np.array([rand_vec(rng) for _ in range(sh[0] * sh[1])]).reshape(*sh, 3)
    elif tex == "nearunit":
        base = unitize(smooth2d(rng, sh)) if rng.random() < 0.6 else \
            nearunit_line_vectors(rng, sh[0] * sh[1], anti=False).reshape(*sh, 3)
        arr, _ = nearunit_apply(rng, base)
    elif tex == "smooth":
        arr = smooth2d(rng, sh) * rng.choice([1.0, 1.0, 8e5, 0.25])
    elif tex == "axis":
        arr = np.zeros((*sh, 3))
        for i, j in itertools.product(range(sh[0]), range(sh[1])):
            arr[i, j, rng.randrange(3)] = rng.choice([-1.0, 1.0])
    else:
        arr = np.tile(np.array(rand_vec(rng)), (*sh, 1))
    pm = rng.choice([0.0, 0.0, 0.15, 0.4])
    valid = [rng.random() >= pm for _ in range(sh[0] * sh[1])]
    dims = rng.choice([None, None, ["x", "y"], ["y", "z"], ["a", "b"], ["z", "x"], ["n", "e"], ["d", "V"]])
    names = dims or ["x", "y"]
    bc = "".join(d for d in names if rng.random() < 0.2)
    if rng.random() < 0.08:
        bc = rng.choice(["neumann", "dirichlet"])      # keywords: no direction is periodic
    return dict(kind=kind, sh=sh, cell=[g.qs(x) for x in cell], p1=[g.qs(x) for x in p1],
                vals=[g.qs(x) for x in arr.reshape(-1).tolist()], valid=valid, dims=dims, bc=bc, tex=tex)


# ------------------------------------------------------------------ generation
# number of cases per stream: directed core (identical in every run, tier and seed), quick, thorough
COUNTS = {
    #                core  quick  thorough
    "tcd_cont":      (20,   40,   420),
    "tcd_bl":        (20,   40,   420),
    "charge":        (10,   26,   260),
    "angle":         (24,   40,   420),
    "emergent":      (4,     7,    90),
    "bps":           (4,     5,    70),
    "demagN":        (3,     2,    20),
    "meta":          (14,   30,   360),
    "integer":       (4,     5,    50),
    "hedgehog":      (2,     2,    26),
    "demag":         (8,     3,    30),
    "demagseq":      (3,     3,    26),
    "quarter":       (10,   12,   130),
    "planar":        (10,   12,   130),
    "names":         (3,     0,     6),
    "refuse":        (13,   20,   130),
    "intdtype":      (6,     3,    30),
}


def planar_case(rng, flavour=None):
    c = field_case_2d(rng, "planar", big=True)
    c.update(vals=[g.qs(x) for x in planar2d(rng, c["sh"], flavour).reshape(-1).tolist()], tex="planar", dims=None,
             bc=rng.choice(["", "", "x", "xy"]))
    return c


def mask_cases(rng, sh, nmax=None):
    """all (or nmax sampled) validity masks of a small grid for the Berg-Luescher neighbour logic"""
    L = sh[0] * sh[1]
    base = field_case_2d(rng, "tcd")
    arr = smooth2d(rng, sh)
    masks = list(itertools.product([True, False], repeat=L))
    if nmax is not None and len(masks) > nmax:
        masks = rng.sample(masks, nmax)
    return [dict(base, sh=sh, vals=[g.qs(x) for x in arr.reshape(-1).tolist()], valid=list(mask),
                 method="berg-luescher", tex="smooth-mask", bc="", dims=None) for mask in masks]


def streams(rng, col):
    n = {k: v[col] for k, v in COUNTS.items()}
    cases = []
    for _ in range(n["tcd_cont"]):
        c = field_case_2d(rng, "tcd")
        c["method"] = "continuous"
        cases.append(c)
    for _ in range(n["tcd_bl"]):
        c = field_case_2d(rng, "tcd")
        c["method"] = "berg-luescher"
        cases.append(c)
    for _ in range(n["charge"]):
        c = field_case_2d(rng, "charge")
        c["method"] = rng.choice(["continuous", "berg-luescher"])
        c["absolute"] = rng.random() < 0.5
        cases.append(c)
    for _ in range(n["angle"]):
        cases.append(angle_case(rng))
    for _ in range(n["emergent"]):
        cases.append(field_case_3d(rng, "emergent"))
    for _ in range(n["bps"]):
        cases.append(field_case_3d(rng, "bps"))
    for _ in range(n["demagN"]):
        cases.append(demagN_case(rng))
    for _ in range(n["meta"]):
        cases.append(meta_case(rng))
    for _ in range(n["integer"]):
        cases.append(integer_case(rng))
    for _ in range(n["hedgehog"]):
        cases.append(hedgehog_case(rng))
    for k in range(n["demag"]):
        cases.append(demag_case(rng, k if col == 0 else 8 + k))
    for k in range(n["demagseq"]):
        cases.append(demagseq_case(rng, k if col == 0 else 3 + k))
    for _ in range(n["quarter"]):
        cases.append(quarter_case(rng))
    for _ in range(n["planar"]):
        cases.append(planar_case(rng))
    for k in range(n["names"]):
        cases.append(dict(kind="names", variant=k % 3, seed=rng.randint(0, 10**6)))
    for k in range(n["refuse"]):
        cases.append(refuse_case(rng, k))
    for k in range(n["intdtype"]):
        cases.append(intdtype_case(rng, k))
    return cases


def hand_angle(vecs, ax=0, units="rad", dims=None):
    n = len(vecs)
    return dict(kind="angle", sh=[n], cell=["1/2"], p1=["-1/1"], ax=ax, units=units,
                vals=[g.qs(x) for v in vecs for x in v], valid=None, tex="directed", dims=dims, units_=None)


def directed_core():
    """seed-independent cases: one small group per mechanism that a seeded change of /repo once slipped
    through (seeded/C19-*/meta.json); fixed Random(424242) or hand-written; identical in every run"""
    R = random.Random(424242)
    core = streams(R, 0)
    # b1 / c3: neighbour and triangle structure of the lattice density: ALL 64 masks of a 3x2 grid
    core += mask_cases(R, [3, 2])
    # b2 / c1: exactly antiparallel and exactly parallel neighbours, unit and near-unit lengths, float32
    u = np.array([0.6, 0.8, 0.0])
    w = np.array([1 / 3, 2 / 3, 2 / 3])
    f32 = lambda v: np.asarray(v, dtype=np.float32).astype(float)      # noqa: E731
    core += [hand_angle([u, -u, u, u * (1 - 4e-6), u * (1 + 8e-6), -u * (1 - 1e-5)]),
             hand_angle([w, w * (1 - 4e-6), w * (1 - 4e-6), f32(w), f32(w), -f32(w)], units="deg"),
             hand_angle([u * (1 - 2.0 ** -18)] * 4 + [-u * (1 - 2.0 ** -18)], dims=["V"]),
             hand_angle([(1.0, 0.0, 0.0), (-1.0, 0.0, 0.0), (0.0, 3.0, 0.0), (0.0, -3.0, 0.0)])]
    # b2: sharp 180-degree walls whose normalised dot product rounds below -1 (and above +1)
    core += [hand_angle([(1.0, 1.0, 1.0), (-1.0, -1.0, -1.0), (1.0, 1.0, 1.0), (1.0, 1.0, 1.0)]),
             hand_angle([(1.0, 2.0, 2.0), (-1.0, -2.0, -2.0), (2.0, 3.0, 6.0), (-2.0, -3.0, -6.0), (-2.0, -3.0, -6.0)]),
             hand_angle([(0.3, -0.7, 1.1), (-0.3, 0.7, -1.1), (-0.3, 0.7, -1.1), (5.0, 5.0, -5.0), (-5.0, -5.0, 5.0)],
                        units="deg")]
    # a2 / e1: hedgehogs of non-unit length on non-cubic samples, counted along every direction
    for sh, length in (([8, 8, 14], 0.5), ([13, 8, 8], 8e5), ([8, 12, 8], 3.0)):
        core.append(dict(kind="hedgehog", sh=sh, cell=["1/1", "1/1", "1/1"], off=[g.qs(0.37), g.qs(0.13), g.qs(-0.21)],
                         length=g.qs(length), unit=None, shift=["0/1", "-3/2", "5/1"]))
    # a1: coarse rough textures (triangles with 1 + d12 + d23 + d31 < 0)
    core += [quarter_case(R) for _ in range(4)]
    # d1: coplanar triangles spread over more than a half circle (exact 3-sublattice order), c3: rough quarter
    core += [planar_case(R, "spiral120") for _ in range(4)] + [planar_case(R, "circle") for _ in range(2)]
    # d3 / c2 / a3 / b3: single-cell first axis, anisotropic cells with dx != dy, repeated n with other cells
    for sh, cell in (([1, 4, 2], [1, 2, 3]), ([3, 2, 2], [2, 1, F(1, 2)]), ([2, 2, 2], [1, 1, 1])):
        core.append(dict(kind="demag", sh=sh, cell=[g.qs(x) for x in cell], M=g.qs(8e5), slow=True))
    core += [dict(kind="demagN", sh=[1, 2, 1], cell=["1/1", "2/1", "3/1"]),
             dict(kind="demagN", sh=[2, 1, 1], cell=["3/1", "1/1", "2/1"])]
    for c in core:
        c["core"] = True
    R.shuffle(core)
    return core


def generate(rng, tier):
    q = tier == "quick"
    rand = streams(rng, 1 if q else 2)
    # further validity-mask sweeps of the Berg-Luescher neighbour logic
    rand += mask_cases(rng, [2, 3]) + mask_cases(rng, [1, 4] if q else [3, 3], 128)
    rng.shuffle(rand)      # balances the cost of the Coq shards
    return directed_core() + rand


def intdtype_case(rng, k):
    """3-component fields created with an explicit INTEGER dtype and large components (squares overflow the
    dtype): every tool must give what it gives for the float64 twin"""
    dt, amp = [("int16", 3000), ("int32", 800000), ("int64", 4 * 10**9), ("int32", 2 * 10**9), ("int16", 200),
               ("int64", 10**15)][k % 6]
    sh2 = [rng.randint(3, 6), rng.randint(3, 6)]
    a2 = smooth2d(rng, sh2) if rng.random() < 0.6 else unitize(np.array([rand_vec(rng) for _ in range(sh2[0] * sh2[1])]).reshape(*sh2, 3) + 0.01)
    sh3 = [rng.randint(3, 5) for _ in range(3)]
    centre = [k_ / 2 + rng.choice([0.13, -0.21, 0.37]) for k_ in sh3]
    a3 = unitize(hedgehog_arr(sh3, [1.0, 1.0, 1.0], centre))
    return dict(kind="intdtype", dtype=dt, sh2=sh2, sh3=sh3, cell2=[g.qs(dyadic_cell(rng)) for _ in range(2)],
                cell3=[g.qs(dyadic_cell(rng)) for _ in range(3)],
                vals2=[int(round(x * amp)) for x in a2.reshape(-1).tolist()],
                vals3=[int(round(x * amp)) for x in a3.reshape(-1).tolist()], dir=rng.randrange(3))


def angle_case(rng):
    nd = rng.choice([1, 2, 2, 3, 3])
    sh = [rng.randint(1, 4 if nd == 3 else 5) for _ in range(nd)]
    ax = rng.randrange(nd)
    if rng.random() < 0.8 and sh[ax] == 1:
        sh[ax] = rng.randint(2, 4)
    cell = [dyadic_cell(rng) for _ in range(nd)]
    p1 = [F(rng.randint(-16, 16), 2) for _ in range(nd)]
    n = math.prod(sh)
    tex = rng.choice(["random", "near", "axis", "nearunit", "nearunit"])
    if tex == "random":
        arr = [rand_vec(rng) for _ in range(n)]
    elif tex == "nearunit":
        arr, _ = nearunit_apply(rng, nearunit_line_vectors(rng, n))
        arr = arr.tolist()
    elif tex == "axis":
        arr = []
        for _ in range(n):
            v = [0.0, 0.0, 0.0]
            v[rng.randrange(2)] = rng.choice([-1.0, 1.0, 3.0])
            arr.append(v)
    else:   # nearly parallel / antiparallel neighbours (clip region)
        b = np.array(rand_vec(rng)) + np.array([0.3, 0.1, 0.7])
        arr = [(b * rng.choice([1, 1, -1, 2.5]) + rng.choice([0, 0, 1e-9, 1e-5]) * np.array(rand_vec(rng))).tolist()
               for _ in range(n)]
    dims = units_ = None
    if rng.random() < 0.4:
        dims = rng.sample(["a", "b", "c", "z", "x", "n", "e", "q", "V", "X", "Y", "N", "L"], nd)
        if rng.random() < 0.3:
            dims[rng.randrange(nd)] = "V" if "V" not in dims else dims[0]
            if len(set(dims)) < nd:
                dims = ["V", "n", "X"][:nd]
        units_ = rng.choice([None, rng.sample(["nm", "um", "s", "m", "rad", "T"], nd)])
    return dict(kind="angle", sh=sh, cell=[g.qs(x) for x in cell], p1=[g.qs(x) for x in p1], ax=ax,
                units=rng.choice(["rad", "rad", "deg"]), vals=[g.qs(x) for x in np.array(arr).reshape(-1).tolist()],
                valid=None, tex=tex, dims=dims, units_=units_)


def hedgehog_arr(sh, cell, centre, sign=1.0):
    arr = np.zeros((*sh, 3))
    for idx in itertools.product(*[range(k) for k in sh]):
        p = [(i + 0.5) * h for i, h in zip(idx, cell)]
        arr[idx] = [sign * (a - b) for a, b in zip(p, centre)]
    return arr


def field_case_3d(rng, kind):
    if kind == "emergent":
        sh = [rng.randint(1, 4) for _ in range(3)]
    else:
        sh = [rng.randint(2, 4) for _ in range(3)]
    cell = [dyadic_cell(rng) for _ in range(3)]
    p1 = [F(rng.randint(-8, 8), 2) for _ in range(3)]
    n = math.prod(sh)
    tex = rng.choice(["random", "hedgehog", "hedgehog"]) if kind == "bps" else rng.choice(["random", "random", "hedgehog"])
    if tex == "random":
        arr = np.array([rand_vec(rng) for _ in range(n)]).reshape(*sh, 3)
    else:
        cf = [fl(x) for x in cell]
        centre = [(k / 2 + rng.choice([0.13, -0.21, 0.5, 0.37])) * h for k, h in zip(sh, cf)]
        arr = hedgehog_arr(sh, cf, centre, rng.choice([1.0, -1.0, 3.0]))
        arr += 0.05 * np.array([rand_vec(rng) for _ in range(n)]).reshape(*sh, 3)
    pm = rng.choice([0.0, 0.0, 0.1, 0.3])
    valid = [rng.random() >= pm for _ in range(n)]
    dims = rng.choice([None, None, ["a", "b", "c"], ["z", "x", "y"], ["u", "n", "e"]])
    bc = "".join(d for d in (dims or "xyz") if rng.random() < 0.15)
    return dict(kind=kind, sh=sh, cell=[g.qs(x) for x in cell], p1=[g.qs(x) for x in p1],
                vals=[g.qs(x) for x in arr.reshape(-1).tolist()], valid=valid, bc=bc, tex=tex,
                dir=rng.randrange(3), dims=dims, units_=rng.choice([None, ["nm", "um", "s"]]) if dims else None)


def demagN_case(rng):
    sh = rng.choice([[1, 1, 1], [2, 1, 1], [1, 2, 1], [1, 1, 2], [2, 2, 1], [2, 1, 2], [1, 2, 2]])
    cell = rng.choice([[1, 1, 1], [1, 2, 3], [2, 1, F(1, 2)], [F(1, 2), 3, 1], [3, 1, 2], [1, 1, 4]])
    return dict(kind="demagN", sh=sh, cell=[g.qs(x) for x in cell])


def quat_rotation(rng):
    while True:
        a, b, c, d = (rng.randint(-4, 4) for _ in range(4))
        N = a * a + b * b + c * c + d * d
        if N:
            break
    R = [[a * a + b * b - c * c - d * d, 2 * (b * c - a * d), 2 * (b * d + a * c)],
         [2 * (b * c + a * d), a * a - b * b + c * c - d * d, 2 * (c * d - a * b)],
         [2 * (b * d - a * c), 2 * (c * d + a * b), a * a - b * b - c * c + d * d]]
    return [[g.qs(F(x, N)) for x in row] for row in R]


def signed_perm_rotation(rng):
    while True:
        p = rng.sample(range(3), 3)
        s = [rng.choice([-1, 1]) for _ in range(3)]
        M = np.zeros((3, 3))
        for i in range(3):
            M[i, p[i]] = s[i]
        if round(np.linalg.det(M)) == 1:
            return [[g.qs(int(x)) for x in row] for row in M.tolist()]


def meta_case(rng):
    c = field_case_2d(rng, "meta", big=True)
    sh = c["sh"]
    if c["tex"] == "random" and rng.random() < 0.5:
        arr = smooth2d(rng, sh, "cone")
        c["vals"] = [g.qs(x) for x in arr.reshape(-1).tolist()]
        c["tex"] = "cone"
    c["rot"] = quat_rotation(rng) if rng.random() < 0.7 else signed_perm_rotation(rng)
    c["lengths"] = [g.qs(F(rng.choice([1, 2, 3, 5, 1000, 123457]), rng.choice([1, 2, 7, 1000])))
                    for _ in range(sh[0] * sh[1])]
    if rng.random() < 0.45:
        # exactly normalised base field; the rescalings stay within 1e-5 of length 1
        base = unitize(np.array([fl(x) for x in c["vals"]]).reshape(*sh, 3))
        base[np.linalg.norm(base, axis=-1) == 0] = (0.0, 0.6, 0.8)
        c["vals"] = [g.qs(x) for x in base.reshape(-1).tolist()]
        c["lengths"] = [g.qs(rng.choice(NEAR)) for _ in range(sh[0] * sh[1])]
        c["tex"] = c["tex"] + "+nearunit"
        c["f32"] = True
    c["mesh_scale"] = g.qs(rng.choice([F(1, 2), F(3), F(1, 10**9), F(7, 3), F(10**6), F(5, 10**9)]))
    c["mesh_shift"] = [g.qs(F(rng.randint(-50, 50), rng.choice([1, 3, 8]))) for _ in range(2)]
    c["quarter_k"] = rng.choice([1, 2, 3])
    return c


def quarter_case(rng):
    """rough random-direction textures (large neighbour angles, no exceptional triangles by construction of
    generic directions), fully valid or masked; all four quarter turns of the sample"""
    sh = [rng.randint(2, 7), rng.randint(2, 7)]
    cell = [dyadic_cell(rng), dyadic_cell(rng)]
    b = np.array([rng.uniform(-1, 1) for _ in range(3)])
    amp = rng.choice([0.7, 1.5, 3.0])
    arr = np.array([b + amp * np.array([rng.uniform(-1, 1) for _ in range(3)]) for _ in range(sh[0] * sh[1])])
    arr = unitize(arr).reshape(*sh, 3) * rng.choice([1.0, 1.0, 8e5, 1 - 4e-6])
    pm = rng.choice([0.0, 0.0, 0.2])
    valid = [rng.random() >= pm for _ in range(sh[0] * sh[1])]
    return dict(kind="quarter", sh=sh, cell=[g.qs(x) for x in cell], p1=[g.qs(F(rng.randint(-8, 8), 2)) for _ in range(2)],
                vals=[g.qs(x) for x in arr.reshape(-1).tolist()], valid=valid, dims=None,
                bc=rng.choice(["", "", "x", "y", "xy"]), tex=f"rough{amp}")


def integer_case(rng):
    N = rng.choice([1, 1, 1, -1, 2, -2])
    Rc = rng.uniform(5, 7) * (1 if abs(N) == 1 else 1.8)
    n0 = int(2 * Rc) + rng.randint(4, 7)
    n1 = int(2 * Rc) + rng.randint(4, 7)
    cell = [dyadic_cell(rng), dyadic_cell(rng)]
    cx, cy = n0 / 2 + rng.uniform(-0.5, 0.5), n1 / 2 + rng.uniform(-0.5, 0.5)
    gam = rng.uniform(0, 2 * math.pi)
    pol = rng.choice([1.0, -1.0])
    prof = rng.choice(["linear", "cos"])
    arr = np.zeros((n0, n1, 3))
    for i in range(n0):
        for j in range(n1):
            x, y = i + 0.5 - cx, j + 0.5 - cy
            r = math.hypot(x, y)
            if r >= Rc:
                arr[i, j] = (0.0, 0.0, pol)
                continue
            th = math.pi * (1 - r / Rc) if prof == "linear" else math.pi * 0.5 * (1 + math.cos(math.pi * r / Rc))
            ph = N * math.atan2(y, x) + gam
            arr[i, j] = (math.sin(th) * math.cos(ph), math.sin(th) * math.sin(ph), pol * math.cos(th))
    arr *= rng.choice([1.0, 8e5, 0.01])
    # masked cells only in the uniform rim
    valid = []
    for i in range(n0):
        for j in range(n1):
            far = math.hypot(i + 0.5 - cx, j + 0.5 - cy) > Rc + 1.5
            valid.append(not (far and rng.random() < 0.2))
    return dict(kind="integer", sh=[n0, n1], cell=[g.qs(x) for x in cell], p1=["0/1", "0/1"], N=N,
                vals=[g.qs(x) for x in arr.reshape(-1).tolist()], valid=valid,
                rot=quat_rotation(rng) if rng.random() < 0.5 else None, dims=rng.choice([None, ["x", "z"]]), bc="")


def hedgehog_case(rng):
    sh = [rng.randint(8, 11) for _ in range(3)]
    cell = [F(rng.choice([1, 2, 3]), rng.choice([1, 2, 4])) for _ in range(3)]
    off = [rng.choice([0.13, -0.21, 0.37, 0.5, -0.42]) for _ in range(3)]
    return dict(kind="hedgehog", sh=sh, cell=[g.qs(x) for x in cell], off=[g.qs(x) for x in off],
                length=g.qs(rng.choice([1.0, 8e5, 0.5])), unit=rng.choice([None, None] + NEAR[4:10]),
                shift=[g.qs(F(rng.randint(-20, 20), 2)) for _ in range(3)])


def demag_case(rng, k):
    shapes = [[2, 2, 2], [3, 3, 3], [4, 2, 3], [2, 5, 3], [1, 4, 2], [6, 3, 2], [3, 1, 1], [2, 2, 5]]
    cells = [[1, 2, 3], [F(1, 2), 1, 3], [2, 1, 1], [3, 2, 1], [1, 1, 4], [5e-9, 2.5e-9, 1e-8], [1, 3, 1], [2, 3, F(1, 2)]]
    sh = shapes[k % len(shapes)] if k < len(shapes) else [rng.randint(1, 5) for _ in range(3)]
    if k == 0:
        cell = [1, 1, 1]
    elif k == 1:
        cell = [F(1, 2)] * 3
    elif k == 2:
        cell = [5e-9] * 3
    else:       # anisotropic cells (an axis / cell-size mix-up cancels on cubic cells)
        cell = cells[(k + rng.randrange(len(cells))) % len(cells)]
    return dict(kind="demag", sh=sh, cell=[g.qs(x) for x in cell], M=g.qs(rng.choice([1.0, 2.5, 8e5])),
                slow=(math.prod(sh) <= 12))


def demagseq_case(rng, k):
    """one session, one n, a SEQUENCE of cell aspect ratios (incl. the cells that make the cuboid a cube,
    a pure rescaling, and repeats), in a random order and then in the reverse order"""
    shapes = [[4, 4, 4], [2, 2, 2], [1, 4, 2], [3, 2, 2], [2, 3, 1], [3, 3, 3], [2, 1, 4]]
    sh = shapes[k % len(shapes)] if k < len(shapes) else [rng.randint(1, 4) for _ in range(3)]
    L = math.lcm(*sh)
    cube = [F(L, n) for n in sh]                       # n_i * cell_i equal: the cuboid is a cube
    pool = [[1, 2, 4], [F(1, 2), 1, 3], [3, 1, 2], [2, 3, F(1, 2)], [1, 1, 4], [4, 2, 1]]
    A = pool[rng.randrange(len(pool))]
    B = pool[(pool.index(A) + 1 + rng.randrange(len(pool) - 1)) % len(pool)]
    if all(F(a) * n == F(A[0]) * sh[0] for a, n in zip(A, sh)):
        A = [A[0], A[1], F(A[2]) * 3]
    sfac = rng.choice([F(1, 10**9), F(3), F(5, 2)])
    base = [A, cube, B, [F(x) * sfac for x in A], [F(x) * sfac for x in cube]]
    rng.shuffle(base)
    if base[0] == cube or base[0] == [F(x) * sfac for x in cube]:
        base = base[1:] + base[:1]                     # a non-cubic predecessor comes first
    seq = base + list(reversed(base))
    return dict(kind="demagseq", sh=sh, seq=[[g.qs(x) for x in cell] for cell in seq],
                M=g.qs(rng.choice([1.0, 2.5, 8e5])), slow=(math.prod(sh) <= 8))


def refuse_case(rng, k):
    what = ["tcd-nvdim", "tcd-ndim", "tcd-method", "charge-nvdim", "charge-ndim", "angle-nvdim", "angle-direction",
            "angle-units", "emergent-nvdim", "emergent-ndim", "bps-nvdim", "bps-ndim", "bps-direction"][k % 13]
    return dict(kind="refuse", what=what, nvdim=rng.choice([1, 2, 4]), ndim=rng.choice([1, 3]),
                ndim3=rng.choice([1, 2]), method=rng.choice(["continuous", "berg-luescher"]),
                bad=rng.choice(["w", "xy", "", "X", "0"]), seed=rng.randint(0, 10**6))


# ------------------------------------------------------------------ helpers for the exact side
def far(a, b, tol):
    """NaN-safe |a-b| > tol"""
    return not bool(np.all(np.abs(np.asarray(a) - np.asarray(b)) <= tol))


def vdot(a, b):
    return a[0] * b[0] + a[1] * b[1] + a[2] * b[2]


def vcross(a, b):
    return (a[1] * b[2] - a[2] * b[1], a[2] * b[0] - a[0] * b[2], a[0] * b[1] - a[1] * b[0])


def bl_value(v0, va, vb):
    fn = getattr(dfu, "bergluescher_angle", None)
    if fn is not None:
        return float(fn(np.array(v0), np.array(va), np.array(vb)))
    t = vdot(v0, vcross(va, vb))
    if t == 0:
        return 0.0
    return 2 * math.atan2(t, 1 + vdot(v0, va) + vdot(va, vb) + vdot(vb, v0)) / (4 * math.pi)


def bl_table(o, sh, valid=None):
    """all geometrically existing triangles (validity ignored): exact keys, recorded values"""
    tab = {}
    risky = False
    ang_bad = False
    n0, n1 = sh
    for i in range(n0):
        for j in range(n1):
            nb = [(i + 1, j), (i, j + 1), (i - 1, j), (i, j - 1)]
            for t in range(4):
                a, b = nb[t], nb[(t + 1) % 4]
                if not (0 <= a[0] < n0 and 0 <= a[1] < n1 and 0 <= b[0] < n0 and 0 <= b[1] < n1):
                    continue
                if valid is not None and not (valid[i, j] and valid[a] and valid[b]):
                    continue
                v0, va, vb = o[i, j], o[a], o[b]
                e0, ea, eb = ([F(x) for x in v.tolist()] for v in (v0, va, vb))
                key = (vdot(e0, ea), vdot(ea, eb), vdot(eb, e0), vdot(e0, vcross(ea, eb)))
                val = bl_value(v0.tolist(), va.tolist(), vb.tolist())
                if not math.isfinite(val):
                    risky = True
                    val = 0.0
                tab.setdefault(key, F(val))
                if key[3] == 0 and val != 0 and any(e0[k_] == 0 and ea[k_] == 0 and eb[k_] == 0 for k_ in range(3)):
                    ang_bad = True      # all three vectors in a coordinate plane: the triple product is exactly 0
                re = 1 + float(key[0] + key[1] + key[2])
                im = float(key[3])
                mod = math.hypot(re, im)
                if mod < 1e-3 or (re < 0 and abs(im) < 1e-9):
                    risky = True
                elif abs(val - 2 * math.atan2(im, re) / (4 * math.pi)) > 1e-9:
                    ang_bad = True
    return tab, risky, ang_bad


def coq_q4(tab):
    return g.lst([f"({g.q(k[0])}, {g.q(k[1])}, {g.q(k[2])}, {g.q(k[3])}, {g.q(v)})" for k, v in tab.items()])


def per_flags(c, names):
    """Mesh._is_periodic: bc lists the periodic dimensions by their one-character names; the keywords
    'neumann' / 'dirichlet' name no dimension"""
    bc = c.get("bc", "")
    if bc in ("neumann", "dirichlet"):
        return [False for _ in names]
    return [d in tuple(bc) for d in names]


# ------------------------------------------------------------------ runners
def decoy_calls(c):
    """state left by an earlier call: before the observed call, the same tool functions are called on a
    DIFFERENT input of equal shape (other values, other cell aspect ratio, all cells valid)"""
    kind = c["kind"]
    try:
        if kind == "demagN":
            sh = c["sh"]
            cell = [fl(x) * m for x, m in zip(reversed(c["cell"]), (1.0, 2.0, 3.0))]
            dft.demag_tensor(df.Mesh(p1=(0, 0, 0), p2=[k * h for k, h in zip(sh, cell)], n=sh))
            return
        if kind not in ("tcd", "charge", "angle", "emergent", "bps"):
            return
        nv = 3
        vecs = [c["vals"][i:i + nv] for i in range(0, len(c["vals"]), nv)]
        vals = []
        for k, v in enumerate(reversed(vecs)):
            w = [fl(v[1]) + 0.25, -fl(v[2]) + 0.5 * (k % 3), fl(v[0]) - 0.125 * k]
            vals += [g.qs(x) for x in w]
        cell = [g.qs(F(x) * F(3 + k, 2)) for k, x in enumerate(reversed(c["cell"]))]
        d = build(dict(c, vals=vals, cell=cell, valid=None))
        dims = d.mesh.region.dims
        if kind in ("tcd", "charge"):
            for m in ("continuous", "berg-luescher"):
                dft.topological_charge_density(d, method=m)
                dft.topological_charge(d, method=m, absolute=True)
        elif kind == "angle":
            for u in ("rad", "deg"):
                dft.neighbouring_cell_angle(d, direction=dims[c["ax"]], units=u)
        else:
            dft.emergent_magnetic_field(d)
            dft.count_bps(d, direction=dims[c["dir"]])
    except Exception:   # noqa: BLE001 - the decoy only leaves state behind
        pass


def run_case(c):
    rec = dict(kind=c["kind"], case=c, oracle=[], tags=[], coq="", obs={}, size=len(c.get("vals", [])) or 1)
    decoy_calls(c)
    fn = globals()["run_" + c["kind"]]
    fn(c, rec)
    rec["oracle"] = sorted(set(rec["oracle"]))
    rec.setdefault("key", c["kind"])
    return rec


def run_tcd(c, rec):
    f = build(c)
    sh = c["sh"]
    names = list(f.mesh.region.dims)
    st, r = attempt(lambda: dft.topological_charge_density(f, method=c["method"]))
    if st != "ok":
        rec.update(obs=dict(err=r), key=f"tcd/err/{r}")
        rec["oracle"].append("density-raised")
        return
    o = f.orientation.array
    out = r.array.reshape(-1)
    if r.nvdim != 1 or r.mesh != f.mesh or out.size != sh[0] * sh[1]:
        rec["oracle"].append("density-not-a-scalar-field-on-the-same-mesh")
    h1, h2 = c["cell"]
    if not np.all(np.isfinite(out)):
        risky = c["method"] == "berg-luescher" and bl_table(o, sh)[1]
        if not risky:
            rec["oracle"].append("density-not-finite")
        # exactly antiparallel neighbours: the lattice charge is undefined (exceptional configuration)
        rec.update(obs=dict(nonfinite=True, exceptional=bool(risky)), key=f'tcd/{c["method"]}/nonfinite/{risky}')
        return
    if c["method"] == "continuous":
        p = per_flags(c, names)
        coq = (f'CTcdCont {g.nl(sh)} {g.q(h1)} {g.q(h2)} {g.b(p[0])} {g.b(p[1])} {g.q(F(C4))} '
               f'{g.ql(fracs(o))} {g.bl(c["valid"])} {g.ql(fracs(out))}')
    else:
        tab, risky, ang_bad = bl_table(o, sh, np.array(c["valid"], dtype=bool).reshape(*sh))
        if ang_bad:
            rec["oracle"].append("bl-angle-differs-from-solid-angle-over-4pi")
        coq = (f'CTcdBL {g.nl(sh)} {g.q(h1)} {g.q(h2)} {g.ql(fracs(o))} {g.bl(c["valid"])} '
               f'{coq_q4(tab)} {g.ql(fracs(out))}')
    if c["tex"] == "uniform":
        sc = 1 / (fl(h1) * fl(h2))
        if far(out, 0.0, 1e-12 * sc):
            rec["oracle"].append("uniform-field-nonzero-density")
    nmask = sum(1 for b in c["valid"] if not b)
    mk = "".join("1" if b else "0" for b in c["valid"]) if len(c["valid"]) <= 9 else str(nmask)
    rec.update(obs=dict(array=js(out)), coq=coq,
               key=f'tcd/{c["method"]}/{tuple(sh)}/{c["tex"]}/{mk}/{c.get("bc", "")}',
               nontrivial=sh[0] * sh[1] > 1)


def run_charge(c, rec):
    f = build(c)
    sh = c["sh"]
    st, r = attempt(lambda: dft.topological_charge(f, method=c["method"], absolute=c["absolute"]))
    st2, d = attempt(lambda: dft.topological_charge_density(f, method=c["method"]))
    if st != "ok" or st2 != "ok":
        rec.update(obs=dict(err=str(r)), key="charge/err")
        rec["oracle"].append("charge-raised")
        return
    dV = F(c["cell"][0]) * F(c["cell"][1])
    q = d.array.reshape(-1)
    if not (np.all(np.isfinite(q)) and math.isfinite(r)):
        risky = c["method"] == "berg-luescher" and bl_table(f.orientation.array, sh)[1]
        if not risky:
            rec["oracle"].append("charge-not-finite")
        rec.update(obs=dict(nonfinite=True, exceptional=bool(risky)), key=f'charge/{c["method"]}/nonfinite/{risky}')
        return
    if c["absolute"] and r < 0:
        rec["oracle"].append("absolute-charge-negative")
    if c["tex"] == "uniform" and far(r, 0.0, 1e-12):
        rec["oracle"].append("uniform-field-nonzero-charge")
    coq = f'CCharge {g.b(c["absolute"])} {g.nl(sh)} {g.q(dV)} {g.ql(fracs(q))} {g.q(F(float(r)))}'
    rec.update(obs=dict(charge=js(float(r))), coq=coq,
               key=f'charge/{c["method"]}/{c["absolute"]}/{tuple(sh)}/{c["tex"]}', nontrivial=True)


def run_angle(c, rec):
    f = build(c)
    sh, ax = c["sh"], c["ax"]
    dim = f.mesh.region.dims[ax]
    deg = c["units"] == "deg"
    st, r = attempt(lambda: dft.neighbouring_cell_angle(f, direction=dim, units=c["units"]))
    pmin, pmax = fracs(f.mesh.region.pmin), fracs(f.mesh.region.pmax)
    if st != "ok":
        mesh_obs = "None"
        if sh[ax] > 1:
            rec["oracle"].append("angle-raised")
        coq = f'CAngleMesh {g.ql(pmin)} {g.ql(pmax)} {g.zl(sh)} {g.nat(ax)} None'
        rec.update(obs=dict(err=r), coq=coq, key=f"angle/rejected/{len(sh)}/{sh[ax]}")
        return
    if sh[ax] == 1:
        rec["oracle"].append("angle-on-single-cell-direction-accepted")
    o = f.orientation.array
    out = r.array.reshape(-1)
    if not np.all(np.isfinite(out)):
        rec["oracle"].append("angle-not-finite")
        rec.update(obs=dict(nonfinite=True), key=f'angle/nonfinite/{tuple(sh)}/{ax}')
        return
    want_sh = list(sh)
    want_sh[ax] -= 1
    # property clauses on the implementation's output
    if list(r.mesh.n) != want_sh or r.nvdim != 1:
        rec["oracle"].append("angle-mesh-not-one-cell-shorter")
    hc = [fl(x) for x in c["cell"]]
    exp_min = [a + (hc[k] / 2 if k == ax else 0) for k, a in enumerate(f.mesh.region.pmin.tolist())]
    exp_max = [a - (hc[k] / 2 if k == ax else 0) for k, a in enumerate(f.mesh.region.pmax.tolist())]
    if not (np.allclose(r.mesh.region.pmin, exp_min, rtol=1e-12, atol=1e-12)
            and np.allclose(r.mesh.region.pmax, exp_max, rtol=1e-12, atol=1e-12)
            and np.allclose(r.mesh.cell, hc, rtol=1e-12)):
        rec["oracle"].append("angle-mesh-not-centred-between-cells")
    keeps = (tuple(r.mesh.region.dims) == tuple(f.mesh.region.dims)
             and tuple(r.mesh.region.units) == tuple(f.mesh.region.units))
    rec["obs_names_kept"] = bool(keeps)
    if JUDGE_NAMES and not keeps:
        rec["oracle"].append("angle-mesh-drops-dimension-names-or-units")
    top = 180.0 if deg else math.pi
    if out.size and not (np.all(out >= 0) and np.all(out <= top * (1 + 1e-15))):      # NaN-safe
        rec["oracle"].append("angle-outside-0-pi")
    # independent angle (atan2 form) between the unit vectors
    sl1 = [slice(None)] * len(sh)
    sl2 = [slice(None)] * len(sh)
    sl1[ax], sl2[ax] = slice(0, -1), slice(1, None)
    A, B = o[tuple(sl1)].reshape(-1, 3), o[tuple(sl2)].reshape(-1, 3)
    tab = {}
    for a, b, got in zip(A, B, out.tolist()):
        ea, eb = [F(x) for x in a.tolist()], [F(x) for x in b.tolist()]
        d = max(F(-1), min(F(1), vdot(ea, eb)))
        tab.setdefault(d, F(float(np.arccos(float(d)))))
        if np.any(a) and np.any(b):
            ref = math.atan2(np.linalg.norm(np.cross(a, b)), float(np.dot(a, b)))
            if deg:
                ref = math.degrees(ref)
            if not abs(got - ref) <= 1e-6 * (180 if deg else 1):
                rec["oracle"].append("angle-differs-from-angle-between-unit-vectors")
    # the angle between the exactly normalised vectors, from the raw input (independent of Field.orientation)
    raw = f.array
    RA, RB = raw[tuple(sl1)].reshape(-1, 3), raw[tuple(sl2)].reshape(-1, 3)
    for a, b, got in zip(RA, RB, out.tolist()):
        if np.linalg.norm(a) <= 1e-6 or np.linalg.norm(b) <= 1e-6:
            continue      # zero / sub-threshold vectors: Field.orientation's business (C15)
        ea, eb = [F(x) for x in a.tolist()], [F(x) for x in b.tolist()]
        cr = vcross(ea, eb)
        ref = math.atan2(math.sqrt(float(vdot(cr, cr))), float(vdot(ea, eb)))
        if deg:
            ref = math.degrees(ref)
        if not abs(got - ref) <= 1e-6 * (180 if deg else 1):
            rec["oracle"].append("angle-differs-from-angle-between-exactly-normalised-vectors")
    degf = F(180 / math.pi)
    coq_a = (f'CAngle {g.nl(sh)} {g.nat(ax)} {g.b(deg)} {g.q(degf)} {g.ql(fracs(o))} '
             f'{g.lst([g.pair(g.q(k), g.q(v)) for k, v in tab.items()])} {g.nl(list(r.array.shape[:-1]))} {g.ql(fracs(out))}')
    coq_m = (f'CAngleMesh {g.ql(pmin)} {g.ql(pmax)} {g.zl(sh)} {g.nat(ax)} '
             f'(Some ({g.ql(fracs(r.mesh.region.pmin))}, {g.ql(fracs(r.mesh.region.pmax))}, {g.zl(list(r.mesh.n))}))')
    # one record carries one Coq term: alternate deterministically between values and mesh
    pick_mesh = (sum(sh) + ax + len(c["vals"])) % 3 == 0
    rec.update(obs=dict(array=js(out), n=js(list(r.mesh.n))), coq=coq_m if pick_mesh else coq_a,
               key=f'angle/{"mesh" if pick_mesh else "val"}/{tuple(sh)}/{ax}/{c["units"]}/{c["tex"]}',
               nontrivial=True)
    # max_neighbouring_cell_angle / count_large_cell_angle_regions consistency (same function, all directions)
    if len(sh) == 3 and all(k > 1 for k in sh):
        st, mx = attempt(lambda: dft.max_neighbouring_cell_angle(f, units=c["units"]))
        # MAXANGLE note: on the unchanged tree max_neighbouring_cell_angle raises ValueError when a direction
        # other than the first has exactly 2 cells (array.squeeze() also drops that axis); reported to the
        # maintainer, observed here, judged only for meshes with >= 3 cells per direction
        rec["obs_max_angle"] = st if st == "ok" else str(mx)
        if st != "ok" and all(k > 2 for k in sh):
            rec["oracle"].append("max-angle-raised")
        if st == "ok":
            m = mx.array.squeeze()
            per = []
            for a, dname in enumerate(f.mesh.region.dims):
                v = dft.neighbouring_cell_angle(f, direction=dname, units=c["units"]).array.squeeze(-1)
                per.append((a, v))
            ref = np.zeros(sh)
            for a, v in per:
                lo = [slice(None)] * 3
                hi = [slice(None)] * 3
                lo[a], hi[a] = slice(0, -1), slice(1, None)
                ref[tuple(lo)] = np.maximum(ref[tuple(lo)], v)
                ref[tuple(hi)] = np.maximum(ref[tuple(hi)], v)
            if not np.allclose(m.reshape(sh), ref, rtol=0, atol=1e-12):
                rec["oracle"].append("max-angle-is-not-the-maximum-over-the-six-neighbours")


def run_emergent(c, rec):
    f = build(c)
    sh = c["sh"]
    st, r = attempt(lambda: dft.emergent_magnetic_field(f))
    if st != "ok":
        rec.update(obs=dict(err=r), key="emergent/err")
        rec["oracle"].append("emergent-raised")
        return
    out = r.array.reshape(-1)
    p = per_flags(c, list(f.mesh.region.dims))
    coq = (f'CEmergent {g.nl(sh)} {g.ql(c["cell"])} {g.bl(p)} {g.ql(c["vals"])} {g.bl(c["valid"])} '
           f'{g.ql(fracs(out))}')
    if r.nvdim != 3 or r.mesh != f.mesh:
        rec["oracle"].append("emergent-not-a-3-vector-field-on-the-same-mesh")
    rec.update(obs=dict(array=js(out)), coq=coq, key=f'emergent/{tuple(sh)}/{c["tex"]}/{c["bc"]}/{all(c["valid"])}',
               nontrivial=math.prod(sh) > 1)


def expand_pattern(s):
    out = []
    for v, k in ast.literal_eval(s):
        out += [int(round(v))] * int(k)
    return out


def run_bps(c, rec):
    f = build(c)
    sh = c["sh"]
    d = f.mesh.region.dims[c["dir"]]
    st, r = attempt(lambda: dft.count_bps(f, direction=d))
    if st != "ok":
        rec.update(obs=dict(err=r), key="bps/err")
        rec["oracle"].append("count-bps-raised")
        return
    nums = expand_pattern(r[f"bp_pattern_{d}"])
    diffs = [b - a for a, b in zip(nums, nums[1:])]
    if len(nums) != sh[c["dir"]]:
        rec["oracle"].append("bp-pattern-length")
    if (r["bp_number"] != sum(abs(x) for x in diffs) or r["bp_number_hh"] != -sum(x for x in diffs if x < 0)
            or r["bp_number_tt"] != sum(x for x in diffs if x > 0)):
        rec["oracle"].append("bp-counts-inconsistent-with-pattern")
    o = f.orientation.array
    p = per_flags(c, list(f.mesh.region.dims))
    coq = (f'CBps {g.nl(sh)} {g.ql(c["cell"])} {g.bl(p)} {g.nat(c["dir"])} {g.q(F(1 / PI4))} {g.ql(fracs(o))} '
           f'{g.bl(c["valid"])} {g.zl(nums)}')
    rec.update(obs=dict(result=js(r)), coq=coq, key=f'bps/{tuple(sh)}/{c["dir"]}/{c["tex"]}/{c["bc"]}/{tuple(nums)}',
               nontrivial=True)


# ---- Newell-type functions, evaluated independently of tools.py (float64)
def newell_f(x, y, z):
    x2, y2, z2 = x * x, y * y, z * z
    R = math.sqrt(x2 + y2 + z2)
    r = 0.0
    if x2 + z2 > 0:
        r += abs(y) / 2 * (z2 - x2) * math.asinh(abs(y) / math.sqrt(x2 + z2))
    if x2 + y2 > 0:
        r += abs(z) / 2 * (y2 - x2) * math.asinh(abs(z) / math.sqrt(x2 + y2))
    if x != 0:
        r -= abs(x * y * z) * math.atan(abs(y * z) / (abs(x) * R))
    r += (2 * x2 - y2 - z2) * R / 6
    return r


def newell_g(x, y, z):
    x2, y2, z2 = x * x, y * y, z * z
    R = math.sqrt(x2 + y2 + z2)
    r = 0.0
    if x2 + y2 > 0:
        r += x * y * z * math.asinh(z / math.sqrt(x2 + y2))
    if y2 + z2 > 0:
        r += y / 6 * (3 * z2 - y2) * math.asinh(x / math.sqrt(y2 + z2))
    if x2 + z2 > 0:
        r += x / 6 * (3 * z2 - x2) * math.asinh(y / math.sqrt(x2 + z2))
    if z != 0:
        r -= z ** 3 / 6 * math.atan(x * y / (z * R))
    if y != 0:
        r -= z * y2 / 2 * math.atan(x * z / (y * R))
    if x != 0:
        r -= z * x2 / 2 * math.atan(y * z / (x * R))
    r -= x * y * R / 3
    return r


_INDEP = {}


def indep_tensor(sh, cell):
    """real-space demag tensor on the (2n-1) grid, evaluated here (27-point form of the 64-term sum,
    theorem C19_N_sum_is_triple_second_difference) with the Newell-type functions above; float64"""
    key = (tuple(sh), tuple(cell))
    if key in _INDEP:
        return _INDEP[key]
    w1 = {-1: 1.0, 0: -2.0, 1: 1.0}
    out = np.zeros([2 * k - 1 for k in sh] + [6])

    def nel(fun, a, b, c_, da, db, dc):
        v = 0.0
        for s0, s1, s2 in itertools.product((-1, 0, 1), repeat=3):
            v += w1[s0] * w1[s1] * w1[s2] * fun(a + s0 * da, b + s1 * db, c_ + s2 * dc)
        return v / (PI4 * da * db * dc)
    dx, dy, dz = cell
    for idx in itertools.product(*[range(2 * k - 1) for k in sh]):
        x, y, z = [(i - (k - 1)) * h for i, k, h in zip(idx, sh, cell)]
        out[idx] = (nel(newell_f, x, y, z, dx, dy, dz), nel(newell_f, y, z, x, dy, dz, dx),
                    nel(newell_f, z, x, y, dz, dx, dy), nel(newell_g, x, y, z, dx, dy, dz),
                    nel(newell_g, x, z, y, dx, dz, dy), nel(newell_g, y, z, x, dy, dz, dx))
    _INDEP[key] = out
    return out


def run_demagseq(c, rec):
    sh = c["sh"]
    Mv = fl(c["M"])
    slow = getattr(getattr(dft, "tools", None), "_demag_tensor_field_based", None)
    obs = []
    first_real = {}
    for step, cq in enumerate(c["seq"]):
        cell = [fl(x) for x in cq]
        mesh = df.Mesh(p1=(0, 0, 0), p2=[k * h for k, h in zip(sh, cell)], n=sh)
        st, T = attempt(lambda: dft.demag_tensor(mesh))
        if st != "ok":
            rec["oracle"].append("demag-tensor-raised")
            break
        R = T.ifftn().array
        ref = indep_tensor(sh, cell)
        dev = float(np.abs(R - ref).max()) if R.shape == ref.shape else float("inf")
        o_ = dict(step=step, cell=[repr(x) for x in cell], dev_from_independent=dev)
        if not dev <= 1e-6:
            rec["oracle"].append("tensor-after-earlier-calls-differs-from-independent-evaluation"
                                 if step else "tensor-differs-from-independent-evaluation")
        tr = R[..., 0] + R[..., 1] + R[..., 2]
        delta = np.zeros(tr.shape)
        delta[tuple(k - 1 for k in sh)] = -1.0
        if far(tr, delta, 1e-6):
            rec["oracle"].append("real-space-trace-not-minus-delta")
        if c["slow"] and slow is not None and step in (0, 1, 2, len(c["seq"]) - 1):
            st, T2 = attempt(lambda: slow(mesh))
            if st != "ok":
                rec["oracle"].append("field-based-tensor-raised")
            elif T2.array.shape != T.array.shape or far(T2.array, T.array, 1e-9 * max(1.0, float(np.abs(T.array).max()))):
                rec["oracle"].append("two-tensor-implementations-disagree")
        # the same cells seen earlier in this session / a pure rescaling: the same real-space tensor
        kshape = tuple(F(x) / F(cq[0]) for x in cq)
        if kshape in first_real and far(R, first_real[kshape], 1e-9):
            rec["oracle"].append("tensor-of-the-same-aspect-ratio-changed-within-the-session")
        first_real.setdefault(kshape, R)
        means = []
        for i in range(3):
            v = [0.0, 0.0, 0.0]
            v[i] = Mv
            st, H = attempt(lambda: dft.demag_field(df.Field(mesh, nvdim=3, value=v), T))
            if st != "ok":
                rec["oracle"].append("demag-field-raised")
                break
            means.append(float(H.mean()[i]) / Mv)
        if len(means) == 3:
            o_["means_over_M"] = means
            if far(sum(means), -1.0, 1e-6):
                rec["oracle"].append("demag-factors-do-not-sum-to-minus-M")
            ext = [k * h for k, h in zip(sh, cell)]
            if max(ext) - min(ext) <= 1e-12 * max(ext) and far(means, [-1 / 3] * 3, 1e-6):
                rec["oracle"].append("cube-demag-factor-not-one-third" + ("-after-other-aspect-ratio" if step else ""))
            for i, j in itertools.permutations(range(3), 2):
                if ext[i] > ext[j] * (1 + 1e-9) and not abs(means[i]) < abs(means[j]) * (1 + 1e-9):
                    rec["oracle"].append("longer-axis-has-larger-demag-factor")
        obs.append(o_)
    rec.update(obs=dict(steps=obs), key=f'demagseq/{tuple(sh)}/{c["seq"][0]}', nontrivial=True, size=len(c["seq"]))


def run_demagN(c, rec):
    sh = c["sh"]
    cell = [F(x) for x in c["cell"]]
    mesh = df.Mesh(p1=(0, 0, 0), p2=[float(k * h) for k, h in zip(sh, cell)], n=sh)
    st, T = attempt(lambda: dft.demag_tensor(mesh))
    if st != "ok":
        rec.update(obs=dict(err=T), key="demagN/err")
        rec["oracle"].append("demag-tensor-raised")
        return
    R = T.ifftn().array
    if np.abs(R.imag).max() > 1e-9:
        rec["oracle"].append("real-space-tensor-not-real")
    R = R.real
    pts, obs = [], []
    ftab, gtab = {}, {}
    for idx in itertools.product(*[range(2 * k - 1) for k in sh]):
        p = [(i - (k - 1)) * h for i, k, h in zip(idx, sh, cell)]
        pts.append(p)
        obs.append(fracs(R[idx]))
        x, y, z = p
        dx, dy, dz = cell
        for (a, b, cc, da, db, dc, tab, fun) in [
                (x, y, z, dx, dy, dz, ftab, newell_f), (y, z, x, dy, dz, dx, ftab, newell_f),
                (z, x, y, dz, dx, dy, ftab, newell_f), (x, y, z, dx, dy, dz, gtab, newell_g),
                (x, z, y, dx, dz, dy, gtab, newell_g), (y, z, x, dy, dz, dx, gtab, newell_g)]:
            for s0, s1, s2 in itertools.product((-1, 0, 1), repeat=3):
                k = (a + s0 * da, b + s1 * db, cc + s2 * dc)
                if k not in tab:
                    tab[k] = F(fun(float(k[0]), float(k[1]), float(k[2])))

    def q3(tab):
        return g.lst([f"({g.q(k[0])}, {g.q(k[1])}, {g.q(k[2])}, {g.q(v)})" for k, v in tab.items()])
    coq = (f'CDemagN {g.q(F(PI4))} {g.ql(cell)} {g.lst([g.ql(p) for p in pts])} {q3(ftab)} {q3(gtab)} '
           f'{g.lst([g.ql(o) for o in obs])}')
    rec.update(obs=dict(n=len(pts)), coq=coq, key=f'demagN/{tuple(sh)}/{tuple(c["cell"])}', nontrivial=True,
               size=len(pts))


# ------------------------------------------------------------------ oracle-only runners
def both_charges(f):
    out = {}
    for m in ("continuous", "berg-luescher"):
        st, d = attempt(lambda: dft.topological_charge_density(f, method=m))
        st2, qv = attempt(lambda: dft.topological_charge(f, method=m))
        out[m] = (d.array.reshape(f.mesh.n) if st == "ok" else None, float(qv) if st2 == "ok" else None)
    return out


def with_array(f, arr, mesh=None):
    return df.Field(mesh or f.mesh, nvdim=3, value=arr, valid=f.valid)


def run_meta(c, rec):
    f = build(c)
    sh = c["sh"]
    base = both_charges(f)
    o = f.orientation.array
    _, risky, ang_bad = bl_table(o, sh)
    if ang_bad:
        rec["oracle"].append("bl-angle-differs-from-solid-angle-over-4pi")
    dA = fl(c["cell"][0]) * fl(c["cell"][1])
    skipped = []
    obs = {}

    def compare(name, g_, factor_density=1.0, factor_charge=1.0, exact_methods=("continuous", "berg-luescher")):
        other = both_charges(g_)
        for m in exact_methods:
            d0, q0 = base[m]
            d1, q1 = other[m]
            if d0 is None or q0 is None or d1 is None or q1 is None:
                rec["oracle"].append(f"{name}-raised")
                continue
            if m == "berg-luescher" and risky:
                skipped.append(name)
                continue
            if d1.shape != d0.shape:
                d1 = None
            scale_q = float(np.abs(d0).sum() * dA) + 1.0
            if far(q1, factor_charge * q0, RTOL * scale_q):
                rec["oracle"].append(f"{name}-changes-charge-{m}")
            if d1 is not None and factor_density is not None:
                scale_d = 4.0 / dA
                if far(d1, factor_density * d0, RTOL * scale_d * abs(factor_density)):
                    rec["oracle"].append(f"{name}-changes-density-{m}")
        obs[name] = {m: repr(other[m][1]) for m in other}

    obs["base"] = {m: repr(base[m][1]) for m in base}
    # global proper rotation of all vectors
    Rm = np.array([[fl(x) for x in row] for row in c["rot"]])
    compare("rotation", with_array(f, f.array @ Rm.T))
    # positive rescaling of the vector lengths, cell by cell, and by one global factor
    lens = np.array([fl(x) for x in c["lengths"]]).reshape(*sh, 1)
    compare("length-rescale", with_array(f, f.array * lens))
    compare("global-length-rescale", with_array(f, f.array * float(lens.reshape(-1)[0])))
    if c.get("f32"):
        # unit vectors stored in single precision: directions move by <= 6e-8, lengths by <= 6e-8
        compare("float32-rounding", with_array(f, f.array.astype(np.float32).astype(float)))
    # reversal
    compare("reversal", with_array(f, -f.array), factor_density=-1.0, factor_charge=-1.0)
    # mesh rescaled and translated
    s = fl(c["mesh_scale"])
    t = [fl(x) for x in c["mesh_shift"]]
    p1 = [(fl(a) + b) * s for a, b in zip(c["p1"], t)]   # shift given in units of the rescaled lengths
    p2 = [a + k * fl(h) * s for a, k, h in zip(p1, sh, c["cell"])]
    st, mesh2 = attempt(lambda: df.Mesh(region=df.Region(p1=p1, p2=p2, dims=c.get("dims")), n=sh, bc=c.get("bc", "")))
    if st == "ok":
        base_save = dA
        compare("mesh-rescale-translate", with_array(f, f.array, mesh2), factor_density=None)
        # density scales with 1/s^2
        for m in ("continuous", "berg-luescher"):
            d0 = base[m][0]
            st, d1 = attempt(lambda: dft.topological_charge_density(with_array(f, f.array, mesh2), method=m))
            if st == "ok" and d0 is not None and not (m == "berg-luescher" and risky):
                if far(d1.array.reshape(sh) * s * s, d0, RTOL * 4.0 / base_save):
                    rec["oracle"].append(f"mesh-rescale-density-not-1-over-s2-{m}")
    # quarter turn(s) of the sample (mesh and vectors together); only for default x,y naming
    # (periodic meshes included: Mesh.rotate90 exchanges the periodicity of the two axes for odd k, 6c074f8c)
    if c.get("dims") in (None, ["x", "y"]):
        k = c["quarter_k"]
        st, fr = attempt(lambda: f.rotate90("x", "y", k=k))
        if st == "ok":
            other = both_charges(fr)
            for m in other:
                if other[m][1] is None or base[m][1] is None or (m == "berg-luescher" and risky):
                    continue
                scale_q = float(np.abs(base[m][0]).sum() * dA) + 1.0
                if far(other[m][1], base[m][1], RTOL * scale_q):
                    rec["oracle"].append(f"quarter-turn-changes-charge-{m}")
                if far(np.rot90(base[m][0], k=k), other[m][0], RTOL * 4.0 / dA):
                    rec["oracle"].append(f"quarter-turn-changes-density-{m}")
            obs["quarter"] = {m: repr(other[m][1]) for m in other}
        else:
            skipped.append("quarter-turn")
    # uniform field
    u = np.tile(f.array[0, 0] if np.any(f.array[0, 0]) else np.array([1.0, 2.0, -2.0]), (*sh, 1))
    uni = both_charges(with_array(f, u))
    for m in uni:
        if uni[m][1] is None or far(uni[m][1], 0.0, 1e-12) or far(uni[m][0], 0.0, 1e-12 * 4 / dA):
            rec["oracle"].append(f"uniform-field-nonzero-{m}")
    # values stored in invalid cells must not influence the result
    vmask = np.array(c["valid"], dtype=bool).reshape(*sh)
    if not vmask.all():
        pert = f.array.copy()
        pert[~vmask] = np.array([0.3, -1.7, 0.9]) + 0.1 * np.arange(3)
        compare("invalid-cell-values", with_array(f, pert))
    # absolute charge bounds the signed one
    for m in ("continuous", "berg-luescher"):
        st, qa = attempt(lambda: dft.topological_charge(f, method=m, absolute=True))
        if st == "ok" and base[m][1] is not None and qa + 1e-12 * (abs(qa) + 1) < abs(base[m][1]):
            rec["oracle"].append(f"absolute-charge-smaller-than-signed-{m}")
    # state left by the calls above: the base field evaluated again gives the same answer
    again = both_charges(f)
    for m in again:
        if base[m][0] is None or again[m][0] is None:
            continue
        if not (np.array_equal(again[m][0], base[m][0], equal_nan=True)
                and (again[m][1] == base[m][1] or (again[m][1] != again[m][1] and base[m][1] != base[m][1]))):
            rec["oracle"].append(f"result-depends-on-earlier-calls-{m}")
    # sub-threshold rescaling (|v| < 1e-8 is a zero vector for Field.orientation, C15): recorded, not judged
    rec.update(obs=dict(charges=obs, skipped=skipped, risky=risky),
               key=f'meta/{tuple(sh)}/{c["tex"]}/{all(c["valid"])}/{c.get("bc", "")}', nontrivial=True)


def run_quarter(c, rec):
    f = build(c)
    sh = c["sh"]
    base = both_charges(f)
    _, risky, ang_bad = bl_table(f.orientation.array, sh, np.array(c["valid"], dtype=bool).reshape(*sh))
    if ang_bad:
        rec["oracle"].append("bl-angle-differs-from-solid-angle-over-4pi")
    dA = fl(c["cell"][0]) * fl(c["cell"][1])
    obs = dict(base={m: repr(base[m][1]) for m in base}, risky=risky)
    for k in (1, 2, 3, 4, -1):
        st, fr = attempt(lambda: f.rotate90("x", "y", k=k))
        if st != "ok":
            rec["oracle"].append("rotate90-raised")
            continue
        other = both_charges(fr)
        obs[f"k{k}"] = {m: repr(other[m][1]) for m in other}
        for m in other:
            if other[m][1] is None or base[m][1] is None:
                rec["oracle"].append(f"quarter-turn-raised-{m}")
                continue
            if m == "berg-luescher" and risky:
                continue
            scale_q = float(np.abs(base[m][0]).sum() * dA) + 1.0
            if far(other[m][1], base[m][1], RTOL * scale_q):
                rec["oracle"].append(f"quarter-turn-changes-charge-{m}")
            if far(np.rot90(base[m][0], k=k), other[m][0], RTOL * 4.0 / dA):
                rec["oracle"].append(f"quarter-turn-changes-density-{m}")
    rec.update(obs=obs, key=f'quarter/{tuple(sh)}/{c["tex"]}/{all(c["valid"])}/{c["bc"]}', nontrivial=True)


def run_planar(c, rec):
    """exactly planar textures: a half turn about the plane normal is a proper rotation that maps m to -m, so
    rotation invariance + sign reversal force Q = 0 (both methods); all operations below keep the zero
    component exactly zero, so no rounding enters the triple products"""
    f = build(c)
    sh = c["sh"]
    dA = fl(c["cell"][0]) * fl(c["cell"][1])
    base = both_charges(f)
    rev = both_charges(with_array(f, -f.array))
    _, _, ang_bad = bl_table(f.orientation.array, sh)
    if ang_bad:
        rec["oracle"].append("bl-angle-nonzero-for-coplanar-triangle")
    obs = dict(base={m: repr(base[m][1]) for m in base}, reversed={m: repr(rev[m][1]) for m in rev})
    for m in base:
        d0, q0 = base[m]
        d1, q1 = rev[m]
        if d0 is None or q0 is None or d1 is None or q1 is None:
            rec["oracle"].append(f"planar-raised-{m}")
            continue
        if not (np.all(np.isfinite(d0)) and np.all(np.isfinite(d1))):
            obs["nonfinite"] = True       # exactly antiparallel neighbours (exceptional configuration)
            continue
        if far(q1, -q0, 1e-9) or far(d1, -d0, 1e-9 / dA):
            rec["oracle"].append(f"reversal-changes-planar-charge-{m}")
        if far(q0, 0.0, 1e-9) or far(d0, 0.0, 1e-9 / dA):
            rec["oracle"].append(f"planar-texture-nonzero-charge-{m}")
    if not c.get("bc"):
        for k in (1, 2, 3):
            st, fr = attempt(lambda: f.rotate90("x", "y", k=k))
            if st != "ok":
                continue
            other = both_charges(fr)
            for m in other:
                if other[m][1] is None or base[m][1] is None or not np.all(np.isfinite(base[m][0])):
                    continue
                if far(other[m][1], base[m][1], 1e-9) or far(np.rot90(base[m][0], k=k), other[m][0], 1e-9 / dA):
                    rec["oracle"].append(f"quarter-turn-changes-planar-charge-{m}")
    rec.update(obs=obs, key=f'planar/{tuple(sh)}/{all(c["valid"])}/{c.get("bc", "")}', nontrivial=True)


def run_intdtype(c, rec):
    dt = getattr(np, c["dtype"])
    obs = {}

    def twin(sh, cell, vals):
        cf = [fl(x) for x in cell]
        mesh = df.Mesh(p1=[0.0] * len(sh), p2=[k * h for k, h in zip(sh, cf)], n=sh)
        arr = np.array(vals, dtype=dt).reshape(*sh, 3)
        return (df.Field(mesh, nvdim=3, value=arr, dtype=dt), df.Field(mesh, nvdim=3, value=arr.astype(float)))

    def same(name, fn, rel=1e-9):
        st, a = attempt(lambda: fn(fi))
        st0, b = attempt(lambda: fn(ff))
        if st0 != "ok":
            return
        if st != "ok":
            rec["oracle"].append(f"integer-typed-field-refused-{name}")
            return
        scale = float(np.max(np.abs(np.asarray(b, dtype=float)))) + 1e-300
        ok = np.shape(a) == np.shape(b) and not far(np.asarray(a, dtype=float), np.asarray(b, dtype=float), rel * scale + 1e-12)
        obs[name] = bool(ok)
        if not ok:
            rec["oracle"].append(f"integer-typed-field-differs-from-float64-twin-{name}")
    fi, ff = twin(c["sh2"], c["cell2"], c["vals2"])
    same("orientation-is-unit", lambda f: f.orientation.norm.array)
    for m in ("continuous", "berg-luescher"):
        same(f"density-{m}", lambda f: dft.topological_charge_density(f, method=m).array)
        same(f"charge-{m}", lambda f: dft.topological_charge(f, method=m))
    for d in "xy":
        same(f"angle-{d}", lambda f: dft.neighbouring_cell_angle(f, direction=d).array, rel=1e-7)
    fi, ff = twin(c["sh3"], c["cell3"], c["vals3"])
    d = "xyz"[c["dir"]]
    same("angle-3d", lambda f: dft.neighbouring_cell_angle(f, direction=d).array, rel=1e-7)
    same("max-angle", lambda f: dft.max_neighbouring_cell_angle(f).array, rel=1e-7)
    same("emergent", lambda f: dft.emergent_magnetic_field(f).array, rel=1e-6)
    same("emergent-of-orientation", lambda f: dft.emergent_magnetic_field(f.orientation).array, rel=1e-6)
    st, r1 = attempt(lambda: dft.count_bps(fi, direction=d))
    st0, r0 = attempt(lambda: dft.count_bps(ff, direction=d))
    if st0 == "ok" and (st != "ok" or r1 != r0):
        rec["oracle"].append("integer-typed-field-differs-from-float64-twin-count-bps")
    rec.update(obs=obs, key=f'intdtype/{c["dtype"]}/{tuple(c["sh2"])}/{tuple(c["sh3"])}', nontrivial=True)


def run_names(c, rec):
    """custom dimension names ('a','b','V') and units on every tool of the statement; observations only
    unless JUDGE_NAMES (see the note at the top of this file)"""
    import random
    rng = random.Random(c["seed"])
    sh = [[4, 3, 4], [3, 3, 3], [3, 4, 3]][c["variant"]]      # >= 3 cells per direction (see MAXANGLE note)
    cell = [[1.0, 2.0, 0.5], [0.5, 0.5, 4.0], [2.0, 1.0, 0.25]][c["variant"]]
    reg = df.Region(p1=(0, 0, 0), p2=[k * h for k, h in zip(sh, cell)], dims=("a", "b", "V"), units=("nm", "um", "s"))
    mesh = df.Mesh(region=reg, n=sh)
    arr = np.array([rng.uniform(-1, 1) for _ in range(math.prod(sh) * 3)]).reshape(*sh, 3)
    f = df.Field(mesh, nvdim=3, value=arr)
    ref = df.Field(df.Mesh(p1=(0, 0, 0), p2=[k * h for k, h in zip(sh, cell)], n=sh), nvdim=3, value=arr)
    obs = {}
    for k, (d, d0) in enumerate(zip(("a", "b", "V"), "xyz")):
        st, r = attempt(lambda: dft.neighbouring_cell_angle(f, direction=d))
        r0 = dft.neighbouring_cell_angle(ref, direction=d0)
        ok = st == "ok" and r.array.shape == r0.array.shape and not far(r.array, r0.array, 1e-12) \
            and not far(r.mesh.region.pmin, r0.mesh.region.pmin, 1e-12) and not far(r.mesh.region.pmax, r0.mesh.region.pmax, 1e-12)
        obs[f"angle-{d}"] = dict(outcome=st if st == "ok" else r, same_as_default_names=bool(ok),
                                 names_kept=bool(st == "ok" and tuple(r.mesh.region.dims) == ("a", "b", "V")))
        if JUDGE_NAMES and not (ok and obs[f"angle-{d}"]["names_kept"]):
            rec["oracle"].append("angle-on-custom-named-mesh-differs")
        st, r = attempt(lambda: dft.count_bps(f, direction=d))
        r0 = dft.count_bps(ref, direction=d0)
        same = st == "ok" and r["bp_number"] == r0["bp_number"] and r[f"bp_pattern_{d}"] == r0[f"bp_pattern_{d0}"]
        obs[f"bps-{d}"] = bool(same)
        if not same:
            rec["oracle"].append("count-bps-on-custom-named-mesh-differs")
    for name, fn in (("max-angle", lambda x: dft.max_neighbouring_cell_angle(x).array),
                     ("emergent", lambda x: dft.emergent_magnetic_field(x).array)):
        st, r = attempt(lambda: fn(f))
        same = st == "ok" and not far(r, fn(ref), 1e-12 * (1 + float(np.abs(fn(ref)).max())))
        obs[name] = bool(same)
        if not same and (name == "emergent" or JUDGE_NAMES):
            rec["oracle"].append(f"{name}-on-custom-named-mesh-differs")
    st, r = attempt(lambda: dft.demag_field(f, dft.demag_tensor(mesh)).array)
    r0 = dft.demag_field(ref, dft.demag_tensor(ref.mesh)).array
    obs["demag-field"] = bool(st == "ok" and not far(r, r0, 1e-9))
    if JUDGE_DEMAG_NAMES and not obs["demag-field"]:
        rec["oracle"].append("demag-field-on-custom-named-mesh-differs")
    # 2-d slice named ('a','V'): both charge methods
    m2 = df.Mesh(region=df.Region(p1=(0, 0), p2=(sh[0] * cell[0], sh[2] * cell[2]), dims=("a", "V")), n=(sh[0], sh[2]))
    m2d = df.Mesh(p1=(0, 0), p2=(sh[0] * cell[0], sh[2] * cell[2]), n=(sh[0], sh[2]))
    a2 = arr[:, 0]
    for m in ("continuous", "berg-luescher"):
        st, q1 = attempt(lambda: dft.topological_charge(df.Field(m2, nvdim=3, value=a2), method=m))
        q0 = dft.topological_charge(df.Field(m2d, nvdim=3, value=a2), method=m)
        obs[f"charge-{m}"] = bool(st == "ok" and not far(q1, q0, 1e-12 * (1 + abs(q0))))
        if not obs[f"charge-{m}"]:
            rec["oracle"].append("charge-on-custom-named-mesh-differs")
    rec.update(obs=obs, key=f'names/{c["variant"]}', nontrivial=True)


def run_integer(c, rec):
    f = build(c)
    if c["rot"]:
        Rm = np.array([[fl(x) for x in row] for row in c["rot"]])
        f = with_array(f, f.array @ Rm.T)
    st, qb = attempt(lambda: dft.topological_charge(f, method="berg-luescher"))
    st2, qc_ = attempt(lambda: dft.topological_charge(f, method="continuous"))
    st3, qa = attempt(lambda: dft.topological_charge(f, method="berg-luescher", absolute=True))
    if st != "ok" or st2 != "ok" or st3 != "ok":
        rec["oracle"].append("charge-raised")
        rec.update(obs=dict(err=str(qb)), key="integer/err")
        return
    if not math.isfinite(qb) or abs(qb - round(qb)) > 1e-6:
        rec["oracle"].append("berg-luescher-charge-not-an-integer")
    elif abs(round(qb)) != abs(c["N"]):
        rec["oracle"].append("berg-luescher-charge-is-not-the-winding-number")
    if abs(qc_ - qb) > 0.35 * abs(c["N"]):
        rec["oracle"].append("continuous-charge-far-from-lattice-charge")
    if qa + 1e-9 < abs(qb):
        rec["oracle"].append("absolute-charge-smaller-than-signed")
    rec.update(obs=dict(bl=js(qb), cont=js(qc_), N=c["N"]), key=f'integer/{c["N"]}/{tuple(c["sh"])}/{bool(c["rot"])}',
               nontrivial=True)


def run_hedgehog(c, rec):
    sh = c["sh"]
    cell = [fl(x) for x in c["cell"]]
    shift = [fl(x) for x in c["shift"]]
    p1 = shift
    p2 = [a + k * h for a, k, h in zip(p1, sh, cell)]
    mesh = df.Mesh(p1=p1, p2=p2, n=sh)
    centre = [(k / 2 + fl(o_)) * h for k, o_, h in zip(sh, c["off"], cell)]
    arr = hedgehog_arr(sh, cell, centre) * fl(c["length"])
    if c.get("unit") is not None:       # unit hedgehog with all lengths within 1e-5 of 1
        arr = unitize(arr) * float(c["unit"])
    obs = {}
    for sign, name in ((1.0, "out"), (-1.0, "in")):
        f = df.Field(mesh, nvdim=3, value=sign * arr)
        for d in "xyz":
            st, r = attempt(lambda: dft.count_bps(f, direction=d))
            if st != "ok":
                rec["oracle"].append("count-bps-raised")
                continue
            obs[f"{name}-{d}"] = js(r)
            want = (1, 0, 1) if sign > 0 else (1, 1, 0)
            if (r["bp_number"], r["bp_number_hh"], r["bp_number_tt"]) != want:
                rec["oracle"].append(f"hedgehog-{name}-not-one-{'tail-to-tail' if sign > 0 else 'head-to-head'}-bloch-point")
    rec.update(obs=obs, key=f'hedgehog/{tuple(sh)}/{tuple(c["cell"])}', nontrivial=True)


def run_demag(c, rec):
    sh = c["sh"]
    cell = [fl(x) for x in c["cell"]]
    mesh = df.Mesh(p1=(0, 0, 0), p2=[k * h for k, h in zip(sh, cell)], n=sh)
    st, T = attempt(lambda: dft.demag_tensor(mesh))
    if st != "ok":
        rec["oracle"].append("demag-tensor-raised")
        rec.update(obs=dict(err=T), key="demag/err")
        return
    obs = {}
    A = T.array
    if list(A.shape) != [2 * k - 1 for k in sh] + [6]:
        rec["oracle"].append("demag-tensor-shape")
    # trace: |tr N(k)| = 1 at every frequency and, in real space, Nxx+Nyy+Nzz = -delta(r)
    trk = A[..., 0] + A[..., 1] + A[..., 2]
    obs["max_abs_trace_dev"] = float(np.abs(np.abs(trk) - 1).max())
    if obs["max_abs_trace_dev"] > 1e-6:
        rec["oracle"].append("trace-modulus-not-1-at-some-frequency")
    R = T.ifftn().array
    tr = R[..., 0] + R[..., 1] + R[..., 2]
    ctr = tuple(k - 1 for k in sh)
    delta = np.zeros(tr.shape)
    delta[ctr] = -1.0
    obs["max_real_trace_dev"] = float(np.abs(tr - delta).max())
    if obs["max_real_trace_dev"] > 1e-6:
        rec["oracle"].append("real-space-trace-not-minus-delta")
    # the two implementations agree
    slow = getattr(getattr(dft, "tools", None), "_demag_tensor_field_based", None)
    if c["slow"] and slow is not None:
        st, T2 = attempt(lambda: slow(mesh))
        if st == "ok":
            if T2.array.shape != A.shape or np.abs(T2.array - A).max() > 1e-9 * max(1.0, np.abs(A).max()):
                rec["oracle"].append("two-tensor-implementations-disagree")
        else:
            rec["oracle"].append("field-based-tensor-raised")
    # uniformly magnetised cuboid: mean demagnetising field components sum to -|M|
    Mv = fl(c["M"])
    means = []
    for i in range(3):
        v = [0.0, 0.0, 0.0]
        v[i] = Mv
        st, H = attempt(lambda: dft.demag_field(df.Field(mesh, nvdim=3, value=v), T))
        if st != "ok":
            rec["oracle"].append("demag-field-raised")
            break
        hm = H.mean()
        means.append(float(hm[i]))
        offd = [abs(float(hm[j])) for j in range(3) if j != i]
        if max(offd) > 1e-6 * Mv:
            rec["oracle"].append("mean-field-of-axis-magnetisation-not-along-the-axis")
        if not (-Mv * (1 + 1e-9) <= hm[i] <= 0):
            rec["oracle"].append("demag-factor-outside-0-1")
    # magnetisation created with an explicit dtype: the field must be floating point and equal its float64 twin
    for dt, Mi in ((int, 1), (np.int64, 800000), (np.int32, 3), (np.float32, 2.5), (np.float64, Mv)):
        ms = []
        for i in range(3):
            v = [0, 0, 0]
            v[i] = Mi
            st, H = attempt(lambda: dft.demag_field(df.Field(mesh, nvdim=3, value=v, dtype=dt), T))
            st0, H0 = attempt(lambda: dft.demag_field(df.Field(mesh, nvdim=3, value=[float(x) for x in v]), T))
            if st != "ok" or st0 != "ok":
                rec["oracle"].append("demag-field-raised-for-dtype")
                break
            if not np.issubdtype(H.array.dtype, np.floating):
                rec["oracle"].append("demag-field-not-floating-point")
            tol_ = (1e-5 if dt is np.float32 else 1e-9) * abs(Mi)
            if far(H.array, H0.array, tol_):
                rec["oracle"].append("demag-field-depends-on-the-dtype-of-the-magnetisation")
            ms.append(float(H.mean()[i]))
        if len(ms) == 3:
            tol_ = (1e-5 if dt is np.float32 else 1e-6) * abs(Mi)
            if far(sum(ms), -float(Mi), tol_):
                rec["oracle"].append("demag-factors-do-not-sum-to-minus-M-for-dtype")
            ext_ = [k * h for k, h in zip(sh, cell)]
            if max(ext_) - min(ext_) <= 1e-12 * max(ext_) and far(ms, [-float(Mi) / 3] * 3, tol_):
                rec["oracle"].append("cube-demag-factor-not-one-third-for-dtype")
    if len(means) == 3:
        obs["means_over_M"] = [m / Mv for m in means]
        if abs(sum(means) + Mv) > 1e-6 * Mv:
            rec["oracle"].append("demag-factors-do-not-sum-to-minus-M")
        ext = [k * h for k, h in zip(sh, cell)]
        if max(ext) - min(ext) <= 1e-12 * max(ext):
            if max(abs(m + Mv / 3) for m in means) > 1e-6 * Mv:
                rec["oracle"].append("cube-demag-factor-not-one-third")
        # longer edge -> smaller factor
        for i, j in itertools.permutations(range(3), 2):
            if ext[i] > ext[j] * (1 + 1e-9) and not abs(means[i]) < abs(means[j]) * (1 + 1e-9):
                rec["oracle"].append("longer-axis-has-larger-demag-factor")
            if abs(ext[i] - ext[j]) <= 1e-12 * ext[i] and abs(means[i] - means[j]) > 1e-6 * Mv:
                rec["oracle"].append("equal-edges-different-demag-factors")
    # relabelling the axes (x,y,z) -> (y,z,x) relabels the tensor components
    perm = [1, 2, 0]
    sh2 = [sh[p] for p in perm]
    cell2 = [cell[p] for p in perm]
    mesh2 = df.Mesh(p1=(0, 0, 0), p2=[k * h for k, h in zip(sh2, cell2)], n=sh2)
    st, Tp = attempt(lambda: dft.demag_tensor(mesh2))
    if st == "ok":
        Rp = Tp.ifftn().array.real
        Rr = R.real
        # component (a,b) of the new mesh = component (perm[a], perm[b]) of the old one, array axes permuted
        comp = {(0, 0): 0, (1, 1): 1, (2, 2): 2, (0, 1): 3, (1, 0): 3, (0, 2): 4, (2, 0): 4, (1, 2): 5, (2, 1): 5}
        for (a, b), k in list(comp.items()):
            if a > b:
                continue
            old = Rr[..., comp[(perm[a], perm[b])]].transpose(perm)
            if np.abs(Rp[..., k] - old).max() > 1e-6:
                rec["oracle"].append("axis-relabelling-does-not-relabel-the-tensor")
    rec.update(obs=obs, key=f'demag/{tuple(sh)}/{tuple(c["cell"])}', nontrivial=True)


def run_refuse(c, rec):
    import random
    rng = random.Random(c["seed"])
    what = c["what"]

    def mk(ndim, nvdim):
        sh = [rng.randint(2, 3) for _ in range(ndim)]
        mesh = df.Mesh(p1=[0.0] * ndim, p2=[float(k) for k in sh], n=sh)
        arr = np.array([rng.uniform(-1, 1) for _ in range(math.prod(sh) * nvdim)]).reshape(*sh, nvdim) + 0.01
        return df.Field(mesh, nvdim=nvdim, value=arr)
    calls = {
        "tcd-nvdim": lambda: dft.topological_charge_density(mk(2, c["nvdim"]), method=c["method"]),
        "tcd-ndim": lambda: dft.topological_charge_density(mk(c["ndim"], 3), method=c["method"]),
        "tcd-method": lambda: dft.topological_charge_density(mk(2, 3), method="wrong-" + c["bad"]),
        "charge-nvdim": lambda: dft.topological_charge(mk(2, c["nvdim"]), method=c["method"]),
        "charge-ndim": lambda: dft.topological_charge(mk(c["ndim"], 3), method=c["method"]),
        "angle-nvdim": lambda: dft.neighbouring_cell_angle(mk(3, c["nvdim"]), direction="x"),
        "angle-direction": lambda: dft.neighbouring_cell_angle(mk(3, 3), direction=c["bad"]),
        "angle-units": lambda: dft.neighbouring_cell_angle(mk(3, 3), direction="x", units="grad" + c["bad"]),
        "emergent-nvdim": lambda: dft.emergent_magnetic_field(mk(3, c["nvdim"])),
        "emergent-ndim": lambda: dft.emergent_magnetic_field(mk(c["ndim3"], 3)),
        "bps-nvdim": lambda: dft.count_bps(mk(3, c["nvdim"]), direction="x"),
        "bps-ndim": lambda: dft.count_bps(mk(c["ndim3"], 3), direction="x"),
        "bps-direction": lambda: dft.count_bps(mk(3, 3), direction=c["bad"]),
    }
    st, r = attempt(calls[what])
    if st == "ok":
        rec["oracle"].append(f"not-refused-{what}")
    rec.update(obs=dict(outcome=st, exc=r if st != "ok" else None), key=f"refuse/{what}/{c['nvdim']}/{c['ndim']}",
               nontrivial=True)


def stats(records):
    out = {}
    for r in records:
        out[r["kind"]] = out.get(r["kind"], 0) + 1
    out["coq_checked"] = sum(1 for r in records if r.get("coq"))
    out["oracle_only"] = sum(1 for r in records if not r.get("coq"))
    out["bl_metamorphic_skipped_near_exceptional"] = sum(
        1 for r in records if r["kind"] == "meta" and r.get("obs", {}).get("risky"))
    out["angle_results_that_dropped_custom_names"] = sum(
        1 for r in records if r["kind"] == "angle" and r["case"].get("dims") and r.get("obs_names_kept") is False)
    out["max_angle_raised_with_a_2_cell_direction"] = sum(
        1 for r in records if r["kind"] == "angle" and r.get("obs_max_angle") not in (None, "ok"))
    out["names_probe"] = [r.get("obs") for r in records if r["kind"] == "names"][:1]
    out["masked"] = sum(1 for r in records if r["case"].get("valid") and not all(r["case"]["valid"]))
    return out
