"""C20 — matplotlib plots draw the field's own numbers at their physical coordinates:
generators, implementation runner (Agg backend, artists read back), Gallina encoding, oracle."""
import colorsys
import json
import math
import os
import random
from fractions import Fraction as F

import matplotlib
matplotlib.use("Agg")
import matplotlib.pyplot as plt  # noqa: E402
import numpy as np  # noqa: E402
from matplotlib.quiver import Quiver  # noqa: E402

from harness import gallina as g  # noqa: E402
from harness.util import import_df, attempt  # noqa: E402

df = import_df()

TAG_FILTER = "C20-explicit-filter-drops-validity"
SI = {k: float(f"1e{3 * k}") for k in range(-8, 9)}
PREFIX = {8: "Y", 7: "Z", 6: "E", 5: "P", 4: "T", 3: "G", 2: "M", 1: "k", 0: "", -1: "m", -2: "u",
          -3: "n", -4: "p", -5: "f", -6: "a", -7: "z", -8: "y"}
DIMS = [("x", "y"), ("x", "y"), ("x", "z"), ("y", "z"), ("a", "b"), ("r", "t"), ("y", "x")]
UNITS = [("m", "m"), ("m", "m"), ("m", "s"), ("s", "T"), ("rad", "m"), ("Hz", "K")]
PYTH = [(3, 4), (4, 3), (5, 12), (8, 15), (0, 1), (1, 0), (0, 0), (6, 8), (12, 5), (0, 3)]


# values across magnitudes: anything that replaces an exact comparison (== 0, != 0) by an absolute
# tolerance (np.isclose, round, abs(x) < eps) must show on these
MAGS = [1e-300, 1e-12, 1e-9, 1e-8, -1e-9, 3e-8, -1e-8, 1e-7, 1e-5, 0.0, -0.0, 1.0, -2.5, 0.125, 1e12, -3e11]
MAGS_SMALL = [1e-300, 1e-12, 1e-9, 1e-8, -1e-9, 3e-8, -1e-8, -1e-300]


def S(x):
    if isinstance(x, float) and x == 0.0 and math.copysign(1.0, x) < 0:
        return "-0/1"                    # negative zero survives the JSON round trip
    return g.qs(x)


def fl(s):
    if isinstance(s, str) and s.startswith("-0/"):
        return -0.0
    return float(F(s))


def mag_value(rng, p_zero=0.25, tiny=True):
    """tiny=False (data that the Coq model pushes through the lightness arithmetic): 1e-30 instead
    of 1e-300, which keeps the rationals of the evaluation small"""
    c = rng.random()
    if c < p_zero:
        v = rng.choice([0.0, 0.0, -0.0])
    elif c < p_zero + 0.4:
        v = rng.choice(MAGS_SMALL)
    else:
        v = rng.choice(MAGS)
    if not tiny and abs(v) == 1e-300:
        v = math.copysign(1e-30, v)
    return v


# ------------------------------------------------------------------ generators
def gen_geometry(rng, exact):
    """two axes; exact: dyadic geometry whose default multiplier is 1 (edges in [1, 1000))"""
    p1, p2 = [], []
    if exact:
        s = 1.0
        for _ in range(2):
            e = F(rng.choice([1, 2, 3, 5, 6, 12, 20, 48, 100, 640, 999]), rng.choice([1, 1, 2, 4]))
            if e < 1:
                e = F(1)
            lo = F(rng.randint(-64, 64), 4) if rng.random() < 0.7 else F(0)
            a, b = lo, lo + e
            if rng.random() < 0.3:
                a, b = b, a
            p1.append(a)
            p2.append(b)
    else:
        k = rng.choice([-4, -3, -3, -3, -2, -2, -1, 0, 0, 1, 2])
        s = SI[k]
        for _ in range(2):
            e = rng.choice([1.5, 2.0, 5.0, 7.5, 20.0, 50.0, 80.0, 100.0, 250.0, 640.0, 900.0,
                            round(rng.uniform(2, 900), 1)])
            if rng.random() < 0.3:
                e = e * rng.choice([1e-3, 1e3])      # anisotropic: axes on different prefixes
            lo = rng.choice([0.0, 0.0, round(rng.uniform(-500, 500), 1), -e / 2])
            a, b = lo * s, (lo + e) * s
            if b == a:
                b = (lo + 2 * e) * s
            if rng.random() < 0.3:
                a, b = b, a
            p1.append(a)
            p2.append(b)
    return [S(x) for x in p1], [S(x) for x in p2]


def gen_values(rng, n, nvdim, style):
    tot = n[0] * n[1]
    out = []
    tiny_field = rng.random() < 0.15       # 1e-300 (long literals) only in some fields
    for _ in range(tot):
        if style == "pyth":
            a, b = rng.choice(PYTH)
            sc = F(rng.choice([1, 1, 2, 1]), rng.choice([1, 2, 4]))
            v = [a * sc * rng.choice([1, -1]), b * sc * rng.choice([1, -1])]
            v += [F(rng.randint(-16, 16), 4) for _ in range(nvdim - 2)]
        elif style == "decimal":
            v = [F(round(rng.uniform(-5, 5), 2)) if False else F(float(round(rng.uniform(-5, 5), 2)))
                 for _ in range(nvdim)]
        elif style == "mags":
            v = [mag_value(rng, 0.15, tiny=tiny_field) for _ in range(nvdim)]
        elif style == "mags30":
            v = [mag_value(rng, 0.15, tiny=False) for _ in range(nvdim)]
        elif style == "big":
            v = [F(float(rng.choice([1e5, 8e5, -3e5, 1.1e6, 0.0]) * rng.choice([1, 0.5, 0.25]))) for _ in range(nvdim)]
        else:
            v = [F(rng.randint(-40, 40), 8) if rng.random() < 0.85 else F(0) for _ in range(nvdim)]
        out.extend(v)
    return [S(x) for x in out]


def gen_mapping(rng, nvdim, vdims, dims):
    """None = library default"""
    if nvdim == 1:
        return None
    if nvdim == 2:
        c = rng.random()
        if c < 0.45:
            return None                               # default: zip(vdims, dims)
        if c < 0.7:
            return [[vdims[0], dims[1]], [vdims[1], dims[0]]]    # swapped
        if c < 0.8:
            return [[vdims[0], dims[0]], [vdims[1], None]]
        if c < 0.9:
            return [[vdims[0], "w"], [vdims[1], dims[1]]]
        return []
    other = [d for d in ["x", "y", "z", "a", "b", "w"] if d not in dims][0]
    targets = [dims[0], dims[1], other]
    c = rng.random()
    if c < 0.1:
        return None if rng.random() < 0.5 else []     # -> {} on a 2-d mesh: vdims required
    if c < 0.75:
        rng.shuffle(targets)
    elif c < 0.85:
        targets = [dims[0], None, dims[1]]
        rng.shuffle(targets)
    elif c < 0.92:
        targets = [dims[0], dims[0], dims[1]]         # two components on one axis: last wins
    order = list(range(3))
    if rng.random() < 0.3:
        rng.shuffle(order)
    return [[vdims[k], targets[k]] for k in order]


def gen_field(rng, tier, exact=None, nvdim=None, style=None, nmax=None):
    exact = (rng.random() < 0.5) if exact is None else exact
    p1, p2 = gen_geometry(rng, exact)
    nmax = nmax or (5 if tier == "quick" else 7)
    n = [rng.randint(1, nmax), rng.randint(1, nmax)]
    if rng.random() < 0.15:
        n[rng.randrange(2)] = 1
    nvdim = nvdim or rng.choice([1, 1, 2, 2, 3, 3, 3])
    dims = list(rng.choice(DIMS))
    units = list(rng.choice(UNITS))
    if nvdim == 1:
        vdims = None if rng.random() < 0.8 else ["s"]
    elif rng.random() < 0.5:
        vdims = None                                   # default labels x, y(, z)
    else:
        vdims = rng.choice([["a", "b", "c"], ["mx", "my", "mz"], ["z", "x", "y"], ["u", "v", "w"]])[:nvdim]
    labels = vdims if vdims is not None else (["x", "y", "z"][:nvdim] if nvdim > 1 else None)
    mapping = gen_mapping(rng, nvdim, labels, dims)
    style = style or rng.choice(["dyadic", "dyadic", "decimal", "big", "mags", "mags",
                                 "pyth" if nvdim >= 2 else "dyadic"])
    vals = gen_values(rng, n, nvdim, style)
    c = rng.random()
    tot = n[0] * n[1]
    if c < 0.3:
        valid = [True] * tot
    elif c < 0.4:
        valid = [False] * tot
    else:
        valid = [rng.random() < 0.7 for _ in range(tot)]
    return dict(exact=exact, p1=p1, p2=p2, n=n, dims=dims, units=units, nvdim=nvdim, vdims=vdims,
                mapping=mapping, vals=vals, valid=valid)


def gen_aux(rng, n, kind, odd_only=False):
    """scalar field on the same region; own resolution"""
    c = rng.random()
    if c < 0.35:
        an = list(n)
    elif odd_only:
        an = [rng.choice([1, 3, 5, 7]), rng.choice([1, 3, 5])]
    else:
        an = [rng.choice([1, 2, 3, 4, 5, 6, 8, 2 * n[0], 3 * n[0], max(1, n[0] // 2)]),
              rng.choice([1, 2, 3, 4, 5, 6, 2 * n[1], max(1, n[1] // 2)])]
    tot = an[0] * an[1]
    mags = rng.random() < (0.6 if kind == "filter" else 0.45)
    if mags:
        vals = [mag_value(rng, 0.3 if kind == "filter" else 0.1, tiny=(kind == "filter" or (kind == "colour" and rng.random() < 0.1)))
                for _ in range(tot)]
    elif kind == "filter":
        vals = [F(rng.choice([0, 0, 1, 1, 1, 2, -1, F(1, 8)])) for _ in range(tot)]
    else:
        vals = [F(rng.randint(-24, 24), 4) for _ in range(tot)]
    return dict(n=an, vals=[S(v) for v in vals])


def gen_mult(rng, fld):
    c = rng.random()
    if c < 0.45:
        return None
    if c < 0.93:
        return ["si", rng.choice([-4, -3, -3, -2, -1, 0, 0, 1, 2, 3])]
    return ["other", S(rng.choice([2.0, 1e-8, 0.5, 1e2]))]


def gen_vdims_arg(rng, fld):
    labels = fld["vdims"] if fld["vdims"] is not None else (["x", "y", "z"][:fld["nvdim"]] if fld["nvdim"] > 1 else [])
    c = rng.random()
    if c < 0.45 or not labels:
        return None if (labels or rng.random() < 0.5) else rng.choice([["x", None], ["s", "s"]])
    pool = labels + [None]
    if c < 0.9:
        return [rng.choice(pool), rng.choice(pool)]
    if c < 0.95:
        return [rng.choice(labels), "nope"]
    return rng.choice([[labels[0]], [labels[0], labels[-1], None], []])


def narrow_dtype(rng, fld, p=0.25):
    """store the field as float32 / float16 (values that these types hold exactly)"""
    if rng.random() < p and fld["nvdim"] <= 3:
        tot = fld["n"][0] * fld["n"][1] * fld["nvdim"]
        fld["vals"] = [S(F(rng.randint(-40, 40), 8)) for _t in range(tot)]
        fld["dtype"] = rng.choice(["float32", "float32", "float16"])


def mk_step(rng, kind, fld, **kw):
    base = dict(filter=None, symmetric=False, filled=False, vdims_arg=None, use_color=False, color_field=None,
                lightness_field=None, clim=None, colorwheel=False)
    base.update(kw)
    mult = base.pop("mult") if "mult" in base else gen_mult(rng, fld)
    return dict(kind=kind, field=fld, mult=mult, **base)


def complete_vector(rng, tier, nv):
    fld = gen_field(rng, tier, nvdim=nv)
    labels = fld["vdims"] if fld["vdims"] is not None else ["x", "y", "z"][:nv]
    other = [d for d in ["x", "y", "z", "a", "b", "w"] if d not in fld["dims"]][0]
    fld["mapping"] = [[labels[k], (fld["dims"] + [other])[k]] for k in range(nv)]
    return fld


def known_ids():
    try:
        here = os.path.dirname(os.path.dirname(os.path.dirname(os.path.abspath(__file__))))
        return {k.get("id") for k in json.load(open(os.path.join(here, "known_findings.json")))}
    except Exception:  # noqa: BLE001
        return set()


TAG_INT = "C20-integer-field-refused"


def directed_core():
    """Seed-independent directed cases: identical in every run, tier and seed.  One small group per
    mechanism that an earlier blind spot (seeded changes a1 ... e3) needed."""
    rng = random.Random(424242)
    cases = []

    def fieldd(n, nv, vals=None, valid=None, p1=(0, 0), p2=None, dims=("x", "y"), units=("m", "m"), vdims=None,
               mapping="complete", dtype=None, exact=True):
        tot = n[0] * n[1]
        if p2 is None:
            p2 = (p1[0] + 2 * n[0], p1[1] + 3 * n[1])        # anisotropic cells 2 x 3, default multiplier 1
        if vals is None:
            vals = [F(rng.choice([-1, 1]) * rng.randint(1, 40), 8) for _t in range(tot * nv)]
        if valid is None:
            valid = [(t % 3) != 1 for t in range(tot)]       # invalid cells in every row pattern
        labels = vdims if vdims is not None else (["x", "y", "z"][:nv] if nv > 1 else None)
        if mapping == "complete":
            other = [d for d in ["x", "y", "z", "a", "b", "w"] if d not in dims][0]
            mapping = None if nv == 1 else [[labels[k], (list(dims) + [other, None])[k]] for k in range(nv)]
        fd = dict(exact=exact, p1=[S(x) for x in p1], p2=[S(x) for x in p2], n=list(n), dims=list(dims),
                  units=list(units), nvdim=nv, vdims=vdims, mapping=mapping, vals=[S(v) for v in vals],
                  valid=list(valid))
        if dtype:
            fd["dtype"] = dtype
        return fd

    def add(kind, fld, **kw):
        kw.setdefault("mult", None)
        cases.append(mk_step(rng, kind, fld, **kw))

    def aux(n, vals):
        return dict(n=list(n), vals=[S(v) for v in vals])

    # a1: two components, mapping not the identity onto the plane axes, no explicit labels
    for mp in ([["a", "y"], ["b", "x"]], [["a", "x"], ["b", None]], [["a", "w"], ["b", "x"]]):
        fld = fieldd((3, 2), 2, vdims=["a", "b"], mapping=mp)
        add("vector", fld)
        add("call", fld)
    # a2: mpl() with an explicit multiplier that is not the automatic one
    add("call", fieldd((3, 2), 3), mult=["si", -1])
    add("call", fieldd((2, 3), 2), mult=["si", 1])
    add("call", fieldd((3, 2), 3, p2=(40e-9, 20e-9), exact=False), mult=["si", -2])
    add("vector", fieldd((3, 2), 3), mult=["si", -1])
    # a3: filter values that are tiny but not zero (same and finer resolution)
    tiny = [1e-9, 1e-8, -1e-9, 1e-300, 0.0, 1.0, -0.0, 3e-8, -1e-8, 1e-12, 2.5, 1e-7]
    for kind in ("scalar", "contour", "lightness", "call"):
        base = fieldd((3, 2), 1, vals=[F(k, 8) for k in (1, 9, 17, 25, 33, 41)], valid=[True] * 6)
        add(kind, base, filter=aux((3, 2), tiny[:6]))
        add(kind, base, filter=aux((6, 4), (tiny * 2)[:24]))
    # b1: the two plotted directions carry different units
    for un in (("s", "m"), ("m", "rad")):
        add("scalar", fieldd((2, 2), 1, units=un))
        add("contour", fieldd((2, 2), 1, units=un))
        add("lightness", fieldd((2, 2), 1, units=un, vals=[F(k, 8) for k in (1, 9, 17, 25)]))
        add("vector", fieldd((2, 2), 3, units=un))
        add("call", fieldd((2, 2), 3, units=un))
    # b2: colour field on another resolution with the same number of cells
    for an in ((3, 5), (15, 1), (1, 15)):
        add("vector", fieldd((5, 3), 3, valid=[True] * 15), use_color=True,
            color_field=aux(an, [F(k * k + 1, 4) for k in range(15)]))
    # b3: one non-empty scalar_kw dict reused by mpl() on fields with different masks / resolutions
    for nv in (1, 3):
        f1 = fieldd((3, 2), nv, valid=[True, False, True, True, True, False])
        f2 = fieldd((2, 3), nv, valid=[False, True, True, True, False, True])
        f3 = fieldd((3, 2), nv, valid=[True, True, False, False, True, True])
        cases.append(dict(kind="seq", steps=[mk_step(rng, "call", f_, mult=None) for f_ in (f1, f2, f3)],
                          shared=dict(scalar_kw={"cmap": "viridis"}, vector_kw={"width": 0.01}),
                          share_ax=False, share_field=False))
    # c1: lightness straight from a one-component field, twice, nothing changed in between
    ang = fieldd((3, 2), 1, vals=[F(k, 8) for k in (3, 11, 19, 27, 35, 43)])
    add("lightness", ang)
    pl = mk_step(rng, "lightness", ang, mult=None)
    del pl["field"]
    cases.append(dict(kind="mutseq", field=ang, from3d=None,
                      stages=[dict(edits=None, plots=[pl]), dict(edits=None, plots=[pl])]))
    # c2: plot, change the validity in place, plot the same object again; and back
    for nv, kinds in ((1, ["scalar", "contour"]), (1, ["lightness", "call"]), (3, ["vector", "call"]),
                      (3, ["lightness"]), (2, ["vector"])):
        vals = [F(k, 8) for k in (3, 11, 19, 27, 35, 43)] if nv == 1 else None
        fld = fieldd((3, 2), nv, vals=vals, valid=[True] * 6)
        pls = []
        for kd in kinds:
            st_ = mk_step(rng, kd, fld, mult=None, use_color=(kd == "vector" and nv == 3))
            del st_["field"]
            pls.append(st_)
        e1 = dict(op="valid_item", i=1, j=0, val=False)
        cases.append(dict(kind="mutseq", field=fld, from3d=None, stages=[
            dict(edits=None, plots=pls), dict(edits=[e1], plots=pls),
            dict(edits=[dict(e1, val=True), dict(op="valid_slice", axis=1, k=1, val=False)], plots=pls),
            dict(edits=[dict(op="valid_not")], plots=pls)]))
    # c3: four components WITH a mapping onto both plane axes must still be refused
    f4 = fieldd((2, 2), 4, vdims=["a", "b", "c", "d"])
    for kind in ("lightness", "call", "scalar", "contour"):
        add(kind, f4)
    # d1: lightness of 2-/3-component fields with invalid cells, default filter
    add("lightness", fieldd((3, 2), 2, vals=[F(v, 4) for v in (3, 4, -4, 3, 5, 12, 0, 1, -8, 15, 6, -8)]))
    add("lightness", fieldd((3, 2), 3))
    add("lightness", fieldd((2, 3), 3, valid=[False] * 6))
    # d2: contour with hidden cells must not write into the field
    add("contour", fieldd((3, 3), 1))
    add("contour", fieldd((3, 3), 1, valid=[True] * 9), filter=aux((3, 3), [1, 0, 1, 1, 1, 0, 2, 1, 1]))
    # d3: anisotropic cells, imshow-based plots
    for shp, p2 in (((2, 4), (8, 4)), ((4, 2), (4, 8)), ((3, 3), (3, 12))):
        add("scalar", fieldd(shp, 1, p2=p2))
        add("lightness", fieldd(shp, 1, p2=p2, vals=[F(3 + 5 * k, 8) for k in range(shp[0] * shp[1])]))
        add("call", fieldd(shp, 3, p2=p2))
    # e1: angle fields outside [0, 2 pi): arctan2 convention, negative, beyond a full turn
    for angs in ((-3, F(-1, 2), F(1, 2), 3, F(-25, 8), F(25, 8)), (7, 10, F(-13, 2), -7, F(51, 4), 13),
                 (F(1, 2), F(1, 2) + 0, -6, -5, 8, 9)):
        add("lightness", fieldd((3, 2), 1, vals=[F(a) for a in angs], valid=[True] * 6))
    add("lightness", fieldd((2, 2), 1, vals=[F(-2), F(-1), F(9), F(11)]), clim=[S(F(1, 4)), S(F(3, 4))])
    # e2: explicit labels that pick another pair than the mapping does; automatic colour
    f3 = fieldd((3, 2), 3, vdims=["a", "b", "c"])
    for arg in (["a", "c"], ["c", "b"], ["c", None], ["b", "a"]):
        add("vector", f3, vdims_arg=arg, use_color=True)
    add("vector", fieldd((3, 2), 3, vdims=["a", "b", "c"], mapping=[]), vdims_arg=["b", "c"], use_color=True)
    # e3: arrays that are not float64, with invalid cells: no arrow in an invalid cell
    for dt in ("float32", "float16"):
        for nv in (3, 2):
            fld = fieldd((3, 2), nv, dtype=dt)
            add("vector", fld, use_color=(nv == 3))
            add("call", fld)
        add("scalar", fieldd((3, 2), 1, dtype=dt))
        add("contour", fieldd((3, 2), 1, dtype=dt))
    # integer- and Boolean-typed fields: every plot kind must be served, the values handed over are the
    # integers themselves, and the field keeps its dtype and values
    for dt in ("int64", "int32", "uint8", "bool"):
        top = 2 if dt == "bool" else 7
        v1 = [k % top for k in range(1, 7)]
        v3 = [(5 * k + 1) % top for k in range(18)]
        for kind in ("scalar", "contour", "lightness", "call"):
            add(kind, fieldd((3, 2), 1, vals=v1, dtype=dt), expect_ok=True)
        add("scalar", fieldd((3, 2), 1, vals=v1, dtype=dt, valid=[True] * 6), expect_ok=True,
            filter=aux((3, 2), [1, 0, 1, 1, 0, 1]))
        for kind in ("vector", "call", "lightness"):
            add(kind, fieldd((3, 2), 3, vals=v3, dtype=dt), expect_ok=True, use_color=(kind == "vector"))
        add("vector", fieldd((2, 2), 2, vals=v3[:8], dtype=dt), expect_ok=True)
    return cases


def generate(rng, tier):
    quick = tier == "quick"
    N = 1 if quick else 8
    cases = directed_core()          # identical in every run; the seeded random streams follow
    if os.environ.get("C20_CORE_ONLY"):          # diagnostic: the directed core on its own
        return cases

    def add(kind, fld, **kw):
        cases.append(dict(kind=kind, field=fld, mult=kw.pop("mult", gen_mult(rng, fld)), **kw))

    # scalar / contour
    for _ in range(70 * N):
        fld = gen_field(rng, tier, nvdim=rng.choice([1, 1, 1, 1, 1, 1, 2, 3]))
        flt = gen_aux(rng, fld["n"], "filter") if rng.random() < 0.45 else None
        add("scalar", fld, filter=flt, symmetric=rng.random() < 0.2)
    for _ in range(40 * N):
        fld = gen_field(rng, tier, nvdim=rng.choice([1, 1, 1, 1, 1, 1, 2, 3]), nmax=5)
        if fld["nvdim"] == 1 and min(fld["n"]) < 2:
            fld = gen_field(rng, tier, nvdim=1)
            fld["n"] = [max(2, k) for k in fld["n"]]
            fld["vals"] = gen_values(rng, fld["n"], 1, "dyadic")
            fld["valid"] = [rng.random() < 0.8 for _ in range(fld["n"][0] * fld["n"][1])]
        flt = gen_aux(rng, fld["n"], "filter") if rng.random() < 0.4 else None
        add("contour", fld, filter=flt, filled=False)
    # vector
    for _ in range(110 * N):
        fld = gen_field(rng, tier, nvdim=rng.choice([1, 2, 2, 2, 3, 3, 3, 3, 3]))
        uc = rng.random() < 0.7
        cf = gen_aux(rng, fld["n"], "colour") if (uc and rng.random() < 0.4) else None
        narrow_dtype(rng, fld)
        add("vector", fld, vdims_arg=gen_vdims_arg(rng, fld), use_color=uc, color_field=cf)
    # lightness
    for _ in range(80 * N):
        nv = rng.choice([1, 1, 2, 2, 3, 3, 3])
        fld = gen_field(rng, tier, nvdim=nv, style=(rng.choice(["pyth", "pyth", "mags30"]) if nv == 2 else
                                                    rng.choice(["dyadic", "pyth", "mags30"]) if nv == 3 else
                                                    rng.choice(["dyadic", "decimal"])), nmax=4)
        if nv == 1:   # hue angles: [0, 2 pi), the arctan2 convention (-pi, pi], negative, beyond a full turn
            lo_, hi_ = rng.choice([(0, 50), (0, 50), (-25, 25), (-60, 110), (-101, -1), (51, 150)])
            fld["vals"] = [S(F(rng.randint(lo_, hi_), 8)) for _ in fld["vals"]]
        flt = gen_aux(rng, fld["n"], "filter") if rng.random() < 0.35 else None
        lf = gen_aux(rng, fld["n"], "light", odd_only=True) if rng.random() < 0.45 else None
        clim = rng.choice([None, None, [S(F(1, 4)), S(F(3, 4))], [S(0), S(F(1, 2))], [S(F(1, 8)), S(1)]])
        add("lightness", fld, filter=flt, lightness_field=lf, clim=clim, colorwheel=rng.random() < 0.2)
    # field.mpl()
    for _ in range(60 * N):
        fld = gen_field(rng, tier, nvdim=rng.choice([1, 2, 3, 3, 3]))
        flt = gen_aux(rng, fld["n"], "filter") if rng.random() < 0.3 else None
        narrow_dtype(rng, fld)
        add("call", fld, filter=flt)
    # thresholds of the default multiplier (exactly representable powers of ten) and single cells
    for e0, e1 in [(1, 1), (1, 999), (1000, 1), (1000, 1000), (999, 1000), (F(1999, 2), 1), (1, F(1, 2)),
                   (F(1, 2), F(1, 4)), (1000000, 1), (999999, 999), (F(1, 1024), F(1, 1024))]:
        for kind in ["scalar", "vector"]:
            fld = gen_field(rng, tier, exact=True, nvdim=1 if kind == "scalar" else 2)
            fld["p1"], fld["p2"] = [S(0), S(0)], [S(e0), S(e1)]
            if kind == "scalar":
                add(kind, fld, mult=None, filter=None, symmetric=False)
            else:
                add(kind, fld, mult=None, vdims_arg=None, use_color=False, color_field=None)
    # malformed: wrong spatial dimension, wrong auxiliary fields, nvdim 4
    for _ in range(12 * N):
        nd = rng.choice([1, 3, 3, 4])
        kind = rng.choice(["scalar", "contour", "vector", "lightness", "call"])
        nvd = rng.choice([1, 2, 3])
        cases.append(dict(kind=kind, mult=None, wrong_ndim=nd,
                          field=dict(exact=True, p1=[S(0)] * nd, p2=[S(k + 2) for k in range(nd)], n=[2] * nd,
                                     dims=None, units=None, nvdim=nvd, vdims=None, mapping=None,
                                     vals=[S(1)] * (2 ** nd * nvd), valid=[True] * 2 ** nd),
                          filter=None, symmetric=False, filled=False, vdims_arg=None, use_color=True,
                          color_field=None, lightness_field=None, clim=None, colorwheel=False))
    for _ in range(14 * N):
        fld = gen_field(rng, tier, nvdim=rng.choice([1, 3]))
        bad = dict(n=[2, 2, 2], vals=[S(1)] * 8)
        kind = rng.choice(["scalar", "contour", "lightness", "call", "vector"])
        if kind == "vector":
            fld = gen_field(rng, tier, nvdim=3)
            add("vector", fld, vdims_arg=None, use_color=True, color_field=bad)
        elif kind == "lightness":
            which = rng.random() < 0.5
            add("lightness", fld, filter=bad if which else None, lightness_field=None if which else bad,
                clim=None, colorwheel=False)
        else:
            add(kind, fld, filter=bad, symmetric=False, filled=False)
    for _ in range(6 * N):
        fld = gen_field(rng, tier, nvdim=3)
        fld["nvdim"] = 4
        fld["vdims"] = ["a", "b", "c", "d"]
        fld["mapping"] = [["a", fld["dims"][0]], ["b", fld["dims"][1]], ["c", None], ["d", None]]
        fld["vals"] = gen_values(rng, fld["n"], 4, "dyadic")
        kind = rng.choice(["scalar", "contour", "lightness", "call", "vector"])
        add(kind, fld, filter=None, symmetric=False, filled=False, vdims_arg=None, use_color=False,
            color_field=None, lightness_field=None, clim=None, colorwheel=False)
    # ---- sequences: caller-side objects shared by several calls (state must not leak between them)
    SKW = [{"colorbar": False}, {"cmap": "viridis"}, {"colorbar_label": "v"}, {"symmetric_clim": True},
           {"cmap": "coolwarm", "colorbar": False}]
    VKW = [{"colorbar": False}, {"width": 0.01}, {"headwidth": 4.0}, {"use_color": False, "width": 0.02}]

    def step(kind, fld, **kw):
        return mk_step(rng, kind, fld, **kw)

    def complete_vector_field(nv):
        return complete_vector(rng, tier, nv)

    for _ in range(36 * N):
        # (a) one scalar_kw / vector_kw pair reused by mpl() on different fields
        k = rng.choice([2, 2, 3])
        flds = []
        for _j in range(k):
            nv = rng.choice([1, 3, 3, 2])
            flds.append(gen_field(rng, tier, nvdim=1) if nv == 1 else complete_vector_field(nv))
            tot = flds[-1]["n"][0] * flds[-1]["n"][1]
            flds[-1]["valid"] = [rng.random() < 0.6 for _t in range(tot)]      # different masks
        shared = dict(scalar_kw=rng.choice(SKW + [{}]), vector_kw=rng.choice(VKW + [{}, None]))
        cases.append(dict(kind="seq", steps=[step("call", fd_) for fd_ in flds], shared=shared,
                          share_ax=rng.random() < 0.4, share_field=False))
    for _ in range(14 * N):
        # (b) one field, successive different plot kinds (state left on the field by an earlier call)
        if rng.random() < 0.5:
            fld = gen_field(rng, tier, nvdim=1, nmax=4)
            fld["n"] = [max(2, k) for k in fld["n"]]
            tot = fld["n"][0] * fld["n"][1]
            fld["vals"] = [S(F(rng.randint(0, 50), 8)) for _t in range(tot)]
            fld["valid"] = [rng.random() < 0.7 for _t in range(tot)]
            kinds = ["scalar", "contour", "lightness", "call", "scalar"]
        else:
            fld = complete_vector_field(3)
            kinds = ["vector", "lightness", "call", "vector"]
        rng.shuffle(kinds)
        mu = gen_mult(rng, fld)
        steps = []
        for kd in kinds[:3]:
            kw = dict(mult=rng.choice([mu, gen_mult(rng, fld)]))
            if kd == "vector":
                kw.update(use_color=rng.random() < 0.6)
            steps.append(step(kd, fld, **kw))
        cases.append(dict(kind="seq", steps=steps, shared={}, share_ax=rng.random() < 0.5, share_field=True))
    for _ in range(14 * N):
        # (c) one Axes and one kwargs dict / vdims list / clim list for successive plots of different fields
        which = rng.choice(["scalar", "vector", "lightness", "contour"])
        k = rng.choice([2, 3])
        shared = {}
        steps = []
        if which in ("scalar", "contour"):
            shared["kwargs"] = rng.choice([{"cmap": "viridis"}, {"colorbar": False}, {"colorbar_label": "q"}])
            for _j in range(k):
                fld = gen_field(rng, tier, nvdim=1, nmax=5)
                if which == "contour":
                    fld["n"] = [max(2, q_) for q_ in fld["n"]]
                    tot = fld["n"][0] * fld["n"][1]
                    fld["vals"] = gen_values(rng, fld["n"], 1, "dyadic")
                    fld["valid"] = [rng.random() < 0.8 for _t in range(tot)]
                steps.append(step(which, fld))
        elif which == "vector":
            flds = [complete_vector_field(3) for _j in range(k)]
            for fd_ in flds:
                fd_["vdims"] = ["a", "b", "c"]
                fd_["mapping"] = [[lab, tgt] for lab, (_o, tgt) in zip(["a", "b", "c"], fd_["mapping"])]
            shared["vdims"] = rng.choice([["a", "b"], ["b", "c"], ["c", None], [None, "a"]])
            steps = [step("vector", fd_, vdims_arg=list(shared["vdims"]), use_color=rng.random() < 0.5) for fd_ in flds]
        else:
            shared["clim"] = rng.choice([[S(F(1, 4)), S(F(3, 4))], [S(0), S(F(1, 2))]])
            shared["colorwheel_args"] = {"width": 0.5, "height": 0.5}
            for _j in range(k):
                fld = gen_field(rng, tier, nvdim=1, nmax=4)
                fld["vals"] = [S(F(rng.randint(0, 50), 8)) for _ in fld["vals"]]
                steps.append(step("lightness", fld, clim=list(shared["clim"]), colorwheel=rng.random() < 0.5))
        cases.append(dict(kind="seq", steps=steps, shared=shared, share_ax=rng.random() < 0.7, share_field=False))
    # ---- used, then changed in place, then used again (same field object)
    def gen_edit(nv, lightness_scalar):
        mask = [rng.random() < 0.6 for _t in range(64)]
        ops = ["valid_item", "valid_item", "valid_item", "valid_slice", "valid_slice", "valid_fill", "valid_iand",
               "valid_ior", "valid_iand_attr", "valid_not", "valid_not", "valid_set", "array_item", "array_norm",
               "translate", "scale", "rotate90"]
        if not lightness_scalar:
            ops.append("array_scale")
        op = rng.choice(ops)
        e = dict(op=op)
        if op in ("valid_item", "array_item", "array_norm"):
            e.update(i=rng.randrange(8), j=rng.randrange(8))
        if op in ("valid_item", "valid_slice", "valid_fill"):
            e["val"] = rng.random() < 0.4
        if op == "valid_slice":
            e.update(axis=rng.randrange(2), k=rng.randrange(8))
        if op in ("valid_iand", "valid_ior", "valid_iand_attr", "valid_set"):
            e["mask"] = mask
        if op == "array_item":
            e["vals"] = ([S(F(rng.randint(0, 50), 8))] if lightness_scalar else
                         [S(rng.choice([F(rng.randint(-40, 40), 8), F(0), F(1e-9), F(-1e-8)])) for _t in range(3)])
        if op == "array_scale":
            e["s"] = S(rng.choice([F(2), F(-1), F(1, 4), F(0)]))
        if op == "translate":
            e["v"] = [S(F(rng.randint(-8, 8), 4)), S(F(rng.randint(-8, 8), 4))]
        if op == "scale":
            e["s"] = S(rng.choice([F(2), F(1, 2), F(4), F(1000), F(1, 1024)]))
        if op == "rotate90":
            e["k"] = rng.choice([1, 1, 2, 3])
        return e

    for _ in range(44 * N):
        nv = rng.choice([1, 1, 3, 3, 2])
        if nv == 1:
            fld = gen_field(rng, tier, nvdim=1, nmax=4)
            fld["n"] = [max(2, k) for k in fld["n"]]
            tot = fld["n"][0] * fld["n"][1]
            fld["vals"] = [S(F(rng.randint(0, 50), 8)) for _t in range(tot)]      # hue angles in [0, 2 pi)
            kinds = ["scalar", "contour", "lightness", "call"]
        else:
            fld = complete_vector_field(nv)
            if max(fld["n"]) > 4:
                fld["n"] = [min(4, k) for k in fld["n"]]
                fld["vals"] = gen_values(rng, fld["n"], nv, "dyadic")
            tot = fld["n"][0] * fld["n"][1]
            kinds = ["vector", "lightness", "call"]
        fld["valid"] = [rng.random() < 0.75 for _t in range(tot)]
        rng.shuffle(kinds)
        kinds = kinds[:rng.choice([1, 2, 2])]
        mu = rng.choice([None, None, gen_mult(rng, fld)])
        if mu is not None and mu[0] == "other":
            mu = None
        plots = []
        for kd in kinds:
            kw = dict(mult=mu)
            if kd == "vector":
                kw.update(use_color=rng.random() < 0.6)
            plots.append(step(kd, fld, **kw))
        for pl in plots:
            del pl["field"]
        from3d = {"nz": rng.choice([1, 2, 3])} if rng.random() < 0.25 else None
        stages = [dict(edits=None, plots=plots)]
        c_ = rng.random()
        if c_ < 0.12:
            stages.append(dict(edits=None, plots=plots))                    # twice, unchanged
        nst = rng.choice([1, 2, 2])
        last = None
        for _s in range(nst):
            if from3d and rng.random() < 0.4:
                e = dict(op="parent_valid_item", i=rng.randrange(8), j=rng.randrange(8), val=rng.random() < 0.3)
            elif last is not None and last["op"] in ("valid_item", "valid_slice", "valid_fill") and rng.random() < 0.6:
                e = dict(last, val=not last["val"])                        # the reverse: valid again / invalid again
            else:
                e = gen_edit(nv, nv == 1 and "lightness" in kinds)
            last = e
            edits = [e] + ([gen_edit(nv, nv == 1 and "lightness" in kinds)] if rng.random() < 0.2 else [])
            stages.append(dict(edits=edits, plots=plots))
        cases.append(dict(kind="mutseq", field=fld, from3d=from3d, stages=stages))
    return cases


# ------------------------------------------------------------------ implementation side
def build_field(fd):
    nd = len(fd["n"])
    kw = {}
    if fd["dims"] is not None:
        kw = dict(dims=fd["dims"], units=fd["units"])
    region = df.Region(p1=[fl(x) for x in fd["p1"]], p2=[fl(x) for x in fd["p2"]], **kw)
    mesh = df.Mesh(region=region, n=fd["n"])
    arr = np.array([fl(v) for v in fd["vals"]], dtype=float).reshape(*fd["n"], fd["nvdim"])
    valid = np.array(fd["valid"], dtype=bool).reshape(*fd["n"])
    mp = None if fd["mapping"] is None else {k: v for k, v in fd["mapping"]}
    kwd = {}
    if fd.get("dtype"):
        dt = np.dtype(fd["dtype"])
        arr = arr.astype(dt)
        kwd["dtype"] = dt
    return df.Field(mesh, nvdim=fd["nvdim"], value=arr, vdims=fd["vdims"], vdim_mapping=mp, valid=valid, **kwd)


def build_aux(fd, ad):
    if ad is None:
        return None
    nd = len(ad["n"])
    if nd == 2:
        region = df.Region(p1=[fl(x) for x in fd["p1"]], p2=[fl(x) for x in fd["p2"]],
                           **(dict(dims=fd["dims"], units=fd["units"]) if fd["dims"] is not None and len(fd["n"]) == 2 else {}))
    else:
        region = df.Region(p1=[0.0] * nd, p2=[1.0] * nd)
    mesh = df.Mesh(region=region, n=ad["n"])
    return df.Field(mesh, nvdim=1, value=np.array([fl(v) for v in ad["vals"]], dtype=float).reshape(*ad["n"]))


def snapshot(f):
    if f is None:
        return None
    m = f.mesh
    return (f.array.tobytes(), f.array.shape, str(f.array.dtype), f.valid.tobytes(), f.valid.shape,
            m.region.pmin.tobytes(), m.region.pmax.tobytes(), tuple(int(k) for k in m.n),
            tuple(m.region.dims), tuple(m.region.units), tuple(f.vdims) if f.vdims else None,
            tuple(sorted((str(k), str(v)) for k, v in f.vdim_mapping.items())), str(f.unit), str(m.bc),
            tuple(sorted(m.subregions)))


def q_or_none(x):
    return None if (x is None or x is np.ma.masked or (isinstance(x, float) and math.isnan(x))) else S(x)


def n_quivers(ax):
    return len([c for c in ax.collections if isinstance(c, Quiver)])


def read_image(ax, start=0):
    """the first image added after the `start` images that were there before the call"""
    ims = ax.get_images()
    if len(ims) <= start:
        return None
    im = ims[start]
    A = im.get_array()
    ext = [float(v) for v in im.get_extent()]
    data = np.ma.masked_invalid(np.ma.asarray(A, dtype=float))
    if im.origin == "upper":       # canonical form: row r is painted at y0 + r*h
        data = data[::-1]
    return data, ext


def read_quiver(ax, start=0):
    qs = [c for c in ax.collections if isinstance(c, Quiver)]
    if len(qs) <= start:
        return None
    q = qs[start]
    k = len(q.X)
    mask = np.zeros(k, bool) if q.Umask is np.ma.nomask else np.asarray(q.Umask, bool).reshape(-1)
    C = q.get_array()
    col = None
    if C is not None:
        Cm = np.ma.masked_invalid(np.ma.asarray(C, dtype=float)).reshape(-1)
        col = [0.0 if Cm.mask is not np.ma.nomask and np.ma.getmaskarray(Cm)[i] else float(Cm.data[i]) for i in range(k)]
    U = np.asarray(q.U, float).reshape(-1)
    V = np.asarray(q.V, float).reshape(-1)
    mask = mask | np.isnan(U) | np.isnan(V)
    return dict(X=[float(v) for v in q.X], Y=[float(v) for v in q.Y],
                U=[0.0 if mask[i] else float(U[i]) for i in range(k)],
                V=[0.0 if mask[i] else float(V[i]) for i in range(k)],
                mask=[bool(b) for b in mask], C=col, pivot=q.pivot)


class ContourRecorder:
    def __init__(self, ax):
        self.calls = []
        for name in ("contour", "contourf"):
            orig = getattr(ax, name)

            def wrapped(*a, _orig=orig, _name=name, **k):
                self.calls.append((_name, a, k))
                return _orig(*a, **k)
            setattr(ax, name, wrapped)


# ----- Gallina printers
def g_aux(ad):
    if ad is None:
        return "None"
    return f'(Some (mkAux {g.nl(ad["n"])} {g.ql(ad["vals"])}))'


def g_mult(mu):
    if mu is None:
        return "MDefault"
    if mu[0] == "si":
        return f"(MSI {g.z(mu[1])})"
    return f"(MOther {g.q(mu[1])})"


def g_ostr(x):
    return "None" if x is None else f"(Some {g.s(x)})"


def g_field(fd, f):
    nd = len(fd["n"])
    lo = [min(F(a), F(b)) for a, b in zip(fd["p1"], fd["p2"])]
    hi = [max(F(a), F(b)) for a, b in zip(fd["p1"], fd["p2"])]
    dims = list(f.mesh.region.dims)
    units = list(f.mesh.region.units)
    vdims = list(f.vdims) if f.vdims else []
    mp = "[" + "; ".join(f"({g.s(k)}, {g_ostr(v)})" for k, v in f.vdim_mapping.items()) + "]"
    vals = fd["vals"] if nd == 2 else []
    valid = [bool(b) for b in f.valid.reshape(-1)] if nd == 2 else []
    return (f"(mkPF (mkRegion {g.ql(lo)} {g.ql(hi)} {g.sl(dims)} {g.sl(units)} (1 # 1000000000000)) "
            f"{g.nl(fd['n'])} {g.nat(fd['nvdim'])} {g.sl(vdims)} {mp} {g.ql(vals)} {g.bl(valid)})")


def g_orows(rows):
    return g.lst(rows, lambda r: g.lst(r, lambda v: g.opt(v, g.q)))


def g_quiver(qo):
    col = "None" if qo["C"] is None else f"(Some {g.ql(qo['C'])})"
    return (f"({g.ql(qo['X'])}, {g.ql(qo['Y'])}, {g.ql(qo['U'])}, {g.ql(qo['V'])}, "
            f"{g.bl(qo['mask'])}, {col})")


# ----- oracle helpers (property text, independent of the Coq model)
def near_cands(k_old, k_new, i):
    num, den = (2 * i + 1) * k_old, 2 * k_new
    q, r = divmod(num, den)
    return [q - 1, q] if r == 0 else [q]


def hidden_sets(fd, valid, flt):
    """per cell: (must_hide, may_hide) according to the property text: invalid OR filter zero"""
    n0, n1 = fd["n"]
    must = [[False] * n1 for _ in range(n0)]
    may = [[False] * n1 for _ in range(n0)]
    for i in range(n0):
        for j in range(n1):
            inv = not valid[i * n1 + j]
            if flt is None or len(flt["n"]) != 2:
                must[i][j] = may[i][j] = inv
                continue
            a0, a1 = flt["n"]
            zs = [F(flt["vals"][p * a1 + q]) == 0 for p in near_cands(a0, n0, i) for q in near_cands(a1, n1, j)]
            must[i][j] = inv or all(zs)
            may[i][j] = inv or any(zs)
    return must, may


def expected_centres(fd, m):
    out = []
    for a in range(2):
        lo, hi = sorted([F(fd["p1"][a]), F(fd["p2"][a])])
        k = fd["n"][a]
        c = (hi - lo) / k
        out.append([(lo + (F(j) + F(1, 2)) * c) / F(m) for j in range(k)])
    return out


def axis_scales(fd, m):
    return [float(max(abs(F(fd["p1"][a])), abs(F(fd["p2"][a]))) / abs(F(m))) for a in range(2)]


def close(x, w, s, tol=1e-9):
    return abs(float(x) - float(w)) <= tol * s


def arg_snapshot(x):
    """value of a caller-supplied argument (dict / list / tuple), fields by identity"""
    if isinstance(x, dict):
        return ("dict", tuple((k, arg_snapshot(v)) for k, v in x.items()))
    if isinstance(x, (list, tuple)):
        return (type(x).__name__, tuple(arg_snapshot(v) for v in x))
    if isinstance(x, df.Field):
        return ("field", id(x))
    return repr(x)


def field_dict_from(f, exact):
    """the state the field object reports NOW, in the form of a generated field description"""
    r = f.mesh.region
    return dict(exact=exact, p1=[S(float(x)) for x in r.pmin], p2=[S(float(x)) for x in r.pmax],
                n=[int(k) for k in f.mesh.n], dims=list(r.dims), units=list(r.units), nvdim=int(f.nvdim),
                vdims=list(f.vdims) if f.vdims else None,
                mapping=[[k, v] for k, v in f.vdim_mapping.items()],
                vals=[S(float(x)) for x in np.asarray(f.array, dtype=float).reshape(-1)],
                valid=[bool(b) for b in np.asarray(f.valid).reshape(-1)])


def cyc(lst, k):
    return [lst[i % len(lst)] for i in range(k)]


def apply_edit(f, e, parent=None):
    """in-place change of the field through public calls; returns the field to plot afterwards"""
    op = e["op"]
    n0, n1 = (int(k) for k in f.mesh.n)
    if op == "valid_item":
        f.valid[e["i"] % n0, e["j"] % n1] = e["val"]
    elif op == "valid_slice":
        if e["axis"] == 0:
            f.valid[e["k"] % n0, :] = e["val"]
        else:
            f.valid[:, e["k"] % n1] = e["val"]
    elif op == "valid_fill":
        f.valid[...] = e["val"]
    elif op == "valid_iand":
        v = f.valid
        v &= np.array(cyc(e["mask"], n0 * n1), dtype=bool).reshape(n0, n1)
    elif op == "valid_ior":
        v = f.valid
        v |= np.array(cyc(e["mask"], n0 * n1), dtype=bool).reshape(n0, n1)
    elif op == "valid_iand_attr":
        f.valid &= np.array(cyc(e["mask"], n0 * n1), dtype=bool).reshape(n0, n1)
    elif op == "valid_not":
        np.logical_not(f.valid, out=f.valid)
    elif op == "valid_set":
        f.valid = np.array(cyc(e["mask"], n0 * n1), dtype=bool).reshape(n0, n1)
    elif op == "array_item":
        f.array[e["i"] % n0, e["j"] % n1] = [fl(x) for x in cyc(e["vals"], f.nvdim)]
    elif op == "array_scale":
        f.array[...] *= fl(e["s"])
    elif op == "array_norm":
        f.array[e["i"] % n0, e["j"] % n1] = 0.0
        f.array[(e["i"] + 1) % n0, (e["j"] + 1) % n1] = 0.0
        f.valid = "norm"
    elif op == "translate":
        ed = f.mesh.region.edges
        f.mesh.translate([fl(e["v"][a]) * float(ed[a]) for a in range(2)], inplace=True)
    elif op == "scale":
        f.mesh.scale(fl(e["s"]), inplace=True)
    elif op == "rotate90":
        d = f.mesh.region.dims
        f.rotate90(d[0], d[1], k=e.get("k", 1), inplace=True)
    elif op == "parent_valid_item":
        # change the 3-d parent in place, then take the plane selection again
        pn = [int(k) for k in parent.mesh.n]
        parent.valid[e["i"] % pn[0], e["j"] % pn[1], :] = e["val"]
        return parent.sel(**{parent.mesh.region.dims[2]: float(parent.mesh.region.center[2])})
    else:
        raise ValueError(op)
    return f


ALLOWED = {TAG_FILTER: {"invalid-cell-drawn"}}


def guard_tags(oracle, tags):
    """a known finding excuses exactly its own clause: a record that violates anything else is
    reported untagged, so that a known entry can never swallow another clause"""
    ok = set()
    for t in tags:
        ok |= ALLOWED.get(t, set())
    return sorted(set(tags)) if set(oracle) <= ok else []


def run_mutseq(c):
    """used, then changed in place, then used again: every picture is modelled on the state the
    field reports at the time of the call"""
    fd0 = c["field"]
    parent = None
    if c.get("from3d"):
        # plane selection of a 3-d field (same data in every layer)
        n3 = c["from3d"]["nz"]
        lo = [min(fl(a), fl(b)) for a, b in zip(fd0["p1"], fd0["p2"])]
        hi = [max(fl(a), fl(b)) for a, b in zip(fd0["p1"], fd0["p2"])]
        third = [d for d in ["x", "y", "z", "a", "b", "w"] if d not in fd0["dims"]][0]
        region = df.Region(p1=lo + [0.0], p2=hi + [float(n3)], dims=fd0["dims"] + [third], units=fd0["units"] + ["m"])
        mesh = df.Mesh(region=region, n=fd0["n"] + [n3])
        arr = np.array([fl(v) for v in fd0["vals"]], dtype=float).reshape(*fd0["n"], 1, fd0["nvdim"])
        arr = np.repeat(arr, n3, axis=2)
        valid = np.repeat(np.array(fd0["valid"], dtype=bool).reshape(*fd0["n"], 1), n3, axis=2)
        mp = None if fd0["mapping"] is None else {k: v for k, v in fd0["mapping"]}
        parent = df.Field(mesh, nvdim=fd0["nvdim"], value=arr, vdims=fd0["vdims"], vdim_mapping=mp, valid=valid)
        f = parent.sel(**{third: float(region.center[2])})
    else:
        f = build_field(fd0)
    recs, edits_done = [], []
    prev_obs = {}
    for stage in c["stages"]:
        changed = False
        for e in stage.get("edits") or []:
            st_e, res = attempt(lambda e=e: apply_edit(f, e, parent))
            edits_done.append(f"{e['op']}:{st_e}")
            if st_e == "ok":
                f = res
                changed = True
        fd_now = field_dict_from(f, fd0["exact"])
        for t_i, tmpl in enumerate(stage["plots"]):
            ctx = {"field_obj": f}
            r = run_step(dict(tmpl, field=fd_now), ctx)
            if not changed and t_i in prev_obs and prev_obs[t_i] != r["obs"]:
                r["oracle"] = sorted(set(r["oracle"]) | {"repeated-plot-differs"})
            prev_obs[t_i] = r["obs"]
            recs.append(r)
    plt.close("all")
    oracle = sorted({cl for r in recs for cl in r["oracle"]})
    tags = sorted({t for r in recs for t in r["tags"]})
    tags = guard_tags(oracle, tags)
    return dict(kind="mutseq", case=c, oracle=oracle, tags=tags,
                obs=dict(status="/".join(r["obs"]["status"] for r in recs), edits=edits_done,
                         steps=[r["obs"] for r in recs]),
                coq="[" + "; ".join(r["coq"] for r in recs) + "]",
                key="mutseq/" + "+".join(edits_done) + "/" + "+".join(r["key"] for r in recs[:2]) + f"/{bool(parent)}",
                size=sum(r["size"] for r in recs) + 200)


def run_case(c):
    if c["kind"] == "mutseq":
        return run_mutseq(c)
    if c["kind"] != "seq":
        rec = run_step(c, {})
        if rec["coq"] is not None:
            rec["coq"] = "[" + rec["coq"] + "]"
        return rec
    # a sequence of plot calls that share caller-side objects (style dicts, lists, Axes, field)
    steps = c["steps"]
    ctx = {}
    plt.close("all")
    if c.get("share_ax"):
        fig = plt.figure()
        ctx["ax"] = fig.add_subplot(111)
        ctx["crec"] = ContourRecorder(ctx["ax"])
    if c.get("share_field"):
        ctx["field_obj"] = build_field(steps[0]["field"])
    sh = c.get("shared") or {}
    for name in ("scalar_kw", "vector_kw", "kwargs", "colorwheel_args"):
        if sh.get(name) is not None:
            ctx[name] = dict(sh[name])          # ONE object for the whole sequence
    if sh.get("vdims") is not None:
        ctx["vdims"] = list(sh["vdims"])
    if sh.get("clim") is not None:
        ctx["clim"] = [fl(x) for x in sh["clim"]]
    recs = [run_step(st_, ctx) for st_ in steps]
    plt.close("all")
    oracle = sorted({cl for r in recs for cl in r["oracle"]})
    tags = sorted({t for r in recs for t in r["tags"]})
    tags = guard_tags(oracle, tags)
    return dict(kind="seq", case=c, oracle=oracle, tags=tags,
                obs=dict(status="/".join(r["obs"]["status"] for r in recs), steps=[r["obs"] for r in recs]),
                coq="[" + "; ".join(r["coq"] for r in recs) + "]",
                key="seq/" + "+".join(r["key"] for r in recs) + f"/{bool(c.get('share_ax'))}/{bool(c.get('share_field'))}/"
                    f"{sorted(sh)}",
                size=sum(r["size"] for r in recs) + 100)


def run_step(c, ctx):
    kind = c["kind"]
    fd = c["field"]
    rec = dict(kind=kind, case=c, oracle=[], tags=[])
    nd = len(fd["n"])
    f = ctx.get("field_obj") or build_field(fd)
    flt = build_aux(fd, c.get("filter"))
    cfield = build_aux(fd, c.get("color_field"))
    lfield = build_aux(fd, c.get("lightness_field"))
    mu = c["mult"]
    mval = None if mu is None else (SI.get(mu[1]) if mu[0] == "si" else fl(mu[1]))
    before = snapshot(f)
    aux_before = [snapshot(x) for x in (flt, cfield, lfield)]
    if ctx.get("ax") is not None:
        ax, crec = ctx["ax"], ctx["crec"]
    else:
        plt.close("all")
        fig = plt.figure()
        ax = fig.add_subplot(111)
        crec = ContourRecorder(ax)
    i_img, i_quiv, i_cont = len(ax.get_images()), n_quivers(ax), len(crec.calls)
    # caller-supplied mutable arguments (shared across the steps of a sequence)
    xkw = ctx.get("kwargs") if (ctx.get("kwargs") is not None and kind in ("scalar", "contour")) else None
    vd_arg = ctx["vdims"] if (kind == "vector" and ctx.get("vdims") is not None) else c.get("vdims_arg")
    clim_arg = None
    if kind == "lightness":
        if ctx.get("clim") is not None:
            clim_arg = ctx["clim"]
        elif c["clim"] is not None:
            clim_arg = tuple(fl(x) for x in c["clim"])
    skw_arg = vkw_arg = None
    if kind == "call":
        skw_arg = ctx.get("scalar_kw")
        if skw_arg is None:
            skw_arg = {} if c.get("filter") is None else {"filter_field": flt}
        vkw_arg = ctx.get("vector_kw")
    cw_arg = ctx.get("colorwheel_args") if kind == "lightness" else None
    caller_args = dict(kwargs=xkw, vdims=vd_arg, clim=clim_arg, scalar_kw=skw_arg, vector_kw=vkw_arg,
                       colorwheel_args=cw_arg)
    args_before = {k_: arg_snapshot(v_) for k_, v_ in caller_args.items()}

    def call():
        kw = {} if xkw is None else xkw
        if kind == "scalar":
            ex = {}
            if c.get("filter") is not None:
                ex["filter_field"] = flt
            if c.get("symmetric"):
                ex["symmetric_clim"] = True
            return f.mpl.scalar(ax=ax, multiplier=mval, **ex, **kw)
        if kind == "contour":
            ex = {}
            if c.get("filter") is not None:
                ex["filter_field"] = flt
            return f.mpl.contour(ax=ax, multiplier=mval, **ex, **kw)
        if kind == "vector":
            return f.mpl.vector(ax=ax, multiplier=mval, vdims=vd_arg, use_color=c["use_color"],
                                color_field=cfield)
        if kind == "lightness":
            return f.mpl.lightness(ax=ax, multiplier=mval, filter_field=flt, lightness_field=lfield, clim=clim_arg,
                                   colorwheel=c["colorwheel"], colorwheel_args=cw_arg)
        if kind == "call":
            return f.mpl(ax=ax, multiplier=mval, scalar_kw=skw_arg, vector_kw=vkw_arg)
        raise ValueError(kind)

    st, _ = attempt(call)
    after = snapshot(f)
    aux_after = [snapshot(x) for x in (flt, cfield, lfield)]
    if before != after:
        rec["oracle"].append("field-modified")
    if aux_before != aux_after:
        rec["oracle"].append("aux-field-modified")
    if args_before != {k_: arg_snapshot(v_) for k_, v_ in caller_args.items()}:
        rec["oracle"].append("caller-argument-modified")

    gf = g_field(fd, f)
    gm = g_mult(mu)
    gflt = g_aux(c.get("filter"))
    valid_in = [bool(b) for b in np.array(fd["valid"], dtype=bool).reshape(-1)]
    explicit_filter = c.get("filter") is not None
    obs = dict(status=st)
    accepted = st == "ok"

    # ---- refusals demanded by the property text
    if accepted and nd != 2:
        rec["oracle"].append("wrong-spatial-dimension-accepted")
    if accepted and kind in ("scalar", "contour") and fd["nvdim"] != 1:
        rec["oracle"].append("wrong-component-dimension-accepted")
    if accepted and kind in ("lightness", "call") and fd["nvdim"] > 3:
        rec["oracle"].append("wrong-component-dimension-accepted")

    # a well-formed request on a 2-d field must be served
    wellformed = (nd == 2 and (mu is None or mu[0] == "si")
                  and all(a is None or len(a["n"]) == 2 for a in (c.get("filter"), c.get("color_field"),
                                                                  c.get("lightness_field"))))
    if not accepted and wellformed and fd["nvdim"] == 1 and kind in ("scalar", "lightness", "call"):
        rec["oracle"].append("valid-field-refused")
    if not accepted and wellformed and kind == "lightness" and fd["nvdim"] in (2, 3):
        rev_ = {v: k for k, v in f.vdim_mapping.items()}
        if all(rev_.get(d) in (f.vdims or []) for d in f.mesh.region.dims):
            rec["oracle"].append("valid-field-refused")

    if not accepted and c.get("expect_ok"):
        rec["oracle"].append("valid-field-refused")

    # effective multiplier (for the oracle)
    m_eff = None
    if accepted and nd == 2:
        if mu is None:
            edges = [abs(F(a) - F(b)) for a, b in zip(fd["p1"], fd["p2"])]
            ks = [k for k in range(-8, 9) if any(F(10) ** (3 * k) * F(999999, 1000000) <= e for e in edges)]
            m_eff = None     # determined from the label below
        else:
            m_eff = F(mval)

    coq = None
    key_extra = ""

    def check_labels(xl, yl):
        """labels = 'dim (prefix unit)'; returns the multiplier the labels announce"""
        dims, units = list(f.mesh.region.dims), list(f.mesh.region.units)
        found = None
        for k, p in PREFIX.items():
            if xl == f"{dims[0]} ({p}{units[0]})" and yl == f"{dims[1]} ({p}{units[1]})":
                if found is None or (mval is not None and SI[k] == mval):
                    found = k
        if found is None:
            rec["oracle"].append("axis-labels")
            return None
        if mval is not None and SI[found] != mval:
            # prefix of another multiplier (only distinguishable when the prefixes differ)
            rec["oracle"].append("axis-labels")
        if mval is None:
            edges = [abs(F(a) - F(b)) for a, b in zip(fd["p1"], fd["p2"])]
            mx = max(edges) / F(10) ** (3 * found)
            if not (F(999999, 1000000) <= mx < 1000 * F(1000001, 1000000)):
                rec["oracle"].append("default-multiplier")
        return found

    def check_rows(rows, comp, extent):
        """rows[j][i] (None = not drawn) against the property text"""
        n0, n1 = fd["n"]
        must, may = hidden_sets(fd, valid_in, c.get("filter"))
        if len(rows) != n1 or any(len(r) != n0 for r in rows):
            rec["oracle"].append("image-shape")
            return
        for i in range(n0):
            for j in range(n1):
                v = rows[j][i]
                if v is None:
                    if not may[i][j]:
                        rec["oracle"].append("valid-cell-hidden")
                else:
                    if not valid_in[i * n1 + j]:
                        rec["oracle"].append("invalid-cell-drawn")
                        if explicit_filter:
                            rec["tags"].append(TAG_FILTER)
                    elif must[i][j]:
                        rec["oracle"].append("filtered-cell-drawn")
                    if F(v) != F(fd["vals"][(i * n1 + j) * fd["nvdim"] + comp]):
                        rec["oracle"].append("wrong-value")

    def check_extent(ext, k):
        m = F(10) ** (3 * k)
        sc = axis_scales(fd, m)
        want = []
        for a in range(2):
            lo, hi = sorted([F(fd["p1"][a]), F(fd["p2"][a])])
            want += [lo / m, hi / m]
        if not all(close(e, w, sc[i // 2]) for i, (e, w) in enumerate(zip(ext, want))):
            rec["oracle"].append("extent")

    def check_quiver(qo, k, ux, uy):
        n0, n1 = fd["n"]
        m = F(10) ** (3 * k)
        cx, cy = expected_centres(fd, m)
        sc = axis_scales(fd, m)
        if len(qo["X"]) != n0 * n1:
            rec["oracle"].append("quiver-shape")
            return
        if qo["pivot"] not in ("mid", "middle"):
            rec["oracle"].append("arrow-not-centred")
        for j in range(n1):
            for i in range(n0):
                a = j * n0 + i
                if not (close(qo["X"][a], cx[i], sc[0]) and close(qo["Y"][a], cy[j], sc[1])):
                    rec["oracle"].append("arrow-position")
                inv = not valid_in[i * n1 + j]
                if qo["mask"][a] != inv:
                    rec["oracle"].append("invalid-cell-drawn" if inv else "valid-cell-hidden")
                if not qo["mask"][a]:
                    for comp, got in ((ux, qo["U"][a]), (uy, qo["V"][a])):
                        want = F(0) if comp is None else F(fd["vals"][(i * n1 + j) * fd["nvdim"] + comp])
                        if F(got) != want:
                            rec["oracle"].append("arrow-component")

    labels_ = list(f.vdims) if f.vdims else []

    def rdim(a):
        rev = {v: k for k, v in f.vdim_mapping.items()}
        return rev.get(f.mesh.region.dims[a])

    if kind in ("scalar", "contour"):
        if accepted:
            xl, yl = ax.get_xlabel(), ax.get_ylabel()
            if kind == "scalar":
                data, ext = read_image(ax, i_img)
                xs, ys = [], []
            else:
                _, a, _k = crec.calls[i_cont]
                X, Y, Z = [np.asarray(v, float) for v in a[:3]]
                if X.ndim == 2:
                    X, Y = X[0, :], Y[:, 0]
                data, ext = np.ma.masked_invalid(Z), [0.0, 0.0, 0.0, 0.0]
                xs, ys = [float(v) for v in X], [float(v) for v in Y]
            mk = np.ma.getmaskarray(data)
            rows = [[None if mk[r, cc] else S(float(data.data[r, cc])) for cc in range(data.shape[1])]
                    for r in range(data.shape[0])]
            obs.update(rows=rows, extent=[S(e) for e in ext], x=[S(v) for v in xs], y=[S(v) for v in ys],
                       xlabel=xl, ylabel=yl)
            if nd == 2 and fd["nvdim"] == 1:
                k = check_labels(xl, yl)
                check_rows(rows, 0, ext)
                if k is not None:
                    if kind == "scalar":
                        check_extent(ext, k)
                    else:
                        cx, cy = expected_centres(fd, F(10) ** (3 * k))
                        sc = axis_scales(fd, F(10) ** (3 * k))
                        if len(xs) != len(cx) or len(ys) != len(cy) or \
                                not all(close(a_, b_, sc[0]) for a_, b_ in zip(xs, cx)) or \
                                not all(close(a_, b_, sc[1]) for a_, b_ in zip(ys, cy)):
                            rec["oracle"].append("contour-coordinates")
            coq_obs = (f"(Some ({g_orows(rows)}, {g.ql(ext)}, {g.ql(xs)}, {g.ql(ys)}, {g.s(xl)}, {g.s(yl)}))")
        else:
            coq_obs = "None"
        coq = f"CScalar {g.b(kind == 'contour')} {gf} {gm} {gflt} {coq_obs}"

    elif kind == "vector":
        garg = "None" if c["vdims_arg"] is None else "(Some " + g.lst(c["vdims_arg"], g_ostr) + ")"
        if accepted:
            qo = read_quiver(ax, i_quiv)
            xl, yl = ax.get_xlabel(), ax.get_ylabel()
            obs.update(quiver=dict(X=[S(v) for v in qo["X"]], Y=[S(v) for v in qo["Y"]], U=[S(v) for v in qo["U"]],
                                   V=[S(v) for v in qo["V"]], mask=qo["mask"],
                                   C=None if qo["C"] is None else [S(v) for v in qo["C"]], pivot=qo["pivot"]),
                       xlabel=xl, ylabel=yl)
            if nd == 2:
                k = check_labels(xl, yl)
                names = c["vdims_arg"] if c["vdims_arg"] is not None else [rdim(0), rdim(1)]
                if k is not None and len(names) == 2 and all((not s_) or s_ in labels_ for s_ in names):
                    ux = labels_.index(names[0]) if names[0] else None
                    uy = labels_.index(names[1]) if names[1] else None
                    check_quiver(qo, k, ux, uy)
                    # colour = the remaining component (when it is determined) / the colour field
                    n0, n1 = fd["n"]
                    if qo["C"] is not None and c["color_field"] is None and fd["nvdim"] == 3:
                        rest = [s_ for s_ in labels_ if s_ not in names]
                        if len(rest) == 1:
                            kc = labels_.index(rest[0])
                            for j in range(n1):
                                for i in range(n0):
                                    a = j * n0 + i
                                    if not qo["mask"][a] and F(qo["C"][a]) != F(fd["vals"][(i * n1 + j) * 3 + kc]):
                                        rec["oracle"].append("arrow-colour")
                    if qo["C"] is not None and c["color_field"] is not None:
                        ad = c["color_field"]
                        for j in range(n1):
                            for i in range(n0):
                                a = j * n0 + i
                                cands = [F(ad["vals"][p * ad["n"][1] + q]) for p in near_cands(ad["n"][0], n0, i)
                                         for q in near_cands(ad["n"][1], n1, j)]
                                if not qo["mask"][a] and F(qo["C"][a]) not in cands:
                                    rec["oracle"].append("arrow-colour")
            coq_obs = f"(Some ({g_quiver(qo)}, {g.s(xl)}, {g.s(yl)}))"
        else:
            coq_obs = "None"
        coq = (f"CVector {gf} {gm} {garg} {g.b(c['use_color'])} {g_aux(c.get('color_field'))} {coq_obs}")
        key_extra = f"/{c['vdims_arg']}/{c['use_color']}/{c.get('color_field') is not None}"

    elif kind == "lightness":
        n0n1 = fd["n"][0] * fd["n"][1] if nd == 2 else 0
        nv = fd["nvdim"]
        twopi = F(2 * np.pi)
        tabs = []
        norm_tab = []
        if nd == 2 and nv >= 2:
            arr = np.array([fl(v) for v in fd["vals"]], dtype=float).reshape(n0n1, nv)
            for kx in range(nv):
                for ky in range(nv):
                    if kx != ky:
                        ang = []
                        for t in range(n0n1):
                            a_ = math.atan2(arr[t, ky], arr[t, kx])
                            if a_ < 0:
                                a_ += 2 * np.pi
                            ang.append(a_)
                        tabs.append(f"({g.nat(kx)}, {g.nat(ky)}, {g.ql(ang)})")
            if nv == 2:
                norm_tab = [float(np.sqrt(arr[t, 0] ** 2 + arr[t, 1] ** 2)) for t in range(n0n1)]
        gt = f"(mkTabs {g.q(twopi)} [{'; '.join(tabs)}] {g.ql(norm_tab)})"
        gclim = "None" if c["clim"] is None else f"(Some ({g.q(c['clim'][0])}, {g.q(c['clim'][1])}))"
        if accepted:
            data, ext = read_image(ax, i_img)
            xl, yl = ax.get_xlabel(), ax.get_ylabel()
            A = np.asarray(np.ma.filled(data, 0.0), float)
            rows = [[[float(A[r, cc, t]) for t in range(A.shape[2])] for cc in range(A.shape[1])]
                    for r in range(A.shape[0])]
            obs.update(rgba=[[[S(v) for v in px] for px in r] for r in rows], extent=[S(e) for e in ext],
                       xlabel=xl, ylabel=yl)
            if nd == 2 and nv <= 3:
                k = check_labels(xl, yl)
                if k is not None:
                    check_extent(ext, k)
                # alpha = 0 exactly in the hidden cells; hue of the drawn cells = angle / 2 pi
                n0, n1 = fd["n"]
                must, may = hidden_sets(fd, valid_in, c.get("filter"))
                if len(rows) != n1 or any(len(r) != n0 for r in rows):
                    rec["oracle"].append("image-shape")
                else:
                    arr = np.array([fl(v) for v in fd["vals"]], dtype=float).reshape(n0, n1, nv)
                    # the lightness source, where the property determines it
                    src = None
                    ad = c.get("lightness_field")
                    if ad is not None:
                        cand = [[[(p_, q_) for p_ in near_cands(ad["n"][0], n0, i) for q_ in near_cands(ad["n"][1], n1, j)]
                                 for j in range(n1)] for i in range(n0)]
                        if all(len(cand[i][j]) == 1 for i in range(n0) for j in range(n1)):
                            src = np.array([[fl(ad["vals"][cand[i][j][0][0] * ad["n"][1] + cand[i][j][0][1]])
                                             for j in range(n1)] for i in range(n0)])
                    elif nv == 1:
                        src = np.abs(arr[..., 0])
                    elif nv == 2:
                        src = np.sqrt(arr[..., 0] ** 2 + arr[..., 1] ** 2)
                    else:
                        rest = [s_ for s_ in labels_ if s_ not in (rdim(0), rdim(1))]
                        if len(rest) == 1:
                            src = arr[..., labels_.index(rest[0])].copy()
                    ln = None
                    if src is not None:
                        sh = src - src.min()
                        if sh.max() != 0:
                            sh = sh / sh.max()
                        c0_, c1_ = (0.0, 1.0) if c["clim"] is None else (fl(c["clim"][0]), fl(c["clim"][1]))
                        ln = sh * (c1_ - c0_) + c0_
                    for i in range(n0):
                        for j in range(n1):
                            px = rows[j][i]
                            drawn = px[3] != 0
                            if drawn and not valid_in[i * n1 + j]:
                                rec["oracle"].append("invalid-cell-drawn")
                                if explicit_filter:
                                    rec["tags"].append(TAG_FILTER)
                            elif drawn and must[i][j]:
                                rec["oracle"].append("filtered-cell-drawn")
                            elif not drawn and not may[i][j]:
                                rec["oracle"].append("valid-cell-hidden")
                            if drawn:
                                if nv == 1:
                                    ang = arr[i, j, 0]
                                else:
                                    sx, sy = rdim(0), rdim(1)
                                    ang = math.atan2(arr[i, j, labels_.index(sy)], arr[i, j, labels_.index(sx)])
                                h, l_, s_ = colorsys.rgb_to_hls(*px[:3])
                                if ln is not None and abs(l_ - ln[i, j]) > 1e-6:
                                    rec["oracle"].append("lightness-value")
                                if 1e-6 < l_ < 1 - 1e-6:
                                    d = (h - ang / (2 * np.pi)) % 1.0
                                    if min(d, 1 - d) > 1e-6:
                                        rec["oracle"].append("hue-not-angle")
            coq_obs = (f"(Some ({g.lst(rows, lambda r: g.lst(r, g.ql))}, {g.ql(ext)}, {g.s(xl)}, {g.s(yl)}))")
        else:
            coq_obs = "None"
        coq = (f"CLight {gf} {gm} {gflt} {g_aux(c.get('lightness_field'))} {gclim} {gt} {coq_obs}")
        key_extra = f"/{c.get('lightness_field') is not None}/{c['clim'] is not None}"

    elif kind == "call":
        if accepted:
            xl, yl = ax.get_xlabel(), ax.get_ylabel()
            im = read_image(ax, i_img)
            qo = read_quiver(ax, i_quiv)
            k = check_labels(xl, yl) if nd == 2 else None
            gim = "None"
            if im is not None:
                data, ext = im
                mk = np.ma.getmaskarray(data)
                rows = [[None if mk[r, cc] else S(float(data.data[r, cc])) for cc in range(data.shape[1])]
                        for r in range(data.shape[0])]
                obs.update(rows=rows, extent=[S(e) for e in ext])
                gim = f"(Some ({g_orows(rows)}, {g.ql(ext)}))"
                if k is not None:
                    check_extent(ext, k)
                    if fd["nvdim"] == 1:
                        check_rows(rows, 0, ext)
                    elif fd["nvdim"] == 3:
                        rest = [s_ for s_ in labels_ if s_ not in (rdim(0), rdim(1))]
                        if len(rest) == 1:
                            check_rows(rows, labels_.index(rest[0]), ext)
            elif nd == 2 and fd["nvdim"] in (1, 3):
                rec["oracle"].append("scalar-part-missing")
            gq = "None"
            if qo is not None:
                obs.update(quiver=dict(X=[S(v) for v in qo["X"]], Y=[S(v) for v in qo["Y"]],
                                       U=[S(v) for v in qo["U"]], V=[S(v) for v in qo["V"]], mask=qo["mask"]))
                gq = f"(Some {g_quiver(qo)})"
                if k is not None and rdim(0) in labels_ and rdim(1) in labels_:
                    check_quiver(qo, k, labels_.index(rdim(0)), labels_.index(rdim(1)))
            elif nd == 2 and fd["nvdim"] in (2, 3):
                rec["oracle"].append("vector-part-missing")
            obs.update(xlabel=xl, ylabel=yl)
            coq_obs = f"(Some ({gim}, {gq}, {g.s(xl)}, {g.s(yl)}))"
        else:
            coq_obs = "None"
        coq = f"CCall {gf} {gm} {gflt} {coq_obs}"

    if ctx.get("ax") is None:
        plt.close("all")
    rec["oracle"] = sorted(set(rec["oracle"]))
    rec["tags"] = sorted(set(rec["tags"]))
    rec["tags"] = guard_tags(rec["oracle"], rec["tags"])
    flt_cls = "none" if c.get("filter") is None else ("same" if c["filter"]["n"] == fd["n"] else "other")
    mcls = "default" if mu is None else f"{mu[0]}{mu[1] if mu[0] == 'si' else ''}"
    mp_cls = "default" if fd["mapping"] is None else "/".join(f"{k}>{v}" for k, v in fd["mapping"])
    rec.update(obs=obs, coq=coq,
               key=f"{kind}/{nd}/{fd['nvdim']}/{tuple(fd['n'])}/{fd['exact']}/{st}/{flt_cls}/{mcls}/{mp_cls}/"
                   f"{all(fd['valid'])}{key_extra}",
               size=sum(fd["n"]) * fd["nvdim"] + (0 if c.get("filter") is None else 3))
    return rec


def stats(records):
    out = {}
    for r in records:
        st_ = r["obs"].get("status")
        k = r["kind"] + ("/ok" if st_ == "ok" else f"/{st_}" if r["kind"] == "seq" else
                         ("/all-ok" if set(st_.split("/")) == {"ok"} else "/some-refused") if r["kind"] == "mutseq"
                         else "/refused")
        out[k] = out.get(k, 0) + 1
    out["known_tagged"] = sum(1 for r in records if r["tags"])
    return out
