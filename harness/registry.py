"""Per-property registration: python module, Coq case type / checker, evidence texts."""
SPECS = {
    "C01": dict(
        module="c01", case_type="c01_case", check_fn="check_C01", level="proof",
        rule=("cases = single API calls (constructor, index2point, point2index/in, lattice views, "
              "mesh-by-cell) on generated regions (1-4 d, both corner orders, dyadic 'exact' regime and "
              "decimal 'scale' regime 1e-12..1e6); probes on centres, faces, corners, tolerance thresholds, "
              "outside; distinct = distinct (kind, regime, ndim, outcome class, probe class) x input hash; "
              "non-trivial = not the all-default unit mesh"),
        assumptions=["float rounding inside numpy operations is not modelled: exact regime uses inputs for which "
                     "every intermediate is representable, scale regime compares within 1e-9 relative",
                     "dims/units strings and non-numeric argument types are covered by C13's malformed stream"],
    ),
}
