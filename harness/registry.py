"""Per-property registration, read from harness/specs/<Cxx>.json:
   module (harness/props/<module>.py), case_type / check_fn (coq/check/Check_<Cxx>.v),
   level, rule, assumptions, trusted."""
import json
import os

_DIR = os.path.join(os.path.dirname(os.path.abspath(__file__)), "specs")


class _Specs(dict):
    def __missing__(self, pid):
        path = os.path.join(_DIR, f"{pid}.json")
        spec = json.load(open(path))
        self[pid] = spec
        return spec


SPECS = _Specs()
