"""Subprocess entry: generate cases, run them on the implementation from /repo's working
tree, evaluate the property oracle, print records as JSON."""
import importlib
import json
import random
import sys
import time
import warnings

from harness import registry


def main():
    pid, tier, seed, out = sys.argv[1], sys.argv[2], int(sys.argv[3]), sys.argv[4]
    replay = None
    if "--replay" in sys.argv:
        replay = json.load(open(sys.argv[sys.argv.index("--replay") + 1]))
    warnings.simplefilter("ignore")
    from harness.util import import_df
    import_df()
    mod = importlib.import_module("harness.props." + registry.SPECS[pid]["module"])
    rng = random.Random(seed * 1000003 + 17)
    t0 = time.time()
    if replay is not None:
        cases = [replay["case"]] if replay.get("case") is not None else []
        if hasattr(mod, "decode_case"):
            cases = [mod.decode_case(c) for c in cases]
    else:
        cases = mod.generate(rng, tier)
    records = []
    for c in cases:
        try:
            records.append(mod.run_case(c))
        except Exception as e:  # noqa: BLE001
            # a public call on a generated (legitimate) case raised where the runner expected none: recorded as
            # a failing input of its own instead of aborting the whole run
            import traceback
            tb = traceback.format_exc().strip().splitlines()
            records.append(dict(kind=str(c.get("kind", "case")) if isinstance(c, dict) else "case", case=c,
                                obs=dict(exception=type(e).__name__, where=tb[-3:]), coq="", tags=[],
                                oracle=["required-call-raised"], key=f"raised/{type(e).__name__}", size=0))
    try:
        stats = mod.stats(records) if hasattr(mod, "stats") else {}
    except Exception as e:  # noqa: BLE001 - statistics are informational; records of raised cases lack fields
        good = [r for r in records if not str(r.get("key", "")).startswith("raised/")]
        try:
            stats = mod.stats(good)
        except Exception:  # noqa: BLE001
            stats = {}
        stats["stats_error"] = type(e).__name__
    stats["impl_s"] = round(time.time() - t0, 2)
    json.dump(dict(records=records, stats=stats, exhaustive=getattr(mod, "EXHAUSTIVE", False)), open(out, "w"))


if __name__ == "__main__":
    main()
