"""Shared helpers for the implementation-side runners."""
import os
import sys
from fractions import Fraction

import numpy as np

from harness.gallina import qs, to_frac

REPO = os.environ.get("VERIF_REPO", "/repo")


def import_df():
    import discretisedfield as df
    here = os.path.realpath(df.__file__)
    if not here.startswith(os.path.realpath(REPO) + os.sep):
        raise RuntimeError(f"discretisedfield imported from {here}, expected under {REPO}")
    return df


def fr(x):
    return to_frac(x)


def frl(xs):
    return [to_frac(x) for x in np.asarray(xs).reshape(-1).tolist()] if not isinstance(xs, (list, tuple)) \
        else [to_frac(x) for x in xs]


def js(x):
    """json-safe deep conversion (Fractions and numpy numbers -> 'n/d' strings / ints)"""
    if isinstance(x, Fraction):
        return qs(x)
    if isinstance(x, (bool, np.bool_)):
        return bool(x)
    if isinstance(x, (int, np.integer)):
        return int(x)
    if isinstance(x, (float, np.floating)):
        return qs(x)
    if isinstance(x, complex):
        return [qs(x.real), qs(x.imag)]
    if isinstance(x, np.ndarray):
        return js(x.tolist())
    if isinstance(x, dict):
        return {str(k): js(v) for k, v in x.items()}
    if isinstance(x, (list, tuple)):
        return [js(v) for v in x]
    if x is None or isinstance(x, str):
        return x
    return repr(x)


def attempt(f):
    """run f(); map any exception to ('err', class name)"""
    try:
        return ("ok", f())
    except Exception as e:  # noqa: BLE001 - every exception is a rejection
        return ("err", type(e).__name__)


def dyadic(rng, lo=-64, hi=64, denom=8):
    return Fraction(rng.randint(lo * denom, hi * denom), denom)


LAYOUTS = [None, None, "F", "strided", "readonly", "revview"]


def relayout(arr, mode):
    """the same values in another memory layout / with other flags (what a caller may legitimately pass)"""
    if mode is None:
        return arr
    if mode == "F":
        return np.asfortranarray(arr)
    if mode == "strided":          # every second element of a larger buffer along each axis
        big = np.zeros(tuple(2 * s for s in arr.shape), dtype=arr.dtype)
        view = big[tuple(slice(0, None, 2) for _ in arr.shape)]
        view[...] = arr
        return view
    if mode == "readonly":
        out = arr.copy()
        out.setflags(write=False)
        return out
    if mode == "revview":          # negative strides
        rev = tuple(slice(None, None, -1) for _ in arr.shape)
        return np.ascontiguousarray(arr[rev])[rev]
    raise ValueError(mode)
