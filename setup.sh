#!/bin/sh
# Fresh-restore setup: clean, full .vo build of the Coq development (offline, files on disk only).
cd "$(dirname "$0")" || exit 2
mkdir -p build evidence replays
find coq \( -name '*.vo' -o -name '*.vok' -o -name '*.vos' -o -name '*.glob' -o -name '.*.aux' \) -delete
rm -f coq/Makefile coq/Makefile.conf coq/.Makefile.d
/venv/bin/python -c "
import sys; sys.path.insert(0,'.')
from harness import constants
print('constants:', constants.regenerate('${VERIF_REPO:-/repo}', 'coq'))
" || true
coq/mk.sh 2>&1 | grep -v '^COQC\|^COQDEP\|Closed under the global context' | tail -40
test -f coq/Makefile || exit 2
# the build is allowed to be partial (a theorem broken by a source change is reported by the check of
# the property it belongs to), but the base and the models must exist
for f in coq/base/Prelude.vo coq/model/Mesh.vo; do test -f "$f" || { echo "setup: $f missing"; exit 2; }; done
echo "setup done"
