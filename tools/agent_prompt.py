import json,sys
pid=sys.argv[1]; extra=sys.argv[2] if len(sys.argv)>2 else ""
props={json.loads(l)['id']:json.loads(l) for l in open('/verif/properties.jsonl')}
p=props[pid]
print(f"""You are one of several builders of a Coq-based verification framework that lives in /verif (a git repo) and checks semantic properties of the Python library ubermag/discretisedfield checked out at /repo (import it only from /repo; /venv/bin/python has all dependencies). Sandbox: no network; Coq 8.16.1 (coqc on PATH), 16 cores shared with other builders.

YOUR TASK: build the complete check for property {pid} and make `cd /verif && ./check {pid}` exit 0 with an `OK` line on the current /repo tree, in about 2.5 hours of work. Work autonomously; do not ask questions.

Property {pid} — {p['title']}
Statement: {p['statement']}
Quantifier: {p['quantifier']['text']}
Why tests cannot settle it: {p['why_tests_cant']}
Anchors: {json.dumps(p['anchors'])}

READ FIRST (in this order): /verif/BUILDING.md (the rules, file layout, record format — follow it exactly), /verif/DESIGN.md §2, §3 and the "### {pid}" plan in §4 (model M, theorems T, correspondence C, findings F), then the worked template for C01: /verif/coq/model/Mesh.v, /verif/coq/proofs/C01_axis.v, /verif/coq/props/Properties_C01.v, /verif/coq/check/Check_C01.v, /verif/harness/props/c01.py, /verif/harness/specs/C01.json, and /verif/harness/driver.py to see how records are consumed. Then read the anchored source files under /repo/discretisedfield (the code at HEAD already contains several `fix:` commits — `git -C /repo log --oneline | head -20` — model what is there now).

ORDER OF WORK (pipeline first): (1) a small faithful executable Gallina model + Check_{pid}.v + harness/props/{pid.lower()}.py + harness/specs/{pid}.json with a first Properties_{pid}.v containing at least one real theorem, until `./check {pid}` passes end to end; (2) widen the generator (edge cases, thresholds, malformed inputs, both float regimes where relevant) and the oracle (the property text as a sound Python predicate on the implementation's outputs); (3) prove the theorems listed in the DESIGN plan, strongest and most general first (unbounded sizes, induction), keeping Properties_{pid}.v to `exact`-closed statements each followed by Print Assumptions; (4) try 3–5 realistic mutations of the anchored /repo code in a scratch copy (`git -C /repo worktree add /tmp/wt_{pid.lower()} HEAD`, edit there, `VERIF_REPO=/tmp/wt_{pid.lower()} ./check {pid}`, and remove the worktree with `git -C /repo worktree remove --force /tmp/wt_{pid.lower()}` when done) and strengthen generator/oracle/checker where a mutation that breaks the property slips through. Never edit anything under /repo itself, never commit, and touch only the files BUILDING.md says {pid} owns.
{extra}
A check that raises an alarm on the unchanged tree is worthless, so after your last edit run `./check {pid}` with three different `--seed` values and `--tier thorough` once; all must exit 0 (unless you found a genuine defect of /repo — then tag those cases as BUILDING.md describes and report the exact reproduction).

FINAL REPORT (your last message, concise): files created; theorems (name + one line; which are closed under the global context, which use which axioms); what the correspondence generator covers and case counts; quick and thorough wall times; genuine /repo defects found (exact call, observed vs expected); mutations tried and whether caught; anything left undone.""")
