#!/bin/sh
# usage: dbg.sh file.v line  -> prints goal state before that line (truncates file, adds Show.)
f=$1; l=$2
head -n $((l-1)) $f > /tmp/dbg_tmp_$$.v
echo "Show. " >> /tmp/dbg_tmp_$$.v
cd /verif/coq && coqc -Q . DF /tmp/dbg_tmp_$$.v 2>&1 | tail -${3:-40}
