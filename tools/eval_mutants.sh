#!/bin/bash
# usage: eval_mutants.sh <Cxx> <dir containing MUT/k/{patch.diff,demo.py,meta.json}> <tag> [tier]
# For each seeded change: apply it to a scratch worktree of /repo HEAD, confirm the demonstration
# (PASS without, FAIL with the change), run the library's own test-suite with the change (TESTS=1),
# run the property's check against it, revert; keep it under /verif/seeded/<Cxx>-<tag><k>/.
pid=$1; src=$2; tag=${3:-a}; tier=${4:-quick}
wt=/tmp/wt_eval_${pid}_$tag
git -C /repo worktree remove --force $wt 2>/dev/null
git -C /repo worktree add -f $wt HEAD -q || exit 2
for d in $src/MUT/*/; do
  k=$(basename $d)
  cd $wt && git checkout -q -- .
  base=$(cd $wt && PYTHONPATH=$wt MPLBACKEND=Agg timeout 900 /venv/bin/python $d/demo.py >/dev/null 2>&1; echo $?)
  if ! git apply --check $d/patch.diff 2>/dev/null; then echo "MUT $pid/$tag$k: patch does not apply to HEAD"; continue; fi
  git apply $d/patch.diff
  demo=$(cd $wt && PYTHONPATH=$wt MPLBACKEND=Agg timeout 900 /venv/bin/python $d/demo.py >/dev/null 2>&1; echo $?)
  tests="not-run"
  if [ "$TESTS" = "1" ]; then
    tests=$(cd $wt && PYTHONPATH=$wt timeout 1500 /venv/bin/python -m pytest -q -p no:cacheprovider --timeout=900 discretisedfield/tests 2>&1 | tail -1)
  fi
  out=$(cd /verif && VERIF_REPO=$wt ./check $pid --tier $tier 2>/dev/null | grep -E "^(VIOLATION|OK|INFRA)" | head -4 | tr '\n' ' ')
  echo "MUT $pid/$tag$k: demo clean=$base mutated=$demo | tests: $tests | check: $out"
  if [ "$base" = "0" ] && [ "$demo" != "0" ]; then
    dest=/verif/seeded/$pid-$tag$k; mkdir -p $dest
    cp $d/patch.diff $dest/patch.diff; cp $d/demo.py $dest/demo.py
    python3 - "$d/meta.json" "$dest/meta.json" "$pid" "$base" "$demo" "$tests" "$out" "$tier" <<'PY'
import json,sys
src,dst,pid,base,demo,tests,out,tier=sys.argv[1:9]
m=json.load(open(src))
m.update(property=pid, confirmed=dict(head=__import__('subprocess').check_output(['git','-C','/repo','log','--format=%h','-1'],text=True).strip(),
         demo_exit_clean=int(base), demo_exit_with_change=int(demo), testsuite_with_change=tests,
         check_cmd=f"VERIF_REPO=<scratch worktree with the patch> ./check {pid} --tier {tier}", check_result=out.strip(),
         detected=out.strip().startswith("VIOLATION")))
json.dump(m, open(dst,'w'), indent=1)
PY
  fi
  git checkout -q -- .
done
cd /; git -C /repo worktree remove --force $wt
