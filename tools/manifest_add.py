#!/usr/bin/env python3
"""manifest_add.py <Cxx> <level text> <level note>  — add/replace a check in MANIFEST.json"""
import json, sys
pid, text, note = sys.argv[1:4]
m = json.load(open('/verif/MANIFEST.json'))
m['checks'] = [c for c in m['checks'] if c['property_id'] != pid]
m['checks'].append({"property_id": pid, "quick_cmd": f"./check {pid} --tier quick", "thorough_cmd": f"./check {pid} --tier thorough",
    "evidence_file": f"evidence/{pid}.json", "replay_cmd_template": f"./check {pid} --replay {{path}}",
    "engine": "coq-correspondence",
    "level_claimed": {"category": "proof", "text": text, "design_ref": f"DESIGN.md §4 {pid}, §9"},
    "level_note": note,
    "technique": "machine-checked proof in Coq on a hand-written model + checked model/implementation correspondence"})
m['checks'].sort(key=lambda c: c['property_id'])
m['not_applicable'] = [x for x in m['not_applicable'] if x['property_id'] != pid]
m['engines'][0]['serves_properties'] = sorted({c['property_id'] for c in m['checks']})
json.dump(m, open('/verif/MANIFEST.json', 'w'), indent=1)
