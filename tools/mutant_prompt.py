import json,sys
pid=sys.argv[1]; tag=sys.argv[2] if len(sys.argv)>2 else "a"
props={json.loads(l)['id']:json.loads(l) for l in open('/verif/properties.jsonl')}
p=props[pid]
wt=f"/tmp/mut_{pid.lower()}_{tag}"
print(f"""You are testing how well a Python library's behaviour is pinned down. The library is ubermag/discretisedfield (regions, finite-difference meshes and fields for micromagnetics). Work ONLY inside your own scratch git worktree `{wt}` — create it first with `git -C /repo worktree add {wt} HEAD` (it is a full checkout of the library at its current HEAD; /venv/bin/python has all dependencies; run code with `cd {wt} && PYTHONPATH={wt} /venv/bin/python ...` so that the worktree's copy is imported — check `discretisedfield.__file__`). Do not read or use anything under /verif, do not edit /repo itself, do not commit anywhere. No network.

Here is a semantic property the library is supposed to satisfy:

PROPERTY {pid} — {p['title']}
{p['statement']}
It must hold {p['quantifier']['text']}.
Relevant source files: {', '.join(p['anchors']['files'])}

YOUR TASK: produce THREE different, independent, realistic changes to the library source (each a separate small patch against HEAD, the kind of slip or "simplification" a maintainer could plausibly commit) such that each one
  (1) BREAKS the property above, and
  (2) still imports fine and still passes the library's existing test-suite (`cd {wt} && /venv/bin/python -m pytest -q -p no:cacheprovider --timeout=900 -x discretisedfield/tests 2>&1 | tail -5` takes ~2 minutes; two tests, test_pyvista_streamlines and test_ovf2vtk, fail even on the unmodified tree — ignore those two), and
  (3) needs something SPECIFIC to manifest — an unusual but legitimate input, a particular combination of options, a multi-step sequence of operations, a particular size/parity/position/scale, or two cooperating sites that each look fine alone — rather than something ordinary use would expose at once.
Prefer three changes that touch different mechanisms of the property (different functions / different clauses of the statement).

For each change k = 1,2,3 write into `{wt}/MUT/k/`: `patch.diff` (output of `git diff` for that change alone, applicable to HEAD with `git apply`), `demo.py` (a small self-contained program that exits 0 and prints PASS on the UNMODIFIED library and exits 1 printing FAIL on the modified one, checking the property's statement on a concrete input), and `meta.json` with keys: property ("{pid}"), summary (one sentence), needs (what specific circumstance is required for the breakage to show), files (list of touched files). Between changes restore the tree with `git checkout -- .` (keep the MUT directory, it is untracked).

Verify each change yourself before finishing: apply patch on a clean tree -> demo.py FAILs; revert -> demo.py PASSes; with the patch applied the test-suite result is the same as on the clean tree. When done, leave the worktree in place with a CLEAN tree (all patches reverted) and the MUT directory present, and report (concisely) the three summaries and the verification results. If you cannot find three, deliver as many as you can.""")
