#!/bin/bash
# re-run the property's check against every kept seeded change (scratch worktree of /repo HEAD)
# usage: reeval_seeded.sh [glob of ids, default *] [tier]
pat=${1:-*}; tier=${2:-quick}
wt=/tmp/wt_reeval_$$
git -C /repo worktree add -f $wt HEAD -q || exit 2
for d in /verif/seeded/$pat/; do
  id=$(basename $d); pid=${id%%-*}
  [ -f $d/patch.diff ] || continue
  cd $wt && git checkout -q -- .
  if ! git apply --check $d/patch.diff 2>/dev/null; then echo "REEVAL $id: patch does not apply to HEAD"; continue; fi
  git apply $d/patch.diff
  demo=$(cd $wt && PYTHONPATH=$wt MPLBACKEND=Agg timeout 900 /venv/bin/python $d/demo.py >/dev/null 2>&1; echo $?)
  out=$(cd /verif && VERIF_REPO=$wt ./check $pid --tier $tier 2>/dev/null | grep -E "^(VIOLATION|OK|INFRA)" | head -4 | tr '\n' ' ')
  echo "REEVAL $id: demo_with_change=$demo | $out" | cut -c1-200
  python3 - "$d/meta.json" "$out" "$demo" "$tier" <<'PY'
import json,sys,subprocess
p,out,demo,tier=sys.argv[1:5]
m=json.load(open(p)); c=m.setdefault('confirmed',{})
import os
seed=os.environ.get('VERIF_SEED','0') or '0'
c['recheck' if seed=='0' else 'recheck_seed'+seed]=dict(seed=int(seed), head=subprocess.check_output(['git','-C','/repo','log','--format=%h','-1'],text=True).strip(),
                  demo_exit_with_change=int(demo), tier=tier, check_result=out.strip(), detected=out.strip().startswith('VIOLATION'))
json.dump(m, open(p,'w'), indent=1)
PY
  git checkout -q -- .
done
cd /; git -C /repo worktree remove --force $wt
