#!/bin/bash
# run every registered check once on the unchanged tree (tier/seed from args), print one line each
tier=${1:-quick}; seed=${2:-0}
cd /verif
for p in $(python3 -c "import json; print(' '.join(c['property_id'] for c in json.load(open('MANIFEST.json'))['checks']))"); do
  s=$(date +%s)
  out=$(./check $p --tier $tier --seed $seed 2>/dev/null | grep -E "^(OK|VIOLATION|INFRA)" | head -3 | tr '\n' ' ')
  echo "$p $(( $(date +%s) - s ))s: $out" | cut -c1-220
done
