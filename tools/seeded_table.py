#!/usr/bin/env python3
"""Print the DESIGN.md table 'seeded changes and which check catches them' from seeded/*/meta.json.
first run = the check as it stood when the change arrived; now = the latest re-evaluation
(tools/reeval_seeded.sh) against the current checks and /repo HEAD."""
import glob, json, os, sys


def how(c):
    if not c:
        return "-"
    res = c.get("check_result", "")
    if not c.get("detected"):
        return "missed"
    return "VIOLATION (no-failing-input-found)" if "no-failing-input-found" in res else "VIOLATION + failing input"


rows = []
for d in sorted(glob.glob("/verif/seeded/*/")):
    m = json.load(open(os.path.join(d, "meta.json")))
    c = m.get("confirmed", {})
    rows.append((os.path.basename(d.rstrip("/")), m.get("summary", "").replace("|", "/")[:170],
                 str(m.get("needs", "")).replace("|", "/")[:120], how(c), how(c.get("recheck")),
                 how(c.get("recheck_seed1"))))
try:
    print("| id | change | needs | first run | now (seed 0) | now (seed 1) |")
    print("|---|---|---|---|---|---|")
    for r in rows:
        print("| " + " | ".join(r) + " |")
    first = sum(1 for r in rows if r[3].startswith("VIOLATION"))
    now = sum(1 for r in rows if r[4].startswith("VIOLATION"))
    now1 = sum(1 for r in rows if r[5].startswith("VIOLATION"))
    print(f"\n{len(rows)} seeded changes; detected on first run: {first}; detected by the current checks: {now}"
          f" at seed 0, {now1} at seed 1 (not re-evaluated: {sum(1 for r in rows if r[4] == '-')}).")
except BrokenPipeError:
    sys.exit(0)
