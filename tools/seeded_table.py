#!/usr/bin/env python3
"""Print the DESIGN.md table 'seeded changes and which check catches them' from seeded/*/meta.json"""
import glob, json, os
rows = []
for d in sorted(glob.glob('/verif/seeded/*/')):
    m = json.load(open(os.path.join(d, 'meta.json')))
    c = m.get('confirmed', {})
    res = c.get('check_result', '')
    how = 'VIOLATION' + (' (no-failing-input-found)' if 'no-failing-input-found' in res else ' with failing input') if c.get('detected') else 'MISSED'
    rows.append((os.path.basename(d.rstrip('/')), m.get('property'), m.get('summary', '').replace('|', '/')[:150],
                 str(m.get('needs', '')).replace('|', '/')[:110], how))
print('| id | property | change | needs | ./check result |')
print('|---|---|---|---|---|')
for r in rows:
    print('| ' + ' | '.join(r) + ' |')
print(f"\n{sum(1 for r in rows if r[4].startswith('VIOLATION'))} of {len(rows)} seeded changes detected.")
