#!/usr/bin/env python3
"""Print the per-property status table for DESIGN.md from evidence/*.json, known_findings.json, seeded/*."""
import glob, json, os
V = "/verif"
props = {json.loads(l)["id"]: json.loads(l) for l in open(f"{V}/properties.jsonl")}
known = json.load(open(f"{V}/known_findings.json"))
print("| id | title | theorems (closed / with stdlib axioms) | cases last run (tier) | known findings | repairs | seeded changes (detected now / kept) |")
print("|---|---|---|---|---|---|---|")
for pid in sorted(props):
    e = json.load(open(f"{V}/evidence/{pid}.json"))
    c = e.get("coverage", {})
    ta = c.get("theorem_assumptions", [])
    closed = sum(1 for v in ta if v == "closed")
    ax = len(ta) - closed
    kn = [k["id"] for k in known if k["property"] == pid and k["status"] == "known"]
    fx = sum(1 for k in known if k["property"] == pid and k["status"] == "fixed")
    sd = [json.load(open(m)) for m in glob.glob(f"{V}/seeded/{pid}-*/meta.json")]
    det = sum(1 for m in sd if (m.get("confirmed", {}).get("recheck") or m.get("confirmed", {})).get("detected"))
    print(f"| {pid} | {props[pid]['title'][:60]} | {closed} / {ax} | {c.get('evaluations', '?')} ({e.get('tier', c.get('tier', '?'))}) | "
          f"{', '.join(kn) or '-'} | {fx} | {det} / {len(sd)} |")
